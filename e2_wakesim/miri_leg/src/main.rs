//! Miri leg of C27 (thorough tier, optional): the wake-up protocol of
//! `dfir_rs::scheduled::context` on real `std` threads, interpreted by Miri with its seeded scheduler
//! (`-Zmiri-many-seeds`, `-Zmiri-preemption-rate`) and its weak-memory emulation (store buffers for
//! the `Relaxed` flag accesses). Phase 1 runs without any forced switch; phase 2 repeats the
//! scenarios with `std::thread::yield_now()` at every dfir_rs yield point.
//!
//! Oracle: a lost wake-up leaves the runner thread parked forever while the main thread joins it —
//! Miri reports "the evaluated program deadlocked". No timeouts, no clocks.
//!
//! Data model (sound under weak memory): the "external data" is a `Mutex<u32>` cell written
//! *before* the waker fires and read by the tick closure; if the runner observed the flag store,
//! its later lock is ordered after the writer's unlock (a load cannot read from a store that
//! happens after it), so the tick must see the data. `done` resolves when a tick has seen all data.
//! Scenario B uses the real tokio channel (whose own register-then-recheck protocol carries the data).

use std::cell::Cell;
use std::future::Future;
use std::pin::Pin;
use std::rc::Rc;
use std::sync::{Arc, Mutex};
use std::task::{Context as Cx, Poll, Wake, Waker};

use dfir_rs::scheduled::context::{Context, Dfir, TickClosure};

struct ThreadWaker(std::thread::Thread);
impl Wake for ThreadWaker {
    fn wake(self: Arc<Self>) {
        self.0.unpark();
    }
    fn wake_by_ref(self: &Arc<Self>) {
        self.0.unpark();
    }
}

fn block_on<F: Future>(f: F) -> F::Output {
    let mut f = Box::pin(f);
    let w = Waker::from(Arc::new(ThreadWaker(std::thread::current())));
    let mut cx = Cx::from_waker(&w);
    loop {
        if let Poll::Ready(v) = f.as_mut().poll(&mut cx) {
            return v;
        }
        std::thread::park();
    }
}

struct Tick {
    data: Arc<Mutex<u32>>,
    seen: Rc<Cell<u32>>,
    ticks: Rc<Cell<u32>>,
}
impl TickClosure for Tick {
    fn call_tick<'a>(&'a mut self, _ctx: &'a mut Context) -> impl Future<Output = bool> + 'a {
        async move {
            self.ticks.set(self.ticks.get() + 1);
            let v = *self.data.lock().unwrap();
            self.seen.set(v);
            false
        }
    }
}

struct Done {
    seen: Rc<Cell<u32>>,
    planned: u32,
}
impl Future for Done {
    type Output = ();
    fn poll(self: Pin<&mut Self>, _cx: &mut Cx<'_>) -> Poll<()> {
        if self.seen.get() >= self.planned { Poll::Ready(()) } else { Poll::Pending }
    }
}

fn scenario_a(n_wakers: u32, wakes_each: u32, by_value: bool) -> u32 {
    let runner = std::thread::spawn(move || {
        let data = Arc::new(Mutex::new(0u32));
        let seen = Rc::new(Cell::new(0));
        let ticks = Rc::new(Cell::new(0));
        let ctx = Context::default();
        let wakers: Vec<Waker> = (0..n_wakers).map(|_| ctx.waker()).collect();
        let mut dfir = Dfir::new(Tick { data: data.clone(), seen: seen.clone(), ticks: ticks.clone() }, ctx, None, None);
        let hs: Vec<_> = wakers
            .into_iter()
            .map(|w| {
                let data = data.clone();
                std::thread::spawn(move || {
                    for _ in 0..wakes_each {
                        *data.lock().unwrap() += 1; // the data arrives ...
                        if by_value { w.clone().wake() } else { w.wake_by_ref() } // ... then its waker fires
                    }
                })
            })
            .collect();
        {
            let run = Box::pin(dfir.run());
            let _ = block_on(futures::future::select(run, Done { seen: seen.clone(), planned: n_wakers * wakes_each }));
        }
        for h in hs {
            h.join().unwrap();
        }
        assert_eq!(seen.get(), n_wakers * wakes_each);
        ticks.get()
    });
    runner.join().unwrap()
}

fn scenario_b(n_senders: u32, items_each: u32) -> u32 {
    let runner = std::thread::spawn(move || {
        let rec: Rc<std::cell::RefCell<Vec<u32>>> = Rc::default();
        let rec2 = rec.clone();
        let (tx, rx) = dfir_rs::util::unbounded_channel::<u32>();
        let mut df = dfir_rs::dfir_syntax! {
            source_stream(rx) -> for_each(|x: u32| rec2.borrow_mut().push(x));
        };
        let hs: Vec<_> = (0..n_senders)
            .map(|s| {
                let tx = tx.clone();
                std::thread::spawn(move || {
                    for i in 0..items_each {
                        tx.send(s * 100 + i).unwrap();
                    }
                })
            })
            .collect();
        drop(tx);
        struct DoneB(Rc<std::cell::RefCell<Vec<u32>>>, usize);
        impl Future for DoneB {
            type Output = ();
            fn poll(self: Pin<&mut Self>, _cx: &mut Cx<'_>) -> Poll<()> {
                if self.0.borrow().len() >= self.1 { Poll::Ready(()) } else { Poll::Pending }
            }
        }
        {
            let run = Box::pin(df.run());
            let _ = block_on(futures::future::select(run, DoneB(rec.clone(), (n_senders * items_each) as usize)));
        }
        for h in hs {
            h.join().unwrap();
        }
        let mut got = rec.borrow().clone();
        got.sort_unstable();
        let mut want: Vec<u32> = (0..n_senders).flat_map(|s| (0..items_each).map(move |i| s * 100 + i)).collect();
        want.sort_unstable();
        assert_eq!(got, want, "every item exactly once");
        got.len() as u32
    });
    runner.join().unwrap()
}

/// Phase 2 switch: when set, every dfir_rs yield point (between the atomic steps of wake_by_ref /
/// run_tick / run_available / run) calls `std::thread::yield_now()`, which makes Miri's scheduler
/// switch threads exactly there (no happens-before edge is added by a yield).
static FORCE_SWITCH: std::sync::atomic::AtomicBool = std::sync::atomic::AtomicBool::new(false);

fn hook(_id: u32) {
    if FORCE_SWITCH.load(std::sync::atomic::Ordering::Relaxed) {
        std::thread::yield_now();
    }
}

fn all_scenarios() -> (u32, u32) {
    let t = scenario_a(1, 1, false) + scenario_a(2, 1, true) + scenario_a(1, 2, false) + scenario_a(2, 2, false);
    let n = scenario_b(1, 2) + scenario_b(2, 2);
    (t, n)
}

fn main() {
    dfir_rs::scheduled::verif_hooks::set_yield_hook(hook);
    // phase 1: no forced switches (Miri's seeded preemption only)
    let (t1, n1) = all_scenarios();
    // phase 2: forced switch at every yield point, on top of Miri's preemption
    FORCE_SWITCH.store(true, std::sync::atomic::Ordering::Relaxed);
    let (t2, n2) = all_scenarios();
    println!("MIRI-LEG-OK ticks={t1}+{t2} items={n1}+{n2}");
}
