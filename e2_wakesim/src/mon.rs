//! Per-execution monitor. One shuttle execution runs on exactly one OS thread and all of its
//! shuttle threads are coroutines on that OS thread, of which exactly one runs at a time — so a
//! plain `std::thread_local!` is the execution-global, race-free place for the event log, the wake
//! stamps and the probes. Nothing in here reads a clock or an address; every decision comes from
//! shuttle's scheduler / `shuttle::rand`.

use std::cell::RefCell;
use std::collections::{BTreeMap, BTreeSet};
use std::time::Duration;

// ---- event codes (yield point ids 10..=41 come from /repo/dfir_rs/src/scheduled/context.rs) ----
#[allow(dead_code)]
pub const YP_WAKE_ENTER: u32 = 10;
pub const YP_WAKE_STORED: u32 = 11;
pub const YP_WAKE_WOKEN: u32 = 12;
pub const YP_TICK_PRE_SWAP: u32 = 20;
pub const YP_TICK_POST_SWAP: u32 = 21;
pub const YP_TICK_POST_CLOSURE: u32 = 22;
pub const YP_RA_PRE_STORE: u32 = 30;
pub const YP_RA_POST_STORE: u32 = 31;
pub const YP_RA_PRE_SWAP: u32 = 32;
pub const YP_RA_POST_SWAP: u32 = 33;
pub const YP_RUN_PRE_REGISTER: u32 = 40;
pub const YP_RUN_POST_REGISTER: u32 = 41;
// harness yield points (called by the stub tick closure / the waker and sender threads)
pub const YP_CLOSURE: u32 = 50; // inside the tick closure
pub const YP_CLOSURE_RESUMED: u32 = 51; // tick closure resumed after an async suspension
pub const YP_CLOSURE_TAIL: u32 = 52;
pub const YP_FOR_EACH: u32 = 60; // inside for_each of the dfir_syntax! program (scenario B)
pub const YP_WAKER_IDLE: u32 = 70; // waker thread between wakes
pub const YP_SENDER_IDLE: u32 = 71; // sender thread between sends
pub const YP_SENDER_SENT: u32 = 72;
// pure events (no scheduling point)
pub const EV_TICK_START: u32 = 100;
pub const EV_TICK_END: u32 = 101;
pub const EV_POLL_BEGIN: u32 = 110;
pub const EV_POLL_PENDING: u32 = 111;
pub const EV_POLL_READY: u32 = 112;
pub const EV_DONE_READY: u32 = 113;
pub const EV_RA_RETURNED: u32 = 114;
pub const EV_PROBE_FLAG: u32 = 115; // arg = flag observed by the atomic probe tick
pub const EV_WAKE_NO_STORE: u32 = 116; // a wake call returned without passing the flag store
pub const EV_SEND: u32 = 120; // arg = item
pub const EV_RECORD: u32 = 130; // arg = item
pub const EV_KNOB: u32 = 200; // arg = knob value
pub const EV_RUNNER_EXIT: u32 = 140;

pub fn code_name(c: u32) -> &'static str {
    match c {
        10 => "wake_by_ref:enter",
        11 => "wake_by_ref:flag_stored",
        12 => "wake_by_ref:task_waker_woken",
        20 => "run_tick:before_swap",
        21 => "run_tick:after_swap",
        22 => "run_tick:after_closure",
        30 => "run_available:before_store_false",
        31 => "run_available:after_store_false",
        32 => "run_available:before_swap",
        33 => "run_available:after_swap",
        40 => "run:before_register",
        41 => "run:after_register_before_load",
        50 => "closure:yield",
        51 => "closure:resumed_after_pending",
        52 => "closure:tail_yield",
        60 => "for_each:yield",
        70 => "waker_thread:idle_yield",
        71 => "sender_thread:idle_yield",
        72 => "sender_thread:after_send",
        100 => "TICK_START",
        101 => "TICK_END",
        110 => "runner_poll:begin",
        111 => "runner_poll:pending",
        112 => "runner_poll:ready",
        113 => "DONE_READY",
        114 => "run_available:returned",
        115 => "probe_tick:flag",
        116 => "WAKE_CALL_RETURNED_WITHOUT_FLAG_STORE",
        120 => "SEND",
        130 => "RECORD",
        140 => "runner:exit",
        200 => "knob",
        _ => "?",
    }
}

#[derive(Clone, Debug)]
pub struct WakeRec {
    pub stamp: u64,
    pub task: usize,
    pub phase: &'static str,
}

#[derive(Default)]
pub struct Mon {
    pub active: bool,
    pub seq: u64,
    pub hash: u64,
    pub log: Vec<(u8, u32, u32)>,
    pub keep_log: bool,
    pub yields: u64,
    /// Runner is inside the atomic probe section: yield points do not yield.
    pub atomic: bool,
    pub runner_task: Option<usize>,
    pub runner_last_yp: u32,
    pub runner_polling: bool,
    pub runner_started: bool,
    pub runner_exited: bool,
    pub wakes: Vec<WakeRec>,
    pub last_tick_start: u64,
    pub ticks: u32,
    pub planned_ext_wakes: u32,
    pub ext_stamped: u32,
    pub interleaved_wakes: u32,
    pending33: Vec<usize>,
    pub probes: BTreeMap<&'static str, u64>,
    pub yp_hits: BTreeMap<u32, u64>,
    // scenario B
    pub planned_items: u32,
    pub sent: Vec<u32>,
    pub recorded: Vec<u32>,
    pub recorded_set: BTreeSet<u32>,
    pub interleaved_sends: u32,
}

/// What one finished (non-failing) iteration contributes to the shard.
#[derive(Clone, Debug, Default)]
pub struct IterSummary {
    pub hash: u64,
    pub nontrivial: bool,
    pub steps: u64,
    pub yields: u64,
    pub ticks: u32,
    pub wakes: u32,
    pub items: u32,
}

/// Shard-level (per OS thread, per batch) accumulator filled by `finish_iteration`.
#[derive(Default)]
pub struct BatchAcc {
    pub iters: Vec<IterSummary>,
    pub probes: BTreeMap<&'static str, u64>,
    pub yp_hits: BTreeMap<u32, u64>,
    pub samples: Vec<Vec<(u8, u32, u32)>>,
    pub want_samples: usize,
    pub keep_all_logs: bool,
}

thread_local! {
    pub static MON: RefCell<Mon> = RefCell::new(Mon::default());
    pub static ACC: RefCell<BatchAcc> = RefCell::new(BatchAcc::default());
}

const FNV_OFF: u64 = 0xcbf2_9ce4_8422_2325;
const FNV_P: u64 = 0x0000_0100_0000_01B3;

fn me() -> usize {
    usize::from(shuttle::current::me())
}

impl Mon {
    fn ev(&mut self, task: usize, code: u32, arg: u32) {
        self.seq += 1;
        let mut h = self.hash;
        for v in [task as u64, code as u64, arg as u64] {
            h = (h ^ v).wrapping_mul(FNV_P);
        }
        self.hash = h;
        if self.keep_log {
            self.log.push((task as u8, code, arg));
        }
    }
    fn probe(&mut self, name: &'static str) {
        *self.probes.entry(name).or_default() += 1;
    }
    pub fn uncovered(&self) -> usize {
        self.wakes.iter().filter(|w| w.stamp > self.last_tick_start).count()
    }
    /// Where is the runner right now, seen from a wake that has just completed its flag store?
    fn phase(&self) -> &'static str {
        if !self.runner_started {
            return "before_runner_first_poll";
        }
        if self.runner_exited {
            return "after_runner_exit";
        }
        match (self.runner_last_yp, self.runner_polling) {
            (0, _) => "runner_polling_before_first_yield_point",
            (YP_RA_PRE_STORE, _) => "before_initial_store_false_of_run_available",
            (YP_RA_POST_STORE, _) => "after_initial_store_false_before_first_tick",
            (YP_TICK_PRE_SWAP, _) => "before_swap_of_run_tick",
            (YP_TICK_POST_SWAP, _) => "between_swap_and_closure",
            (50..=59, true) | (60, true) => "during_closure",
            (50..=59, false) | (60, false) => "during_closure_suspended",
            (YP_TICK_POST_CLOSURE, _) => "after_closure_before_run_available_swap",
            (YP_RA_PRE_SWAP, _) => "before_swap_of_run_available",
            (YP_RA_POST_SWAP, true) => "after_swap_of_run_available(unresolved)",
            (YP_RA_POST_SWAP, false) => "in_yield_now_gap_between_ticks",
            (YP_RUN_PRE_REGISTER, _) => "idle_before_register",
            (YP_RUN_POST_REGISTER, true) => "between_register_and_load",
            (YP_RUN_POST_REGISTER, false) => "while_parked",
            _ => "other",
        }
    }
    fn resolve33(&mut self, last_swap: bool) {
        let name = if last_swap { "after_last_swap_of_run_available" } else { "after_nonfinal_swap_of_run_available" };
        for i in std::mem::take(&mut self.pending33) {
            self.wakes[i].phase = name;
            *self.probes.entry(wake_probe_name(name)).or_default() += 1;
        }
    }
}

fn wake_probe_name(phase: &'static str) -> &'static str {
    match phase {
        "before_runner_first_poll" => "wake_landed:before_runner_first_poll",
        "after_runner_exit" => "wake_landed:after_runner_exit",
        "runner_polling_before_first_yield_point" => "wake_landed:runner_polling_before_first_yield_point",
        "before_initial_store_false_of_run_available" => "wake_landed:before_initial_store_false_of_run_available",
        "after_initial_store_false_before_first_tick" => "wake_landed:after_initial_store_false_before_first_tick",
        "before_swap_of_run_tick" => "wake_landed:before_swap_of_run_tick",
        "between_swap_and_closure" => "wake_landed:between_swap_and_closure",
        "during_closure" => "wake_landed:during_closure",
        "during_closure_suspended" => "wake_landed:during_closure_suspended",
        "after_closure_before_run_available_swap" => "wake_landed:after_closure_before_run_available_swap",
        "before_swap_of_run_available" => "wake_landed:before_swap_of_run_available",
        "in_yield_now_gap_between_ticks" => "wake_landed:in_yield_now_gap_between_ticks",
        "idle_before_register" => "wake_landed:idle_before_register",
        "between_register_and_load" => "wake_landed:between_register_and_load",
        "while_parked" => "wake_landed:while_parked",
        "after_last_swap_of_run_available" => "wake_landed:after_last_swap_of_run_available",
        "after_nonfinal_swap_of_run_available" => "wake_landed:after_nonfinal_swap_of_run_available",
        _ => "wake_landed:other",
    }
}

fn wakecall_probe_name(phase: &'static str) -> &'static str {
    match phase {
        "idle_before_register" => "task_waker_wake_called:idle_before_register",
        "between_register_and_load" => "task_waker_wake_called:between_register_and_load",
        "while_parked" => "task_waker_wake_called:while_parked",
        "during_closure" | "during_closure_suspended" => "task_waker_wake_called:during_closure",
        _ => "task_waker_wake_called:while_runner_busy_elsewhere",
    }
}

/// The yield hook installed into dfir_rs (and called directly by harness code): log the point,
/// update the monitor, then let shuttle switch threads.
pub fn hook(id: u32) {
    let do_yield = MON.with(|m| {
        let mut m = m.borrow_mut();
        if !m.active {
            return false;
        }
        let task = me();
        m.ev(task, id, 0);
        *m.yp_hits.entry(id).or_default() += 1;
        let is_runner = m.runner_task == Some(task);
        if id == YP_WAKE_STORED {
            // the flag store of this wake has just completed (no scheduling point in between)
            let phase = m.phase();
            let stamp = m.seq;
            m.wakes.push(WakeRec { stamp, task, phase });
            if !is_runner {
                m.ext_stamped += 1;
                if m.runner_started && !m.runner_exited {
                    m.interleaved_wakes += 1;
                }
            } else {
                m.probe("self_wake_from_tick_closure");
            }
            if is_runner {
                // a wake issued by the tick closure itself: not an *external* landing point
            } else if phase == "after_swap_of_run_available(unresolved)" {
                let i = m.wakes.len() - 1;
                m.pending33.push(i);
            } else {
                m.probe(wake_probe_name(phase));
            }
        } else if id == YP_WAKE_WOKEN {
            let phase = m.phase();
            m.probe(wakecall_probe_name(phase));
        }
        if is_runner && id >= 20 {
            if !m.pending33.is_empty() {
                match id {
                    YP_RUN_PRE_REGISTER => m.resolve33(true),
                    YP_TICK_PRE_SWAP => m.resolve33(false),
                    _ => {}
                }
            }
            m.runner_last_yp = id;
        }
        if m.atomic && is_runner {
            return false;
        }
        m.yields += 1;
        true
    });
    if do_yield {
        // NOT yield_now: with yield_now shuttle's random scheduler alternates deterministically.
        shuttle::thread::sleep(Duration::ZERO);
    }
}

pub fn event(code: u32, arg: u32) {
    MON.with(|m| {
        let mut m = m.borrow_mut();
        if m.active {
            let t = me();
            m.ev(t, code, arg);
        }
    });
}

/// Number of wakes stamped so far by the calling shuttle thread.
pub fn stamps_by_me() -> usize {
    let t = me();
    with(|m| m.wakes.iter().filter(|w| w.task == t).count())
}

/// Called by a waker thread right after `wake()` / `wake_by_ref()` returned. On the unchanged tree
/// every wake call passes yield point 11 (flag store completed) exactly once, so this does nothing.
/// If the code under test returned from the wake call *without* the flag store (mutated code), the
/// wake is stamped here instead: the waker has fired, a tick has to follow.
pub fn wake_call_returned(stamps_before: usize) {
    if stamps_by_me() != stamps_before {
        return;
    }
    event(EV_WAKE_NO_STORE, 0);
    let t = me();
    with(|m| {
        let stamp = m.seq;
        m.wakes.push(WakeRec { stamp, task: t, phase: "no_flag_store_observed" });
        m.ext_stamped += 1;
        if m.runner_started && !m.runner_exited {
            m.interleaved_wakes += 1;
        }
        *m.probes.entry("wake_call_returned_without_flag_store").or_default() += 1;
    });
}

pub fn with<R>(f: impl FnOnce(&mut Mon) -> R) -> R {
    MON.with(|m| f(&mut m.borrow_mut()))
}

/// Start of one execution (called by the scenario's main shuttle thread).
pub fn begin() {
    let keep = ACC.with(|a| {
        let a = a.borrow();
        a.keep_all_logs || a.samples.len() < a.want_samples
    });
    MON.with(|m| {
        let mut m = m.borrow_mut();
        *m = Mon::default();
        m.active = true;
        m.hash = FNV_OFF;
        m.keep_log = keep;
    });
}

pub fn knob(v: u32) {
    event(EV_KNOB, v);
}

pub fn runner_begin() {
    let t = me();
    with(|m| m.runner_task = Some(t));
}

pub fn runner_exit() {
    event(EV_RUNNER_EXIT, 0);
    with(|m| m.runner_exited = true);
}

pub fn poll_begin() {
    event(EV_POLL_BEGIN, 0);
    with(|m| {
        m.runner_polling = true;
        m.runner_started = true;
    });
}

pub fn poll_end(ready: bool) {
    event(if ready { EV_POLL_READY } else { EV_POLL_PENDING }, 0);
    with(|m| {
        m.runner_polling = false;
        if !ready && m.runner_last_yp == YP_RA_POST_SWAP && !m.pending33.is_empty() {
            // suspended in tokio's yield_now between two ticks: that swap was not the last one
            m.resolve33(false);
        }
    });
}

/// Tick closure body begins. Returns the 1-based tick number.
pub fn tick_start() -> u32 {
    event(EV_TICK_START, 0);
    with(|m| {
        m.last_tick_start = m.seq;
        m.ticks += 1;
        m.ticks
    })
}

pub fn tick_end() {
    event(EV_TICK_END, 0);
}

pub fn run_available_returned() {
    event(EV_RA_RETURNED, 0);
    with(|m| {
        if !m.pending33.is_empty() {
            m.resolve33(true);
        }
    });
}

/// End of a successful execution: fold it into the batch accumulator of this OS thread.
pub fn finish() {
    let (sum, probes, hits, log) = MON.with(|m| {
        let mut m = m.borrow_mut();
        m.active = false;
        if !m.pending33.is_empty() {
            // runner finished (done resolved) right after that swap: count it as observed-after-swap
            m.resolve33(false);
        }
        let nontrivial = m.ticks >= 1 && (m.interleaved_wakes >= 1 || m.interleaved_sends >= 1);
        (
            IterSummary {
                hash: m.hash,
                nontrivial,
                steps: m.seq,
                yields: m.yields,
                ticks: m.ticks,
                wakes: m.wakes.len() as u32,
                items: m.recorded.len() as u32,
            },
            std::mem::take(&mut m.probes),
            std::mem::take(&mut m.yp_hits),
            std::mem::take(&mut m.log),
        )
    });
    ACC.with(|a| {
        let mut a = a.borrow_mut();
        a.iters.push(sum);
        for (k, v) in probes {
            *a.probes.entry(k).or_default() += v;
        }
        for (k, v) in hits {
            *a.yp_hits.entry(k).or_default() += v;
        }
        if !log.is_empty() && (a.keep_all_logs || a.samples.len() < a.want_samples) {
            a.samples.push(log);
        }
    });
}

pub fn render_log(log: &[(u8, u32, u32)]) -> Vec<String> {
    log.iter()
        .map(|(t, c, a)| match *c {
            EV_KNOB | EV_SEND | EV_RECORD | EV_PROBE_FLAG => format!("T{t} {}={a}", code_name(*c)),
            _ => format!("T{t} {}", code_name(*c)),
        })
        .collect()
}

/// Oracle failure: raised as a panic *inside* the shuttle execution so that the schedule of this
/// very execution is the one that gets persisted.
pub fn oracle_fail(class: &str, detail: String) -> ! {
    panic!("E2-ORACLE class={class} :: {detail}");
}
