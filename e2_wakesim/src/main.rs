//! E2 `e2_wakesim` — thread-interleaving simulator for C27 (DESIGN.md §4 E2, §5 C27).
//!
//! shuttle's RandomScheduler / PctScheduler (seeded from VERIF_SEED) run the real
//! `dfir_rs::scheduled::context::{WakeState, Context, Dfir}` with shuttle-managed threads; the
//! `hydro_verif_hooks` yield points are the scheduling points. This file is the batch driver and
//! reproduces the contract of `simcore::runner` (sharding, determinism self-test, replay files,
//! fresh-process confirmation, known findings, evidence, exit codes 0/1/2).

mod mon;
mod scen;

use std::cell::RefCell;
use std::collections::{BTreeMap, BTreeSet};
use std::panic::{AssertUnwindSafe, catch_unwind};
use std::path::{Path, PathBuf};
use std::sync::Mutex;
use std::sync::atomic::{AtomicU64, AtomicUsize, Ordering};
use std::time::Instant;

use serde_json::{Value, json};
use shuttle::scheduler::{PctScheduler, RandomScheduler, ReplayScheduler};
use shuttle::{Config, FailurePersistence, MaxSteps, Runner};
use shuttle_engine::runtime::execution::CurrentSchedule;
use shuttle_engine::scheduler::serialization::serialize_schedule;
use simcore::runner::{Args, known_for, load_findings, parse_args, repo_head, verif_dir};
use simcore::{fnv_str, mix};

const ENGINE: &str = "e2_wakesim";
const PROP: &str = "C27";
const BATCH: u64 = 125;
const STACK: usize = 0x40000;
const PCT_DEPTH: usize = 3;
/// scenario weights (a_run, a_run_available, b_stream), out of 5
const WEIGHTS: [u64; 3] = [2, 1, 2];
const SET_CAP: usize = 4_000_000;
const MAX_FAILURES: usize = 12;

const RULE: &str = "One case = one shuttle execution (schedule) of a scenario: a_run (Dfir::run + stub tick closure vs 1-2 waker \
threads doing 1-2 wake()/wake_by_ref() each), a_run_available (run_available() alone, then an atomic probe tick reads the flag), \
b_stream (dfir_syntax!{source_stream(rx)->for_each} fed by 1-2 sender threads through dfir_rs::util::unbounded_channel). Workload \
knobs are drawn from shuttle::rand, thread switches happen only at the numbered yield points. Distinct = distinct FNV hash of the \
full (thread, yield point / event, argument) sequence of the execution including the knob draws. Non-trivial = at least one tick \
started AND at least one wake store / send completed after the runner began polling and before it exited (i.e. the wake really \
interleaves with the runner protocol).";

const REAL: &[&str] = &[
    "dfir_rs::scheduled::context::WakeState (wake, wake_by_ref)",
    "dfir_rs::scheduled::context::Context::{waker, schedule_subgraph}",
    "dfir_rs::scheduled::context::Dfir::{run, run_available, run_tick, run_tick_sync}",
    "futures::task::AtomicWaker, std::sync::atomic::AtomicBool (real, sequentially consistent under shuttle's one-thread-at-a-time execution)",
    "tokio::task::yield_now (outside a runtime: wakes immediately)",
    "scenario b_stream: dfir_syntax! generated tick closure, source_stream / stream_ready pull, dfir_rs::util::unbounded_channel (tokio mpsc + its AtomicWaker)",
    "shuttle::future::block_on as the executor parking/unparking the runner thread",
];
const STUBS: &[&str] = &[
    "scenario a_*: tick closure (counts ticks, optional schedule_subgraph(true), optional tick_had_work, optional one async suspension)",
    "waker threads / sender threads (shuttle threads with drawn plans)",
    "done future (pure observer of the monitor, never registers a waker)",
];
const ASSUMPTIONS: &[&str] = &[
    "Sampled: shuttle random + PCT(depth 3) schedules; a clean batch is evidence, not proof; nothing is enumerated exhaustively.",
    "Sequentially consistent interleavings only: threads are switched only at the hydro_verif_hooks yield points (between the atomic steps of wake_by_ref / run_tick / run_available / run) and at harness yield points; weak-memory reorderings of the Relaxed flag accesses are not explored.",
    "Code between two yield points (incl. AtomicWaker::register/wake, tokio mpsc send/poll_recv) executes atomically; races inside those library primitives are out of scope.",
    "At most 2 waker/sender threads, at most 2 wakes per waker / 3 items per sender, one Dfir per execution.",
    "A wake is stamped at the instant its can_start_tick store completed (yield point 11); 'a tick after that point' = a tick closure invocation that begins later in shuttle's total order.",
    "The yield hook build (feature hydro_verif_hooks) differs from the production build only by the inserted hook calls.",
];
const REQUIRED_PROBES: &[&str] = &[
    "wake_landed:between_register_and_load",
    "wake_landed:between_swap_and_closure",
    "wake_landed:during_closure",
    "wake_landed:after_last_swap_of_run_available",
    "wake_landed:while_parked",
    "wake_landed:idle_before_register",
    "wake_landed:before_initial_store_false_of_run_available",
    "self_wake_from_tick_closure",
    "run_available_returned_with_flag_left_set",
];

// ---------------------------------------------------------------------------------------------

#[derive(Clone, Copy, Debug, PartialEq, Eq)]
enum Kind {
    Random,
    Pct,
}
impl Kind {
    fn name(self) -> &'static str {
        match self {
            Kind::Random => "random",
            Kind::Pct => "pct",
        }
    }
}

#[derive(Clone, Debug)]
struct Work {
    idx: usize,
    scenario: &'static str,
    f: fn(),
    kind: Kind,
    batch: u64,
    iters: usize,
    seed: u64,
}

#[derive(Clone, Debug)]
struct Failure {
    class: String,
    detail: String,
    schedule: String,
    steps: usize,
    iter_in_batch: usize,
}

struct BatchResult {
    work: Work,
    iters: Vec<mon::IterSummary>,
    probes: BTreeMap<&'static str, u64>,
    yp_hits: BTreeMap<u32, u64>,
    samples: Vec<Vec<(u8, u32, u32)>>,
    failure: Option<Failure>,
}

fn build_work(root: u64, n_random: u64, n_pct: u64) -> Vec<Work> {
    let mut out = vec![];
    for (kind, total) in [(Kind::Random, n_random), (Kind::Pct, n_pct)] {
        for (si, (name, f)) in scen::SCENARIOS.iter().enumerate() {
            let mut left = (total * WEIGHTS[si]).div_ceil(5);
            let mut b = 0u64;
            while left > 0 {
                let it = left.min(BATCH);
                let seed = mix(&[root, fnv_str(ENGINE), fnv_str(name), kind as u64, b]);
                out.push(Work { idx: 0, scenario: name, f: *f, kind, batch: b, iters: it as usize, seed });
                left -= it;
                b += 1;
            }
        }
    }
    // interleave scenarios/kinds so that a truncated prefix (self-test, --hashes) covers all of them
    out.sort_by_key(|w| (w.batch, w.kind as u64, w.scenario));
    for (i, w) in out.iter_mut().enumerate() {
        w.idx = i;
    }
    out
}

fn shuttle_config() -> Config {
    let mut c = Config::new();
    c.stack_size = STACK;
    // The failing schedule is taken from shuttle's CurrentSchedule and written (with shuttle's own
    // serializer, i.e. byte-identical to FailurePersistence::File output) under a name we control.
    c.failure_persistence = FailurePersistence::None;
    c.max_steps = MaxSteps::FailAfter(200_000);
    c.silence_warnings = true;
    c
}

thread_local! {
    static LAST_PANIC: RefCell<Option<(String, String)>> = const { RefCell::new(None) };
}

fn install_panic_hook() {
    std::panic::set_hook(Box::new(|info| {
        let msg = if let Some(s) = info.payload().downcast_ref::<&str>() {
            s.to_string()
        } else if let Some(s) = info.payload().downcast_ref::<String>() {
            s.clone()
        } else {
            "<non-string panic>".to_string()
        };
        let loc = info.location().map(|l| format!("{}:{}", l.file(), l.line())).unwrap_or_default();
        // keep the first panic of an execution (later ones are unwinding noise)
        LAST_PANIC.with(|p| {
            let mut p = p.borrow_mut();
            if p.is_none() {
                *p = Some((msg, loc));
            }
        });
    }));
}

fn short_loc(loc: &str) -> String {
    let f = loc.rsplit('/').next().unwrap_or(loc);
    f.split(':').next().unwrap_or(f).to_string()
}

/// Turn the panic that ended a shuttle execution into a violation class. Uses the monitor state
/// of this OS thread, which still describes the failed execution.
fn classify(scn: &str, msg: &str, loc: &str) -> (String, String) {
    if let Some(rest) = msg.strip_prefix("E2-ORACLE class=") {
        let (class, detail) = rest.split_once(" :: ").unwrap_or((rest, ""));
        return (class.to_string(), detail.to_string());
    }
    if msg.starts_with("deadlock!") {
        let (unc, stamped, planned, sent, rec, wakes) = mon::with(|m| {
            let w: Vec<String> = m
                .wakes
                .iter()
                .filter(|w| w.stamp > m.last_tick_start)
                .map(|w| format!("wake by T{} (flag stored at step {}, runner was: {})", w.task, w.stamp, w.phase))
                .collect();
            (m.uncovered(), m.ext_stamped, m.planned_ext_wakes, m.sent.len(), m.recorded.len(), w)
        });
        return match scn {
            "a_run" if unc > 0 => (
                "a_run/lost_wakeup_runner_parked".into(),
                format!(
                    "runner blocked forever although {unc} wake(s) completed their flag store after the start of the last tick ({stamped}/{planned} external wakes done): {}; {msg}",
                    wakes.join("; ")
                ),
            ),
            "b_stream" if sent > rec => (
                "b_stream/item_never_recorded".into(),
                format!("runner blocked forever with {} of {sent} sent item(s) never recorded by any tick; {msg}", sent - rec),
            ),
            _ => ("HARNESS/deadlock".into(), format!("deadlock without an outstanding wake/item (scenario {scn}): {msg}")),
        };
    }
    if msg.starts_with("exceeded max_steps") {
        return ("HARNESS/step_cap".into(), msg.to_string());
    }
    let in_shuttle = loc.contains("/shuttle-");
    let sut = !in_shuttle && (loc.starts_with("/repo/") || loc.contains(".cargo/registry") || loc.starts_with("/rustc/"));
    if sut {
        (format!("panic/{scn}/{}", short_loc(loc)), format!("panic at {loc}: {msg}"))
    } else {
        (format!("HARNESS/panic/{scn}"), format!("panic at {loc}: {msg}"))
    }
}

enum Sched {
    Search(Kind, u64, usize),
    Replay(String),
}

/// Run shuttle on this OS thread; returns the accumulator and, if the run ended in a panic, the
/// classified failure with the schedule of the failing execution.
fn run_shuttle(scn: &'static str, f: fn(), sched: Sched, want_samples: usize, keep_all_logs: bool) -> (mon::BatchAcc, Option<Failure>) {
    mon::ACC.with(|a| {
        *a.borrow_mut() = mon::BatchAcc { want_samples, keep_all_logs, ..Default::default() };
    });
    LAST_PANIC.with(|p| *p.borrow_mut() = None);
    let cfg = shuttle_config();
    let r = catch_unwind(AssertUnwindSafe(|| match sched {
        Sched::Search(Kind::Random, seed, iters) => Runner::new(RandomScheduler::new_from_seed(seed, iters), cfg).run(f),
        Sched::Search(Kind::Pct, seed, iters) => Runner::new(PctScheduler::new_from_seed(seed, PCT_DEPTH, iters), cfg).run(f),
        Sched::Replay(s) => {
            // allow_incomplete: a schedule recorded on another tree (e.g. before a fix) that no longer
            // fits simply stops instead of tripping shuttle's internal assertions
            let mut rs = ReplayScheduler::new_from_encoded(&s);
            rs.set_allow_incomplete();
            Runner::new(rs, cfg).run(f)
        }
    }));
    let acc = mon::ACC.with(|a| std::mem::take(&mut *a.borrow_mut()));
    let failure = match r {
        Ok(_) => None,
        Err(_) => {
            let (msg, loc) = LAST_PANIC.with(|p| p.borrow_mut().take()).unwrap_or_default();
            let (class, detail) = classify(scn, &msg, &loc);
            let s = CurrentSchedule::get_schedule();
            Some(Failure { class, detail, steps: s.len(), schedule: serialize_schedule(&s), iter_in_batch: acc.iters.len() })
        }
    };
    (acc, failure)
}

/// `cap_failures`: stop handing out batches once MAX_FAILURES batches have failed (search mode). The
/// determinism self-test and `--hashes` run every batch, so that their result does not depend on timing.
fn run_work(work: &[Work], threads: usize, max_wall_s: f64, cap_failures: bool) -> Vec<BatchResult> {
    let next = AtomicUsize::new(0);
    let nfail = AtomicU64::new(0);
    let out: Mutex<Vec<BatchResult>> = Mutex::new(vec![]);
    let t0 = Instant::now();
    std::thread::scope(|s| {
        for _ in 0..threads.max(1) {
            s.spawn(|| {
                loop {
                    let i = next.fetch_add(1, Ordering::Relaxed);
                    if i >= work.len() || (cap_failures && nfail.load(Ordering::Relaxed) >= MAX_FAILURES as u64) {
                        break;
                    }
                    if max_wall_s > 0.0 && t0.elapsed().as_secs_f64() > max_wall_s {
                        break;
                    }
                    let w = &work[i];
                    let want = if w.batch == 0 && w.kind == Kind::Random { 2 } else if w.batch == 0 { 1 } else { 0 };
                    let (acc, failure) = run_shuttle(w.scenario, w.f, Sched::Search(w.kind, w.seed, w.iters), want, false);
                    if failure.is_some() {
                        nfail.fetch_add(1, Ordering::Relaxed);
                    }
                    out.lock().unwrap().push(BatchResult {
                        work: w.clone(),
                        iters: acc.iters,
                        probes: acc.probes,
                        yp_hits: acc.yp_hits,
                        samples: acc.samples,
                        failure,
                    });
                }
            });
        }
    });
    let mut v = out.into_inner().unwrap();
    v.sort_by_key(|b| b.work.idx);
    v
}

fn combined_hash(res: &[BatchResult]) -> u64 {
    let mut acc = 0xcbf2_9ce4_8422_2325u64;
    for b in res {
        for (i, it) in b.iters.iter().enumerate() {
            acc = (acc ^ (b.work.idx as u64).wrapping_mul(1_000_003) ^ (i as u64).wrapping_mul(31) ^ it.hash).wrapping_mul(0x0000_0100_0000_01B3);
        }
        if let Some(f) = &b.failure {
            acc = (acc ^ fnv_str(&f.class) ^ fnv_str(&f.schedule)).wrapping_mul(0x0000_0100_0000_01B3);
        }
    }
    acc
}

// ---------------------------------------------------------------------------------------------
// Replay

struct ReplayOutcome {
    failure: Option<Failure>,
    log: Vec<String>,
}

fn replay_schedule(scn: &'static str, f: fn(), schedule: &str) -> ReplayOutcome {
    let (acc, failure) = run_shuttle(scn, f, Sched::Replay(schedule.to_string()), 1, true);
    let log = if failure.is_some() {
        // the failed execution never reached mon::finish(): its log is still in the monitor
        mon::with(|m| mon::render_log(&m.log))
    } else {
        acc.samples.first().map(|l| mon::render_log(l)).unwrap_or_default()
    };
    ReplayOutcome { failure, log }
}

fn static_scenario(name: &str) -> Option<(&'static str, fn())> {
    scen::SCENARIOS.iter().find(|(n, _)| *n == name).map(|(n, f)| (*n, *f))
}

fn do_replay(path: &Path) -> i32 {
    let s = match std::fs::read_to_string(path) {
        Ok(s) => s,
        Err(e) => {
            eprintln!("HARNESS: cannot read replay {}: {e}", path.display());
            return 2;
        }
    };
    let v: Value = match serde_json::from_str(&s) {
        Ok(v) => v,
        Err(e) => {
            eprintln!("HARNESS: bad replay json {}: {e}", path.display());
            return 2;
        }
    };
    if v["scenario"].as_str() == Some("miri_leg") {
        return replay_miri(path, &v);
    }
    let Some((scn, f)) = static_scenario(v["scenario"].as_str().unwrap_or("")) else {
        eprintln!("HARNESS: unknown scenario in replay file");
        return 2;
    };
    let expect = v["violation"].as_str().unwrap_or("").to_string();
    // the shuttle schedule file (what shuttle::replay_from_file reads) is authoritative if present
    let schedule = v["schedule_file"]
        .as_str()
        .and_then(|p| std::fs::read_to_string(p).ok())
        .or_else(|| v["schedule"].as_str().map(|s| s.to_string()));
    let Some(schedule) = schedule else {
        eprintln!("HARNESS: replay file has no schedule");
        return 2;
    };
    println!("replay property={PROP} scenario={scn} schedule_steps={}", v["steps"]);
    let out = replay_schedule(scn, f, &schedule);
    for l in &out.log {
        println!("{l}");
    }
    match out.failure {
        Some(fl) if fl.class.starts_with("HARNESS/panic") && fl.detail.contains("/shuttle-") && fl.detail.contains("replay.rs") => {
            println!("REPLAY-OK expected_class={expect} (the recorded schedule does not fit this tree any more: {})", fl.detail);
            0
        }
        Some(fl) if fl.class.starts_with("HARNESS/") => {
            eprintln!("HARNESS: {} {}", fl.class, fl.detail);
            2
        }
        Some(fl) => {
            println!("REPLAY-VIOLATION class={} detail={}", fl.class, fl.detail);
            let fs = load_findings();
            if let Some(k) = known_for(&fs, PROP, &fl.class) {
                println!("KNOWN-FINDING: property={PROP} {}", k.what);
                return 0;
            }
            println!("VIOLATION property={PROP} replay={}", path.display());
            1
        }
        None => {
            println!("REPLAY-OK expected_class={expect} (no violation on this tree)");
            0
        }
    }
}

fn write_replay(seed: u64, w: &Work, fl: &Failure, log: &[String]) -> Result<PathBuf, String> {
    let dir = verif_dir().join("replays");
    std::fs::create_dir_all(&dir).map_err(|e| e.to_string())?;
    let stem = format!("{PROP}-{seed}-{}-{}-b{}", w.scenario, w.kind.name(), w.batch);
    let sched_path = dir.join(format!("{stem}.schedule.txt"));
    std::fs::write(&sched_path, &fl.schedule).map_err(|e| e.to_string())?;
    let path = dir.join(format!("{stem}.json"));
    let j = json!({
        "property": PROP, "engine": ENGINE, "scenario": w.scenario, "scheduler": w.kind.name(),
        "seed": seed, "batch": w.batch, "batch_seed": w.seed, "iteration_in_batch": fl.iter_in_batch,
        "repo_head": repo_head(), "violation": fl.class, "detail": fl.detail,
        "steps": fl.steps, "schedule": fl.schedule, "schedule_file": sched_path,
        "how_to_replay": format!("./target/release/e2_wakesim {PROP} --replay <this file>  (== shuttle::replay_from_file(scenario fn, schedule_file) with a {STACK}-byte stack)"),
        "event_log": log,
    });
    std::fs::write(&path, serde_json::to_string_pretty(&j).unwrap()).map_err(|e| e.to_string())?;
    Ok(path)
}

// ---------------------------------------------------------------------------------------------
// Miri leg (optional, thorough tier): /verif/e2_wakesim/miri_leg is a tiny std-thread version of
// scenarios A and B; Miri's scheduler is seeded (deterministic per seed) and it emulates weak memory
// for the Relaxed flag accesses. Per seed: phase 1 without any forced switch, phase 2 with
// std::thread::yield_now() at every dfir_rs yield point. A lost wake-up = "the evaluated program
// deadlocked".

const MIRI_SEEDS: u64 = 64;
const MIRI_PREEMPTION: &str = "0.1";
const MIRI_TIMEOUT_S: u64 = 45 * 60;

fn miri_dir() -> PathBuf {
    verif_dir().join("e2_wakesim").join("miri_leg")
}

/// Runs `cargo +nightly miri run --offline` over the seed range; returns (exit code, combined output).
fn run_miri(lo: u64, hi: u64) -> Result<(Option<i32>, String), String> {
    let dir = miri_dir();
    if !dir.join("Cargo.toml").exists() {
        return Err(format!("{} not found", dir.display()));
    }
    let out_path = PathBuf::from("/var/tmp").join(format!("verif-e2-miri-{}-{lo}.log", std::process::id()));
    let out_file = std::fs::File::create(&out_path).map_err(|e| e.to_string())?;
    let err_file = out_file.try_clone().map_err(|e| e.to_string())?;
    let mut child = std::process::Command::new("cargo")
        .args(["+nightly", "miri", "run", "--offline"])
        .current_dir(&dir)
        .env("MIRIFLAGS", format!("-Zmiri-many-seeds={lo}..{hi} -Zmiri-preemption-rate={MIRI_PREEMPTION}"))
        .env("CARGO_NET_OFFLINE", "true")
        .env_remove("RUSTUP_TOOLCHAIN")
        .env_remove("RUSTFLAGS")
        .stdin(std::process::Stdio::null())
        .stdout(out_file)
        .stderr(err_file)
        .spawn()
        .map_err(|e| format!("cannot spawn cargo miri: {e}"))?;
    // safety net only (a livelocked interpretation would otherwise hang the check); not a decision input
    let t0 = Instant::now();
    let status = loop {
        match child.try_wait() {
            Ok(Some(st)) => break Some(st),
            Ok(None) => {
                if t0.elapsed().as_secs() > MIRI_TIMEOUT_S {
                    let _ = child.kill();
                    let _ = child.wait();
                    break None;
                }
                std::thread::sleep(std::time::Duration::from_millis(300));
            }
            Err(e) => return Err(e.to_string()),
        }
    };
    let text = std::fs::read_to_string(&out_path).unwrap_or_default();
    let _ = std::fs::remove_file(&out_path);
    match status {
        Some(st) => Ok((st.code(), text)),
        None => Err(format!("timed out after {MIRI_TIMEOUT_S}s")),
    }
}

/// (class, detail) of a failing Miri run, or None if the output shows no property-relevant failure.
fn classify_miri(text: &str) -> Option<(String, String)> {
    let first_err = text.lines().find(|l| l.starts_with("error:")).unwrap_or("").to_string();
    if text.contains("the evaluated program deadlocked") {
        let runner_parked = text.contains("std::thread::park") || text.contains("Parker::park");
        let class = if runner_parked { "miri_leg/lost_wakeup_runner_parked" } else { "miri_leg/deadlock" };
        return Some((class.into(), "Miri: the evaluated program deadlocked (runner thread parked forever while data is outstanding)".into()));
    }
    if text.contains("every item exactly once") || text.contains("assertion `left == right` failed") {
        return Some(("miri_leg/oracle_assertion".into(), first_err));
    }
    None
}

fn miri_leg(args: &Args, findings: &[simcore::runner::Finding]) -> (Value, i32) {
    let t0 = Instant::now();
    let lo = (args.seed % 100_000) * MIRI_SEEDS;
    let hi = lo + MIRI_SEEDS;
    let flags = format!("-Zmiri-many-seeds={lo}..{hi} -Zmiri-preemption-rate={MIRI_PREEMPTION}");
    println!("miri leg: cargo +nightly miri run --offline in {} with MIRIFLAGS=\"{flags}\"", miri_dir().display());
    let (code, text) = match run_miri(lo, hi) {
        Ok(x) => x,
        Err(e) => {
            println!("MIRI-LEG: skipped ({e}); the SC-only limitation stays as stated");
            return (json!({"status": "skipped", "reason": e, "flags": flags}), 0);
        }
    };
    let ok = text.matches("MIRI-LEG-OK").count() as u64;
    let wall = t0.elapsed().as_secs_f64();
    if code == Some(0) && ok == MIRI_SEEDS {
        println!("miri leg: {ok}/{MIRI_SEEDS} seeds ok (per seed: scenario A x4 configs + scenario B x2 configs, once without and once with forced switches at the yield points) in {wall:.0}s");
        return (json!({"status": "ok", "seeds": format!("{lo}..{hi}"), "seeds_ok": ok, "flags": flags, "wall_s": wall,
            "per_seed": "scenario A (Dfir::run + Mutex data cell; 1x1, 2x1 by-value, 1x2, 2x2 wakers x wakes) and scenario B (dfir_syntax source_stream; 1x2, 2x2 senders x items) on std threads; phase 1 without forced switches, phase 2 with std::thread::yield_now() at every dfir_rs yield point"}), 0);
    }
    let failing_seed = text.lines().find_map(|l| l.strip_prefix("FAILING SEED: ")).and_then(|s| s.trim().parse::<u64>().ok());
    let (Some(seed), Some((class, detail))) = (failing_seed, classify_miri(&text)) else {
        // build problem, missing component, unrelated diagnostic: not a C27 alarm
        let first = text.lines().find(|l| l.starts_with("error")).unwrap_or("no error line").to_string();
        println!("MIRI-LEG-NOTE: leg did not complete (exit {code:?}, {ok}/{MIRI_SEEDS} ok): {first} — not counted for C27");
        return (json!({"status": "incomplete", "exit": code, "seeds_ok": ok, "first_error": first, "flags": flags, "wall_s": wall}), 0);
    };
    // replay file + fresh-process confirmation
    let dir = verif_dir().join("replays");
    let _ = std::fs::create_dir_all(&dir);
    let path = dir.join(format!("{PROP}-{}-miri-seed{seed}.json", args.seed));
    let tail: Vec<&str> = text.lines().filter(|l| !l.starts_with("Trying seed") && !l.starts_with("MIRI-LEG-OK")).take(80).collect();
    let j = json!({
        "property": PROP, "engine": ENGINE, "scenario": "miri_leg", "seed": args.seed, "miri_seed": seed,
        "miri_flags": format!("-Zmiri-many-seeds={seed}..{} -Zmiri-preemption-rate={MIRI_PREEMPTION}", seed + 1),
        "repo_head": repo_head(), "violation": class, "detail": detail, "miri_output": tail,
        "how_to_replay": "./target/release/e2_wakesim C27 --replay <this file>  (re-runs cargo +nightly miri run with exactly this seed)",
    });
    if std::fs::write(&path, serde_json::to_string_pretty(&j).unwrap()).is_err() {
        eprintln!("HARNESS: cannot write miri replay file");
        return (json!({"status": "error"}), 2);
    }
    let exe = std::env::current_exe().unwrap();
    let out = std::process::Command::new(exe).args([PROP, "--replay", path.to_str().unwrap()]).output();
    let confirmed = matches!(&out, Ok(o) if String::from_utf8_lossy(&o.stdout).contains(&format!("REPLAY-VIOLATION class={class}")));
    if !confirmed {
        eprintln!("HARNESS: miri failure {class} (seed {seed}) did not reproduce in a fresh process");
        return (json!({"status": "unconfirmed", "miri_seed": seed, "class": class}), 2);
    }
    if let Some(k) = known_for(findings, PROP, &class) {
        println!("KNOWN-FINDING: property={PROP} {}", k.what);
        return (json!({"status": "known_finding", "miri_seed": seed, "class": class, "replay": path}), 0);
    }
    println!("violation class={class} miri_seed={seed} : {detail}");
    println!("VIOLATION property={PROP} replay={}", path.display());
    (json!({"status": "violation", "miri_seed": seed, "class": class, "replay": path, "flags": flags, "wall_s": wall}), 1)
}

fn replay_miri(path: &Path, v: &Value) -> i32 {
    let Some(seed) = v["miri_seed"].as_u64() else {
        eprintln!("HARNESS: miri replay file without miri_seed");
        return 2;
    };
    let expect = v["violation"].as_str().unwrap_or("").to_string();
    println!("replay property={PROP} scenario=miri_leg miri_seed={seed}");
    let (code, text) = match run_miri(seed, seed + 1) {
        Ok(x) => x,
        Err(e) => {
            eprintln!("HARNESS: cannot run the miri leg: {e}");
            return 2;
        }
    };
    for l in text.lines().filter(|l| !l.starts_with("   Compiling")).take(60) {
        println!("{l}");
    }
    match classify_miri(&text) {
        Some((class, detail)) => {
            println!("REPLAY-VIOLATION class={class} detail={detail}");
            let fs = load_findings();
            if let Some(k) = known_for(&fs, PROP, &class) {
                println!("KNOWN-FINDING: property={PROP} {}", k.what);
                return 0;
            }
            println!("VIOLATION property={PROP} replay={}", path.display());
            1
        }
        None if code == Some(0) => {
            println!("REPLAY-OK expected_class={expect} (no violation on this tree)");
            0
        }
        None => {
            eprintln!("HARNESS: miri leg failed without a property-relevant diagnostic (exit {code:?})");
            2
        }
    }
}

// ---------------------------------------------------------------------------------------------
// Determinism self-test

fn selftest(args: &Args, n_random: u64, n_pct: u64) -> Result<(u64, u64), String> {
    let work = build_work(args.seed, n_random, n_pct);
    let r1 = run_work(&work, 1, 0.0, false);
    let r16 = run_work(&work, 16, 0.0, false);
    let (h1, h16) = (combined_hash(&r1), combined_hash(&r16));
    if h1 != h16 {
        return Err(format!("in-process determinism mismatch: 1 thread {h1:016x} vs 16 threads {h16:016x}"));
    }
    let exe = std::env::current_exe().map_err(|e| e.to_string())?;
    let out = std::process::Command::new(exe)
        .args([PROP, "--hashes", &(n_random + n_pct).to_string(), "--threads", "4", "--seed", &args.seed.to_string()])
        .env("E2_HASH_RANDOM", n_random.to_string())
        .env("E2_HASH_PCT", n_pct.to_string())
        .output()
        .map_err(|e| e.to_string())?;
    let so = String::from_utf8_lossy(&out.stdout);
    let want = format!("HASH {h1:016x}");
    if !so.contains(&want) {
        return Err(format!("cross-process determinism mismatch: want {want}, child said '{}'", so.trim()));
    }
    Ok((r1.iter().map(|b| b.iters.len() as u64).sum(), h1))
}

// ---------------------------------------------------------------------------------------------
// Check

fn tier_counts(args: &Args) -> (u64, u64) {
    let total = args.runs.unwrap_or(if args.tier == "thorough" { 2_000_000 } else { 250_000 });
    let pct = total / 5;
    (total - pct, pct)
}

fn do_check(args: &Args) -> i32 {
    let t0 = Instant::now();
    let (n_random, n_pct) = tier_counts(args);
    println!(
        "check property={PROP} engine={ENGINE} tier={} VERIF_SEED={} schedules={} (random {n_random} + pct(depth {PCT_DEPTH}) {n_pct}) threads={}",
        args.tier,
        args.seed,
        n_random + n_pct,
        args.threads
    );
    let mut st_runs = 0;
    if !args.no_selftest {
        let (sr, sp) = if args.tier == "thorough" { (5000.min(n_random), 1250.min(n_pct)) } else { (1250.min(n_random), 625.min(n_pct)) };
        match selftest(args, sr, sp) {
            Ok((n, h)) => {
                st_runs = n;
                println!("selftest: {n} schedules x (1 and 16 threads in-process; 4 threads fresh process): identical schedule hashes ({h:016x})");
            }
            Err(e) => {
                eprintln!("HARNESS: determinism self-test failed: {e}");
                return 2;
            }
        }
    }
    let max_wall = std::env::var("VERIF_MAX_S").ok().and_then(|s| s.parse().ok()).unwrap_or(0.0);
    let work = build_work(args.seed, n_random, n_pct);
    let tb = Instant::now();
    let res = run_work(&work, args.threads, max_wall, true);
    let batch_wall = tb.elapsed().as_secs_f64();

    // ---- aggregate
    let mut evaluations = 0u64;
    let mut nontrivial = 0u64;
    let mut steps = 0u64;
    let mut yields = 0u64;
    let mut ticks = 0u64;
    let mut wakes = 0u64;
    let mut items = 0u64;
    let mut distinct: BTreeSet<u64> = BTreeSet::new();
    let mut probes: BTreeMap<&'static str, u64> = BTreeMap::new();
    let mut yp_hits: BTreeMap<u32, u64> = BTreeMap::new();
    let mut per_scn: BTreeMap<String, u64> = BTreeMap::new();
    let mut samples = vec![];
    for b in &res {
        let sf = fnv_str(b.work.scenario);
        for it in &b.iters {
            evaluations += 1;
            steps += it.steps;
            yields += it.yields;
            ticks += it.ticks as u64;
            wakes += it.wakes as u64;
            items += it.items as u64;
            if it.nontrivial {
                nontrivial += 1;
                if distinct.len() < SET_CAP {
                    distinct.insert(it.hash ^ sf);
                }
            }
        }
        *per_scn.entry(format!("{}/{}", b.work.scenario, b.work.kind.name())).or_default() += b.iters.len() as u64;
        for (k, v) in &b.probes {
            *probes.entry(k).or_default() += v;
        }
        for (k, v) in &b.yp_hits {
            *yp_hits.entry(*k).or_default() += v;
        }
        for (i, l) in b.samples.iter().enumerate() {
            if samples.len() < 9 {
                samples.push(json!({
                    "scenario": b.work.scenario, "scheduler": b.work.kind.name(), "batch": b.work.batch, "iteration": i,
                    "events_thread_yieldpoint": mon::render_log(l),
                }));
            }
        }
    }

    // ---- violations: group by class, keep the shortest schedule per class, confirm in a fresh process
    let findings = load_findings();
    let mut by_class: BTreeMap<String, (&Work, &Failure)> = BTreeMap::new();
    for b in &res {
        if let Some(f) = &b.failure {
            let e = by_class.entry(f.class.clone()).or_insert((&b.work, f));
            if f.steps < e.1.steps {
                *e = (&b.work, f);
            }
        }
    }
    let n_failures = res.iter().filter(|b| b.failure.is_some()).count();
    {
        // how hard was each class to hit: failing batches and schedules executed in them before the failure
        let mut stat: BTreeMap<&str, (u64, u64)> = BTreeMap::new();
        for b in &res {
            if let Some(f) = &b.failure {
                let e = stat.entry(f.class.as_str()).or_default();
                e.0 += 1;
                e.1 += f.iter_in_batch as u64 + 1;
            }
        }
        for (c, (n, it)) in &stat {
            println!("failure-rate class={c} failing_batches={n} of {} executed, mean schedules to first failure within a failing batch = {:.1}", res.len(), *it as f64 / *n as f64);
        }
    }
    let mut exit = 0;
    let mut reported = 0u64;
    let mut viol_json = vec![];
    let harness_classes: Vec<String> = by_class.keys().filter(|c| c.starts_with("HARNESS/")).cloned().collect();
    for (class, (w, f)) in by_class.iter().filter(|(c, _)| !c.starts_with("HARNESS/")).take(6) {
        // reproduce in-process from the schedule (also yields the event log of the failing execution)
        let rp = replay_schedule(w.scenario, w.f, &f.schedule);
        let same = rp.failure.as_ref().map(|x| &x.class) == Some(class);
        if !same {
            eprintln!("HARNESS: violation {class} ({} {} batch {}) did not reproduce in-process from its schedule", w.scenario, w.kind.name(), w.batch);
            return 2;
        }
        let path = match write_replay(args.seed, w, f, &rp.log) {
            Ok(p) => p,
            Err(e) => {
                eprintln!("HARNESS: cannot write replay file: {e}");
                return 2;
            }
        };
        let exe = std::env::current_exe().unwrap();
        let out = std::process::Command::new(exe).args([PROP, "--replay", path.to_str().unwrap()]).output();
        let confirmed = match &out {
            Ok(o) => String::from_utf8_lossy(&o.stdout).contains(&format!("REPLAY-VIOLATION class={class}")),
            Err(_) => false,
        };
        if !confirmed {
            eprintln!("HARNESS: violation {class} did not reproduce from {} in a fresh process", path.display());
            return 2;
        }
        if let Some(k) = known_for(&findings, PROP, class) {
            println!("KNOWN-FINDING: property={PROP} {}", k.what);
            viol_json.push(json!({"class": class, "known_finding": true, "replay": path, "detail": f.detail}));
            continue;
        }
        println!(
            "violation class={class} scenario={} scheduler={} batch={} iteration={} schedule_steps={} : {}",
            w.scenario, w.kind.name(), w.batch, f.iter_in_batch, f.steps, f.detail
        );
        println!("VIOLATION property={PROP} replay={}", path.display());
        viol_json.push(json!({"class": class, "known_finding": false, "replay": path, "detail": f.detail}));
        reported += 1;
        exit = 1;
    }

    for class in &harness_classes {
        let (w, f) = &by_class[class];
        eprintln!("HARNESS: {class} {} (scenario {} {} batch {})", f.detail, w.scenario, w.kind.name(), w.batch);
    }
    if exit == 0 && !harness_classes.is_empty() {
        // an execution ended in a way the harness cannot attribute to the property: never an alarm
        return 2;
    }

    // ---- optional Miri leg (thorough tier): weak-memory emulation, real std threads
    let miri = if args.tier == "thorough" && std::env::var("E2_NO_MIRI").is_err() && max_wall == 0.0 {
        let (j, code) = miri_leg(args, &findings);
        if code == 1 {
            reported += 1;
            exit = 1;
        } else if code == 2 && exit == 0 {
            exit = 2;
        }
        j
    } else {
        json!({"status": "not_run", "reason": "thorough tier only (and not with E2_NO_MIRI / VERIF_MAX_S)"})
    };

    let missing: Vec<&str> = REQUIRED_PROBES.iter().copied().filter(|p| probes.get(p).copied().unwrap_or(0) == 0).collect();
    let wall = t0.elapsed().as_secs_f64();
    let per_hour = if batch_wall > 0.0 { evaluations as f64 / batch_wall * 3600.0 } else { 0.0 };
    let yp_named: BTreeMap<String, u64> = yp_hits.iter().map(|(k, v)| (format!("{k:02}:{}", mon::code_name(*k)), *v)).collect();
    let wake_landed: BTreeMap<&str, u64> = probes.iter().filter(|(k, _)| k.starts_with("wake_landed:")).map(|(k, v)| (*k, *v)).collect();
    let mut assumptions: Vec<String> = ASSUMPTIONS.iter().map(|s| s.to_string()).collect();
    match miri["status"].as_str() {
        Some("ok") => assumptions.push(format!(
            "Beyond SC: this run additionally interpreted a std-thread version of scenarios A and B under Miri ({MIRI_SEEDS} scheduler seeds, preemption rate {MIRI_PREEMPTION}, weak-memory emulation; per seed once without and once with forced thread switches at the yield points); that is a small sample, hardware-level reorderings remain uncovered."
        )),
        _ => assumptions.push("The Miri leg (weak-memory emulation) did not run in this tier/run: sequentially consistent interleavings only.".to_string()),
    }
    let ev = json!({
        "property_id": PROP,
        "tier": args.tier,
        "seed": args.seed,
        "level": "exploration",
        "coverage": {
            "evaluations": evaluations,
            "distinct_nontrivial": distinct.len(),
            "distinct_is_lower_bound": distinct.len() >= SET_CAP,
            "nontrivial_runs": nontrivial,
            "rule": RULE,
            "samples": samples,
            "exhaustive": false,
            "schedules_executed": evaluations,
            "schedules_per_scenario_and_scheduler": per_scn,
            "runs_per_hour": per_hour as u64,
            "seeds_per_hour": per_hour as u64,
            "simulated_time": {"unit": "scheduler steps (events in shuttle's total order: yield points passed + monitor events)", "total": steps, "scheduling_points_offered_to_shuttle": yields},
            "ticks_started": ticks,
            "wakes_stamped": wakes,
            "items_recorded": items,
            "yield_points_hit": yp_named,
            "where_wakes_landed": wake_landed,
            "reach_probes": probes,
            "faults_fired": {"external_wake_or_send_interleaved_with_runner": nontrivial},
            "real_components": REAL,
            "stub_components": STUBS,
            "determinism_selftest_runs": st_runs,
            "failing_batches": n_failures,
            "miri_leg": miri,
            "violation_details": viol_json,
            "engine": ENGINE,
            "repo_head": repo_head(),
        },
        "assumptions": assumptions,
        "wall_s": wall,
        "violations": reported,
    });
    let evdir = verif_dir().join("evidence");
    let _ = std::fs::create_dir_all(&evdir);
    if let Err(e) = std::fs::write(evdir.join(format!("{PROP}.json")), serde_json::to_string_pretty(&ev).unwrap()) {
        eprintln!("HARNESS: cannot write evidence: {e}");
        return 2;
    }
    println!(
        "done property={PROP} schedules={evaluations} nontrivial_distinct={} steps={steps} ticks={ticks} wakes={wakes} items={items} wall={wall:.1}s ({:.0} schedules/h) violations={reported}",
        distinct.len(),
        per_hour
    );
    println!("where wakes landed: {wake_landed:?}");
    if exit == 0 && evaluations < n_random + n_pct && max_wall == 0.0 {
        eprintln!("HARNESS: only {evaluations} of {} schedules were executed", n_random + n_pct);
        return 2;
    }
    if exit == 0 && distinct.len() < 2 {
        eprintln!("HARNESS: fewer than 2 distinct non-trivial schedules");
        return 2;
    }
    if exit == 0 && !missing.is_empty() {
        eprintln!("HARNESS: reach probes stuck at zero: {missing:?} — workload no longer reaches what it claims");
        return 2;
    }
    exit
}

fn main() {
    // the seeds come from VERIF_SEED only
    // SAFETY: single-threaded at this point.
    unsafe { std::env::remove_var("SHUTTLE_RANDOM_SEED") };
    install_panic_hook();
    dfir_rs::scheduled::verif_hooks::set_yield_hook(mon::hook);
    let args = parse_args();
    if args.prop != PROP {
        eprintln!("HARNESS: engine {ENGINE} does not serve property '{}'", args.prop);
        std::process::exit(2);
    }
    if let Some(p) = &args.replay {
        std::process::exit(do_replay(p));
    }
    if let Some(n) = args.hashes {
        let nr = std::env::var("E2_HASH_RANDOM").ok().and_then(|s| s.parse().ok()).unwrap_or(n - n / 5);
        let np = std::env::var("E2_HASH_PCT").ok().and_then(|s| s.parse().ok()).unwrap_or(n / 5);
        let work = build_work(args.seed, nr, np);
        let res = run_work(&work, args.threads, 0.0, false);
        println!("HASH {:016x}", combined_hash(&res));
        std::process::exit(0);
    }
    std::process::exit(do_check(&args));
}
