//! Scenarios for C27. Each `fn()` is one shuttle execution body (the main shuttle thread).
//! All workload choices are drawn from `shuttle::rand`, so they are part of the schedule that
//! shuttle records and replays.

use std::future::Future;
use std::pin::Pin;
use std::task::{Context as TaskCx, Poll, Waker};

use dfir_rs::scheduled::context::{Context, Dfir, TickClosure};
use shuttle::rand::Rng;

use crate::mon::{self, hook};

pub const SCENARIOS: &[(&str, fn())] =
    &[("a_run", scen_a_run as fn()), ("a_run_available", scen_a_run_available as fn()), ("b_stream", scen_b_stream as fn())];

fn draw(lo: u32, hi: u32) -> u32 {
    let v = shuttle::rand::thread_rng().gen_range(lo..=hi);
    mon::knob(v);
    v
}

// ---------------------------------------------------------------------------------------------
// Stub tick closure (scenario A)

#[derive(Clone, Copy, Debug, Default)]
struct TickKnobs {
    /// tick number (1-based) in which the closure calls `ctx.schedule_subgraph(true)`; 0 = never
    self_wake_tick: u32,
    /// tick number for which the closure reports `tick_had_work = true`; 0 = never
    work_tick: u32,
    /// tick number in which the closure suspends once (returns `Pending` after waking itself)
    pend_tick: u32,
    /// extra yield points at the end of the closure
    tail_yields: u32,
}

struct StubTick {
    k: TickKnobs,
}

#[derive(Default)]
struct YieldOnce(bool);
impl Future for YieldOnce {
    type Output = ();
    fn poll(mut self: Pin<&mut Self>, cx: &mut TaskCx<'_>) -> Poll<()> {
        if self.0 {
            Poll::Ready(())
        } else {
            self.0 = true;
            cx.waker().wake_by_ref();
            Poll::Pending
        }
    }
}

impl TickClosure for StubTick {
    fn call_tick<'a>(&'a mut self, ctx: &'a mut Context) -> impl Future<Output = bool> + 'a {
        let k = self.k;
        async move {
            if mon::with(|m| m.atomic) {
                // probe tick of scenario a_run_available: observe the flag only
                return false;
            }
            let n = mon::tick_start();
            hook(mon::YP_CLOSURE);
            if k.pend_tick == n {
                YieldOnce::default().await;
                hook(mon::YP_CLOSURE_RESUMED);
            }
            if k.self_wake_tick == n {
                ctx.schedule_subgraph(true);
            }
            for _ in 0..k.tail_yields {
                hook(mon::YP_CLOSURE_TAIL);
            }
            mon::tick_end();
            k.work_tick == n
        }
    }
}

fn draw_tick_knobs() -> TickKnobs {
    TickKnobs {
        self_wake_tick: draw(0, 2),
        work_tick: draw(0, 2),
        pend_tick: draw(0, 2),
        tail_yields: draw(0, 1),
    }
}

// ---------------------------------------------------------------------------------------------
// Waker threads (scenario A)

#[derive(Clone, Copy, Debug)]
struct WakePlan {
    pre_yields: u32,
    by_value: bool,
}

fn draw_waker_plans() -> Vec<Vec<WakePlan>> {
    let n_wakers = draw(1, 2);
    (0..n_wakers)
        .map(|_| {
            let n = draw(1, 2);
            (0..n).map(|_| WakePlan { pre_yields: draw(0, 3), by_value: draw(0, 1) == 1 }).collect()
        })
        .collect()
}

fn waker_thread(waker: Waker, plan: Vec<WakePlan>) {
    for p in plan {
        for _ in 0..p.pre_yields {
            hook(mon::YP_WAKER_IDLE);
        }
        let before = mon::stamps_by_me();
        if p.by_value {
            waker.clone().wake();
        } else {
            waker.wake_by_ref();
        }
        mon::wake_call_returned(before);
    }
}

// ---------------------------------------------------------------------------------------------
// Runner-side future adaptors

/// Marks in the monitor when the runner's future is being polled and when it went to sleep.
struct Instrument<F>(F);
impl<F: Future + Unpin> Future for Instrument<F> {
    type Output = F::Output;
    fn poll(mut self: Pin<&mut Self>, cx: &mut TaskCx<'_>) -> Poll<F::Output> {
        mon::poll_begin();
        let r = Pin::new(&mut self.0).poll(cx);
        mon::poll_end(r.is_ready());
        r
    }
}

/// Resolves once every planned external wake has completed its flag store and every stamped wake
/// (external or from inside the tick closure) has been followed by the start of a tick. It never
/// registers a waker: it is only ever re-polled because the runner future next to it was woken —
/// so a lost wake-up leaves the runner thread blocked for good and shuttle reports the deadlock.
struct DoneA;
impl Future for DoneA {
    type Output = ();
    fn poll(self: Pin<&mut Self>, _cx: &mut TaskCx<'_>) -> Poll<()> {
        let ok = mon::with(|m| m.ext_stamped == m.planned_ext_wakes && m.uncovered() == 0);
        if ok {
            mon::event(mon::EV_DONE_READY, 0);
            Poll::Ready(())
        } else {
            Poll::Pending
        }
    }
}

struct DoneB;
impl Future for DoneB {
    type Output = ();
    fn poll(self: Pin<&mut Self>, _cx: &mut TaskCx<'_>) -> Poll<()> {
        let ok = mon::with(|m| m.recorded.len() as u32 >= m.planned_items);
        if ok {
            mon::event(mon::EV_DONE_READY, 0);
            Poll::Ready(())
        } else {
            Poll::Pending
        }
    }
}

fn join_all<T>(hs: Vec<shuttle::thread::JoinHandle<T>>) {
    for h in hs {
        if let Err(e) = h.join() {
            std::panic::resume_unwind(e);
        }
    }
}

// ---------------------------------------------------------------------------------------------
// Scenario A1: Dfir::run() against 1–2 waker threads

pub fn scen_a_run() {
    mon::begin();
    let tick = draw_tick_knobs();
    let plans = draw_waker_plans();
    let planned: u32 = plans.iter().map(|p| p.len() as u32).sum();
    mon::with(|m| m.planned_ext_wakes = planned);

    let runner = shuttle::thread::spawn(move || {
        mon::runner_begin();
        // Dfir is !Send: built here, on the runner thread; only Wakers cross threads.
        let ctx = Context::default();
        let wakers: Vec<Waker> = plans.iter().map(|_| ctx.waker()).collect();
        let mut dfir = Dfir::new(StubTick { k: tick }, ctx, None, None);
        let hs: Vec<_> = wakers
            .into_iter()
            .zip(plans)
            .map(|(w, p)| shuttle::thread::spawn(move || waker_thread(w, p)))
            .collect();
        {
            let run = Box::pin(dfir.run());
            let fut = futures::future::select(Instrument(run), DoneA);
            let _ = shuttle::future::block_on(fut);
        }
        mon::runner_exit();
        drop(dfir);
        join_all(hs);
    });
    if let Err(e) = runner.join() {
        std::panic::resume_unwind(e);
    }
    // explicit restatement of the oracle over the recorded history
    let (unc, n) = mon::with(|m| (m.uncovered(), m.wakes.len()));
    if unc != 0 {
        mon::oracle_fail("a_run/wake_not_followed_by_tick", format!("{unc} of {n} wakes have no tick start after their flag store"));
    }
    mon::finish();
}

// ---------------------------------------------------------------------------------------------
// Scenario A2: run_available() alone; afterwards an *atomic* probe tick reads the flag

pub fn scen_a_run_available() {
    mon::begin();
    let tick = draw_tick_knobs();
    let plans = draw_waker_plans();
    let planned: u32 = plans.iter().map(|p| p.len() as u32).sum();
    mon::with(|m| m.planned_ext_wakes = planned);

    let runner = shuttle::thread::spawn(move || {
        mon::runner_begin();
        let ctx = Context::default();
        let wakers: Vec<Waker> = plans.iter().map(|_| ctx.waker()).collect();
        let mut dfir = Dfir::new(StubTick { k: tick }, ctx, None, None);
        let hs: Vec<_> = wakers
            .into_iter()
            .zip(plans)
            .map(|(w, p)| shuttle::thread::spawn(move || waker_thread(w, p)))
            .collect();
        let (uncovered, flag) = {
            let fut = Box::pin(async {
                dfir.run_available().await;
                // ---- atomic section: no scheduling point until the flag has been observed ----
                mon::with(|m| m.atomic = true);
                mon::run_available_returned();
                let uncovered = mon::with(|m| m.uncovered());
                // run_tick() returns `had_external || tick_had_work || load`; the stub closure returns
                // false in probe mode, so the result is exactly "can_start_tick was set".
                let flag = dfir.run_tick_sync();
                mon::event(mon::EV_PROBE_FLAG, flag as u32);
                mon::with(|m| m.atomic = false);
                (uncovered, flag)
            });
            shuttle::future::block_on(Instrument(fut))
        };
        mon::runner_exit();
        if uncovered > 0 && !flag {
            mon::oracle_fail(
                "a_run_available/wake_dropped",
                format!("run_available() returned with {uncovered} wake(s) whose flag store completed after the start of the last tick, but can_start_tick is clear"),
            );
        }
        if uncovered > 0 {
            mon::with(|m| *m.probes.entry("run_available_returned_with_flag_left_set").or_default() += 1);
        }
        drop(dfir);
        join_all(hs);
    });
    if let Err(e) = runner.join() {
        std::panic::resume_unwind(e);
    }
    mon::finish();
}

// ---------------------------------------------------------------------------------------------
// Scenario B: real dfir_syntax! program fed through dfir_rs::util::unbounded_channel

fn record(x: u32) {
    let dup = mon::with(|m| {
        m.recorded.push(x);
        !m.recorded_set.insert(x)
    });
    mon::event(mon::EV_RECORD, x);
    if dup {
        mon::oracle_fail("b_stream/item_recorded_twice", format!("item {x} was recorded twice"));
    }
    hook(mon::YP_FOR_EACH);
}

fn sender_thread(tx: dfir_rs::tokio::sync::mpsc::UnboundedSender<u32>, items: Vec<(u32, u32)>) {
    for (pre, item) in items {
        for _ in 0..pre {
            hook(mon::YP_SENDER_IDLE);
        }
        mon::with(|m| {
            m.sent.push(item);
            if m.runner_started && !m.runner_exited {
                m.interleaved_sends += 1;
            }
        });
        mon::event(mon::EV_SEND, item);
        // send = push + (if the receiver registered the tick waker) WakeState::wake_by_ref, which
        // contains yield points 10/11/12
        if tx.send(item).is_err() {
            mon::oracle_fail("HARNESS/send_failed", format!("receiver gone while sending {item}"));
        }
        hook(mon::YP_SENDER_SENT);
    }
}

pub fn scen_b_stream() {
    mon::begin();
    let n_senders = draw(1, 2);
    let mut next = 1u32;
    let plans: Vec<Vec<(u32, u32)>> = (0..n_senders)
        .map(|_| {
            let n = draw(1, 3);
            (0..n)
                .map(|_| {
                    let it = next;
                    next += 1;
                    (draw(0, 3), it)
                })
                .collect()
        })
        .collect();
    let planned: u32 = plans.iter().map(|p| p.len() as u32).sum();
    mon::with(|m| m.planned_items = planned);

    let runner = shuttle::thread::spawn(move || {
        mon::runner_begin();
        let (tx, rx) = dfir_rs::util::unbounded_channel::<u32>();
        let mut df = dfir_rs::dfir_syntax! {
            source_stream(rx) -> for_each(|x: u32| record(x));
        };
        let hs: Vec<_> = plans
            .into_iter()
            .map(|p| {
                let tx = tx.clone();
                shuttle::thread::spawn(move || sender_thread(tx, p))
            })
            .collect();
        drop(tx);
        {
            let run = Box::pin(df.run());
            let fut = futures::future::select(Instrument(run), DoneB);
            let _ = shuttle::future::block_on(fut);
        }
        mon::runner_exit();
        let ticks = df.current_tick().0 as u32;
        mon::with(|m| m.ticks = ticks);
        drop(df);
        join_all(hs);
    });
    if let Err(e) = runner.join() {
        std::panic::resume_unwind(e);
    }
    // oracle over the history: every item sent was recorded exactly once, nothing else was recorded
    let (sent, rec) = mon::with(|m| {
        let mut s = m.sent.clone();
        s.sort_unstable();
        let mut r = m.recorded.clone();
        r.sort_unstable();
        (s, r)
    });
    if sent != rec {
        let class = if rec.len() < sent.len() { "b_stream/item_never_recorded" } else { "b_stream/recorded_differs_from_sent" };
        mon::oracle_fail(class, format!("sent {sent:?} recorded {rec:?}"));
    }
    mon::finish();
}
