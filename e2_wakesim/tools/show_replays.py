#!/usr/bin/env python3
"""Print a short summary (class, detail, size, event log) of every replay JSON in a directory."""
import json, sys, glob, os
d = sys.argv[1] if len(sys.argv) > 1 else "replays"
for f in sorted(glob.glob(os.path.join(d, "C27-*.json"))):
    j = json.load(open(f))
    print("---", f)
    print(j.get("violation"))
    print(j.get("detail"))
    print(j.get("steps"), "schedule steps; iteration", j.get("iteration_in_batch"), "of batch", j.get("batch"),
          j.get("scheduler"), "miri_seed", j.get("miri_seed"))
    print("\n".join(j.get("event_log", j.get("miri_output", []))))
