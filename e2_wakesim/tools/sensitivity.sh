#!/bin/bash
# Runs the C27 check against each mutant patch in /verif/sensitivity/C27 through tools/mutant_run.sh.
# The scratch copy's target dir is pre-seeded from this engine's target dir (registry crates are reused,
# everything under the patched repo copy is rebuilt). Output: /var/tmp/verif-scratch-e2-sens/<mutN>[-thorough].log
# Usage: [TIER=quick|thorough] tools/sensitivity.sh [mutant numbers...]   (default: 1 2 3 4 5 6)
# TIER=thorough also runs the Miri leg (its target dir is pre-seeded too).
set -u
OUT=/var/tmp/verif-scratch-e2-sens; mkdir -p "$OUT"
MUTS="${*:-1 2 3 4 5 6}"
TIER="${TIER:-quick}"
SUF=""; [ "$TIER" = thorough ] && SUF="-thorough"
for i in $MUTS; do
  KEEP=0 /verif/tools/mutant_run.sh "e2-c27-mut$i$SUF" "/verif/sensitivity/C27/mut$i.diff" \
    bash -c 'cp -a /verif/e2_wakesim/target e2_wakesim/target 2>/dev/null
             [ "$0" = thorough ] && cp -a /verif/e2_wakesim/target-miri e2_wakesim/target-miri 2>/dev/null
             ./e2_wakesim/check_c27.sh --tier "$0"; rc=$?
             echo "--- replay files:"; ls replays
             python3 e2_wakesim/tools/show_replays.py replays
             exit $rc' "$TIER" > "$OUT/mut$i$SUF.log" 2>&1
  echo "mut$i$SUF exit=$? ($(grep -c '^VIOLATION' "$OUT/mut$i$SUF.log") VIOLATION lines)"
done
