#!/bin/bash
# Runs the C27 quick tier against each mutant patch in /verif/sensitivity/C27 through tools/mutant_run.sh.
# The scratch copy's target dir is pre-seeded from this engine's target dir (registry crates are reused,
# everything under the patched repo copy is rebuilt). Output: /var/tmp/verif-scratch-e2-sens/<mutN>.log
# Usage: tools/sensitivity.sh [mutant numbers...]   (default: 1 2 3 4 5)
set -u
OUT=/var/tmp/verif-scratch-e2-sens; mkdir -p "$OUT"
MUTS="${*:-1 2 3 4 5}"
for i in $MUTS; do
  KEEP=0 /verif/tools/mutant_run.sh "e2-c27-mut$i" "/verif/sensitivity/C27/mut$i.diff" \
    bash -c 'cp -a /verif/e2_wakesim/target e2_wakesim/target 2>/dev/null; ./e2_wakesim/check_c27.sh --tier quick; rc=$?; echo "--- replay files:"; ls replays; for f in replays/*.json; do [ -f "$f" ] && { echo "--- $f"; python3 -c "import json,sys; j=json.load(open(sys.argv[1])); print(j[\"violation\"]); print(j[\"detail\"]); print(j[\"steps\"], \"steps; iteration\", j[\"iteration_in_batch\"], \"of batch\", j[\"batch\"], j[\"scheduler\"]); print(\"\\n\".join(j[\"event_log\"]))" "$f"; }; done; exit $rc' \
    > "$OUT/mut$i.log" 2>&1
  echo "mut$i exit=$? ($(grep -c '^VIOLATION' "$OUT/mut$i.log") VIOLATION lines)"
done
