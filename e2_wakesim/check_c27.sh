#!/bin/bash
# Build (offline, cached) and run the C27 check. Usage: e2_wakesim/check_c27.sh [--tier quick|thorough] [--replay f] ...
# exit 0 = held, 1 = reproduced violation, 2 = harness/build error.
set -u
cd "$(dirname "$0")"
export CARGO_NET_OFFLINE=true
log="$(mktemp /var/tmp/verif-build-e2-XXXXXX.log)"
if ! cargo build --release --offline >"$log" 2>&1; then
  echo "HARNESS: build of e2_wakesim failed (harness/build error, not a violation):" >&2
  tail -40 "$log" >&2; rm -f "$log"; exit 2
fi
rm -f "$log"
exec ./target/release/e2_wakesim C27 "$@"
