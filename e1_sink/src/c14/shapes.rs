//! The catalogue of monomorphic sink pipelines (DESIGN.md Appendix B, "Sinks"): every sinktools
//! adaptor alone, and hand-picked compositions that put a buffering adaptor (`flat_map`,
//! `flatten`, the lazy sinks) over and under the others. Every closure is a function of the
//! fields of the input record, so the reference (`expect`) is a few lines of std iterator code.

use std::collections::HashMap;
use std::rc::Rc;

use futures::SinkExt;
use sinktools::lazy::{LazySink, LazySource};
use sinktools::lazy_sink_source::LazySinkSource;
use sinktools::{SinkBuild, SinkBuilder, ToSinkBuild};

use super::stubs::*;
use super::{Built, Gen, Shape};

impl ItemId for Vec<u32> {
    fn item_id(&self) -> u32 {
        self.first().copied().unwrap_or(0)
    }
}

fn fan_out(r: &Rec) -> Vec<u32> {
    (0..r.fan as u32).map(|j| r.id * 8 + j).collect()
}
fn ids(rs: &[Rec]) -> Vec<u32> {
    rs.iter().map(|r| r.id).collect()
}
fn fans(rs: &[Rec]) -> Vec<u32> {
    rs.iter().flat_map(fan_out).collect()
}
fn kept(rs: &[Rec]) -> Vec<u32> {
    rs.iter().filter(|r| r.keep).map(|r| r.id).collect()
}
fn by_key(n: usize, it: impl Iterator<Item = (usize, u32)>) -> Vec<Vec<u32>> {
    let mut v = vec![vec![]; n];
    for (k, x) in it {
        v[k].push(x);
    }
    v
}
fn sink_map(w: &Rc<World>, n: usize) -> HashMap<u32, SimSink<u32>> {
    (0..n).map(|k| (k as u32, w.sink::<u32>(k))).collect()
}
/// A `LazySink` init function + future that yields `make(world)`.
fn lazy_init<T: Unpin + 'static>(w: &Rc<World>, g: &Gen, slot: usize, make: impl FnOnce(&Rc<World>) -> T + 'static) -> impl FnOnce() -> SimFuture<T> + 'static {
    let (w, sc, fail) = (w.clone(), g.fut_script[slot].clone(), g.fut_fail[slot]);
    move || {
        w.init_called(slot);
        let payload = make(&w);
        w.future(slot, sc, fail, payload)
    }
}

// ---------------------------------------------------------------------------------------------
// every adaptor alone

pub struct Map;
impl Shape for Map {
    const NAME: &'static str = "map";
    type In = Rec;
    fn conv(r: &Rec, _: &Gen) -> Rec {
        *r
    }
    fn expect(rs: &[Rec], _: &Gen) -> Vec<Vec<u32>> {
        vec![rs.iter().map(|r| r.id * 2 + 1).collect()]
    }
    fn build(w: &Rc<World>, _: &Gen, _: Vec<Rec>) -> Built<Rec> {
        Built::Sink(Box::pin(sinktools::map(|r: Rec| r.id * 2 + 1, w.sink::<u32>(0))))
    }
}

pub struct Filter;
impl Shape for Filter {
    const NAME: &'static str = "filter";
    type In = Rec;
    fn conv(r: &Rec, _: &Gen) -> Rec {
        *r
    }
    fn expect(rs: &[Rec], _: &Gen) -> Vec<Vec<u32>> {
        vec![kept(rs)]
    }
    fn build(w: &Rc<World>, _: &Gen, _: Vec<Rec>) -> Built<Rec> {
        Built::Sink(Box::pin(sinktools::filter(|r: &Rec| r.keep, w.sink::<Rec>(0))))
    }
}

pub struct FilterMap;
impl Shape for FilterMap {
    const NAME: &'static str = "filter_map";
    type In = Rec;
    fn conv(r: &Rec, _: &Gen) -> Rec {
        *r
    }
    fn expect(rs: &[Rec], _: &Gen) -> Vec<Vec<u32>> {
        vec![kept(rs).into_iter().map(|x| x + 1000).collect()]
    }
    fn build(w: &Rc<World>, _: &Gen, _: Vec<Rec>) -> Built<Rec> {
        Built::Sink(Box::pin(sinktools::filter_map(|r: Rec| r.keep.then_some(r.id + 1000), w.sink::<u32>(0))))
    }
}

pub struct FlatMap;
impl Shape for FlatMap {
    const NAME: &'static str = "flat_map";
    type In = Rec;
    fn conv(r: &Rec, _: &Gen) -> Rec {
        *r
    }
    fn expect(rs: &[Rec], _: &Gen) -> Vec<Vec<u32>> {
        vec![fans(rs)]
    }
    fn build(w: &Rc<World>, _: &Gen, _: Vec<Rec>) -> Built<Rec> {
        Built::Sink(Box::pin(sinktools::flat_map(|r: Rec| fan_out(&r), w.sink::<u32>(0))))
    }
}

pub struct Flatten;
impl Shape for Flatten {
    const NAME: &'static str = "flatten";
    type In = Vec<u32>;
    fn conv(r: &Rec, _: &Gen) -> Vec<u32> {
        fan_out(r)
    }
    fn expect(rs: &[Rec], _: &Gen) -> Vec<Vec<u32>> {
        vec![fans(rs)]
    }
    fn build(w: &Rc<World>, _: &Gen, _: Vec<Vec<u32>>) -> Built<Vec<u32>> {
        Built::Sink(Box::pin(sinktools::flatten::<Vec<u32>, _>(w.sink::<u32>(0))))
    }
}

pub struct Inspect;
impl Shape for Inspect {
    const NAME: &'static str = "inspect";
    type In = Rec;
    fn n_closures(_: &Gen) -> usize {
        1
    }
    fn conv(r: &Rec, _: &Gen) -> Rec {
        *r
    }
    fn expect(rs: &[Rec], _: &Gen) -> Vec<Vec<u32>> {
        vec![ids(rs), ids(rs)]
    }
    fn build(w: &Rc<World>, _: &Gen, _: Vec<Rec>) -> Built<Rec> {
        let mut log = w.closure(1);
        Built::Sink(Box::pin(sinktools::inspect(move |r: &Rec| log(r.id), w.sink::<Rec>(0))))
    }
}

pub struct Unzip;
impl Shape for Unzip {
    const NAME: &'static str = "unzip";
    type In = (u32, u32);
    fn n_sinks(_: &Gen) -> usize {
        2
    }
    fn conv(r: &Rec, _: &Gen) -> (u32, u32) {
        (r.id, r.id + 1000)
    }
    fn expect(rs: &[Rec], _: &Gen) -> Vec<Vec<u32>> {
        vec![ids(rs), ids(rs).into_iter().map(|x| x + 1000).collect()]
    }
    fn build(w: &Rc<World>, _: &Gen, _: Vec<(u32, u32)>) -> Built<(u32, u32)> {
        Built::Sink(Box::pin(sinktools::unzip(w.sink::<u32>(0), w.sink::<u32>(1))))
    }
}

pub struct ForEach;
impl Shape for ForEach {
    const NAME: &'static str = "for_each";
    type In = u32;
    fn n_sinks(_: &Gen) -> usize {
        0
    }
    fn n_closures(_: &Gen) -> usize {
        1
    }
    fn conv(r: &Rec, _: &Gen) -> u32 {
        r.id
    }
    fn expect(rs: &[Rec], _: &Gen) -> Vec<Vec<u32>> {
        vec![ids(rs)]
    }
    fn build(w: &Rc<World>, _: &Gen, _: Vec<u32>) -> Built<u32> {
        Built::Sink(Box::pin(sinktools::for_each(w.closure(0)).sink_err_into::<SinkErr>()))
    }
}

pub struct TryForEach;
impl Shape for TryForEach {
    const NAME: &'static str = "try_for_each";
    type In = u32;
    fn n_sinks(_: &Gen) -> usize {
        0
    }
    fn n_closures(_: &Gen) -> usize {
        1
    }
    fn conv(r: &Rec, _: &Gen) -> u32 {
        r.id
    }
    fn expect(rs: &[Rec], _: &Gen) -> Vec<Vec<u32>> {
        vec![ids(rs)]
    }
    fn build(w: &Rc<World>, _: &Gen, _: Vec<u32>) -> Built<u32> {
        Built::Sink(Box::pin(sinktools::try_for_each(w.try_closure(0))))
    }
}

pub struct SendIter;
impl Shape for SendIter {
    const NAME: &'static str = "send_iter";
    type In = u32;
    fn conv(r: &Rec, _: &Gen) -> u32 {
        r.id
    }
    fn expect(rs: &[Rec], _: &Gen) -> Vec<Vec<u32>> {
        vec![ids(rs)]
    }
    fn build(w: &Rc<World>, _: &Gen, inputs: Vec<u32>) -> Built<u32> {
        Built::Fut(Box::pin(sinktools::send_iter(inputs, w.sink::<u32>(0))))
    }
}

pub struct SendStream;
impl Shape for SendStream {
    const NAME: &'static str = "send_stream";
    const STREAM: bool = true;
    type In = u32;
    fn conv(r: &Rec, _: &Gen) -> u32 {
        r.id
    }
    fn expect(rs: &[Rec], _: &Gen) -> Vec<Vec<u32>> {
        vec![ids(rs)]
    }
    fn build(w: &Rc<World>, g: &Gen, inputs: Vec<u32>) -> Built<u32> {
        Built::Fut(Box::pin(sinktools::send_stream(w.stream(inputs, g.stream_script.clone()), w.sink::<u32>(0))))
    }
}

pub struct DemuxMap;
impl Shape for DemuxMap {
    const NAME: &'static str = "demux_map";
    const HASH_ORDER: bool = true;
    type In = (u32, u32);
    fn n_sinks(g: &Gen) -> usize {
        g.n
    }
    fn conv(r: &Rec, _: &Gen) -> (u32, u32) {
        (r.key as u32, r.id)
    }
    fn expect(rs: &[Rec], g: &Gen) -> Vec<Vec<u32>> {
        by_key(g.n, rs.iter().map(|r| (r.key as usize, r.id)))
    }
    fn build(w: &Rc<World>, g: &Gen, _: Vec<(u32, u32)>) -> Built<(u32, u32)> {
        Built::Sink(Box::pin(sinktools::demux_map(sink_map(w, g.n))))
    }
}

pub struct DemuxMapLazy;
impl Shape for DemuxMapLazy {
    const NAME: &'static str = "demux_map_lazy";
    const HASH_ORDER: bool = true;
    type In = (u32, u32);
    fn n_sinks(g: &Gen) -> usize {
        g.n
    }
    fn conv(r: &Rec, _: &Gen) -> (u32, u32) {
        (r.key as u32, r.id)
    }
    fn expect(rs: &[Rec], g: &Gen) -> Vec<Vec<u32>> {
        by_key(g.n, rs.iter().map(|r| (r.key as usize, r.id)))
    }
    fn build(w: &Rc<World>, _: &Gen, _: Vec<(u32, u32)>) -> Built<(u32, u32)> {
        let w = w.clone();
        Built::Sink(Box::pin(sinktools::demux_map_lazy(move |k: &u32| w.create_lazily::<u32>(*k as usize))))
    }
}

pub struct DemuxVar;
impl Shape for DemuxVar {
    const NAME: &'static str = "demux_var";
    type In = (usize, u32);
    fn n_sinks(_: &Gen) -> usize {
        3
    }
    fn conv(r: &Rec, _: &Gen) -> (usize, u32) {
        (r.key as usize, r.id)
    }
    fn expect(rs: &[Rec], _: &Gen) -> Vec<Vec<u32>> {
        by_key(3, rs.iter().map(|r| (r.key as usize, r.id)))
    }
    fn build(w: &Rc<World>, _: &Gen, _: Vec<(usize, u32)>) -> Built<(usize, u32)> {
        Built::Sink(Box::pin(sinktools::demux_var::<_, u32, SinkErr>((w.sink::<u32>(0), (w.sink::<u32>(1), (w.sink::<u32>(2), ()))))))
    }
}

pub struct Fanout;
impl Shape for Fanout {
    const NAME: &'static str = "fanout";
    type In = Rec;
    fn n_sinks(_: &Gen) -> usize {
        2
    }
    fn conv(r: &Rec, _: &Gen) -> Rec {
        *r
    }
    fn expect(rs: &[Rec], _: &Gen) -> Vec<Vec<u32>> {
        vec![ids(rs), ids(rs)]
    }
    fn build(w: &Rc<World>, _: &Gen, _: Vec<Rec>) -> Built<Rec> {
        Built::Sink(Box::pin(SinkBuilder::<Rec>::new().map(|r: Rec| r.id).fanout(w.sink::<u32>(0), w.sink::<u32>(1))))
    }
}

pub struct LazySinkS;
impl Shape for LazySinkS {
    const NAME: &'static str = "lazy_sink";
    const N_FUT: usize = 1;
    type In = u32;
    fn conv(r: &Rec, _: &Gen) -> u32 {
        r.id
    }
    fn expect(rs: &[Rec], _: &Gen) -> Vec<Vec<u32>> {
        vec![ids(rs)]
    }
    fn build(w: &Rc<World>, g: &Gen, _: Vec<u32>) -> Built<u32> {
        Built::Sink(Box::pin(LazySink::<_, _, _, u32>::new(lazy_init(w, g, 0, |w| w.sink::<u32>(0)))))
    }
}

pub struct LazySourceS;
impl Shape for LazySourceS {
    const NAME: &'static str = "lazy_source";
    const N_FUT: usize = 1;
    const STREAM: bool = true;
    type In = u32;
    fn n_sinks(_: &Gen) -> usize {
        0
    }
    fn conv(r: &Rec, _: &Gen) -> u32 {
        r.id
    }
    fn expect(_: &[Rec], _: &Gen) -> Vec<Vec<u32>> {
        vec![]
    }
    fn build(w: &Rc<World>, g: &Gen, _: Vec<u32>) -> Built<u32> {
        let (items, sc) = (g.stream_items.clone(), g.stream_script.clone());
        Built::Source(Box::pin(LazySource::new(lazy_init(w, g, 0, move |w| w.stream(items, sc)))))
    }
}

pub struct LazySinkSourceS;
impl Shape for LazySinkSourceS {
    const NAME: &'static str = "lazy_sink_source";
    const N_FUT: usize = 1;
    const STREAM: bool = true;
    const CATCH_SEND_PANIC: Option<&'static str> = Some(CLASS_LSS_PANIC);
    type In = u32;
    fn conv(r: &Rec, _: &Gen) -> u32 {
        r.id
    }
    fn expect(rs: &[Rec], _: &Gen) -> Vec<Vec<u32>> {
        vec![ids(rs)]
    }
    fn build(w: &Rc<World>, g: &Gen, _: Vec<u32>) -> Built<u32> {
        let st = w.stream(g.stream_items.clone(), g.stream_script.clone());
        let fut = w.future(0, g.fut_script[0].clone(), g.fut_fail[0], (st, w.lss_sink::<u32>(0)));
        let (si, so) = LazySinkSource::<_, SimStream<u32>, SimSink<u32>, u32, SinkErr>::new(fut).split();
        Built::Both(Box::pin(si), Box::pin(so))
    }
}

// ---------------------------------------------------------------------------------------------
// compositions

/// builder chain: filter -> flat_map -> map -> sink
pub struct ChainFilterFlatMapMap;
impl Shape for ChainFilterFlatMapMap {
    const NAME: &'static str = "filter+flat_map+map";
    type In = Rec;
    fn conv(r: &Rec, _: &Gen) -> Rec {
        *r
    }
    fn expect(rs: &[Rec], _: &Gen) -> Vec<Vec<u32>> {
        vec![rs.iter().filter(|r| r.keep).flat_map(fan_out).map(|x| x + 5000).collect()]
    }
    fn build(w: &Rc<World>, _: &Gen, _: Vec<Rec>) -> Built<Rec> {
        Built::Sink(Box::pin(
            SinkBuilder::<Rec>::new().filter(|r: &Rec| r.keep).flat_map(|r: Rec| fan_out(&r)).map(|x: u32| x + 5000).send_to(w.sink::<u32>(0)),
        ))
    }
}

/// flat_map over demux_var: the buffered sub-items go to different sinks
pub struct FlatMapDemuxVar;
impl Shape for FlatMapDemuxVar {
    const NAME: &'static str = "flat_map+demux_var";
    type In = Rec;
    fn n_sinks(_: &Gen) -> usize {
        3
    }
    fn conv(r: &Rec, _: &Gen) -> Rec {
        *r
    }
    fn expect(rs: &[Rec], _: &Gen) -> Vec<Vec<u32>> {
        by_key(3, fans(rs).into_iter().map(|x| ((x % 3) as usize, x)))
    }
    fn build(w: &Rc<World>, _: &Gen, _: Vec<Rec>) -> Built<Rec> {
        Built::Sink(Box::pin(
            SinkBuilder::<Rec>::new()
                .flat_map(|r: Rec| fan_out(&r).into_iter().map(|x| ((x % 3) as usize, x)).collect::<Vec<_>>())
                .demux_var::<_, u32, SinkErr>((w.sink::<u32>(0), (w.sink::<u32>(1), (w.sink::<u32>(2), ())))),
        ))
    }
}

pub struct FlattenUnzip;
impl Shape for FlattenUnzip {
    const NAME: &'static str = "flatten+unzip";
    type In = Vec<(u32, u32)>;
    fn n_sinks(_: &Gen) -> usize {
        2
    }
    fn conv(r: &Rec, _: &Gen) -> Vec<(u32, u32)> {
        fan_out(r).into_iter().map(|x| (x, x + 1000)).collect()
    }
    fn expect(rs: &[Rec], _: &Gen) -> Vec<Vec<u32>> {
        vec![fans(rs), fans(rs).into_iter().map(|x| x + 1000).collect()]
    }
    fn build(w: &Rc<World>, _: &Gen, _: Vec<Vec<(u32, u32)>>) -> Built<Vec<(u32, u32)>> {
        Built::Sink(Box::pin(SinkBuilder::<Vec<(u32, u32)>>::new().flatten::<Vec<(u32, u32)>>().unzip(w.sink::<u32>(0), w.sink::<u32>(1))))
    }
}

/// flat_map whose downstream is a lazy sink
pub struct FlatMapLazySink;
impl Shape for FlatMapLazySink {
    const NAME: &'static str = "flat_map+lazy_sink";
    const N_FUT: usize = 1;
    type In = Rec;
    fn conv(r: &Rec, _: &Gen) -> Rec {
        *r
    }
    fn expect(rs: &[Rec], _: &Gen) -> Vec<Vec<u32>> {
        vec![fans(rs)]
    }
    fn build(w: &Rc<World>, g: &Gen, _: Vec<Rec>) -> Built<Rec> {
        Built::Sink(Box::pin(sinktools::flat_map(|r: Rec| fan_out(&r), LazySink::<_, _, _, u32>::new(lazy_init(w, g, 0, |w| w.sink::<u32>(0))))))
    }
}

/// lazy sink whose lazily created sink is a flat_map
pub struct LazySinkFlatMap;
impl Shape for LazySinkFlatMap {
    const NAME: &'static str = "lazy_sink+flat_map";
    const N_FUT: usize = 1;
    type In = Rec;
    fn conv(r: &Rec, _: &Gen) -> Rec {
        *r
    }
    fn expect(rs: &[Rec], _: &Gen) -> Vec<Vec<u32>> {
        vec![fans(rs)]
    }
    fn build(w: &Rc<World>, g: &Gen, _: Vec<Rec>) -> Built<Rec> {
        Built::Sink(Box::pin(LazySink::<_, _, _, Rec>::new(lazy_init(w, g, 0, |w| sinktools::flat_map(|r: Rec| fan_out(&r), w.sink::<u32>(0))))))
    }
}

/// SendIter built through the builder, filter_map, into a HashMap demux
pub struct SendIterFilterMapDemuxMap;
impl Shape for SendIterFilterMapDemuxMap {
    const NAME: &'static str = "send_iter+filter_map+demux_map";
    const HASH_ORDER: bool = true;
    type In = Rec;
    fn n_sinks(g: &Gen) -> usize {
        g.n
    }
    fn conv(r: &Rec, _: &Gen) -> Rec {
        *r
    }
    fn expect(rs: &[Rec], g: &Gen) -> Vec<Vec<u32>> {
        by_key(g.n, rs.iter().filter(|r| r.keep).map(|r| (r.key as usize, r.id)))
    }
    fn build(w: &Rc<World>, g: &Gen, inputs: Vec<Rec>) -> Built<Rec> {
        Built::Fut(Box::pin(
            inputs.into_iter().iter_to_sink_build().filter_map(|r: Rec| r.keep.then_some((r.key as u32, r.id))).demux_map(sink_map(w, g.n)),
        ))
    }
}

/// SendStream built through the builder, flatten
pub struct SendStreamFlatten;
impl Shape for SendStreamFlatten {
    const NAME: &'static str = "send_stream+flatten";
    const STREAM: bool = true;
    type In = Vec<u32>;
    fn conv(r: &Rec, _: &Gen) -> Vec<u32> {
        fan_out(r)
    }
    fn expect(rs: &[Rec], _: &Gen) -> Vec<Vec<u32>> {
        vec![fans(rs)]
    }
    fn build(w: &Rc<World>, g: &Gen, inputs: Vec<Vec<u32>>) -> Built<Vec<u32>> {
        Built::Fut(Box::pin(w.stream(inputs, g.stream_script.clone()).stream_to_sink_build().flatten::<Vec<u32>>().send_to(w.sink::<u32>(0))))
    }
}

/// demux_map_lazy whose lazily created sinks are flat_maps (they buffer the first item)
pub struct DemuxMapLazyFlatMap;
impl Shape for DemuxMapLazyFlatMap {
    const NAME: &'static str = "demux_map_lazy+flat_map";
    const HASH_ORDER: bool = true;
    const NO_ERR_CFG: bool = true;
    type In = (u32, Rec);
    fn n_sinks(g: &Gen) -> usize {
        g.n
    }
    fn conv(r: &Rec, _: &Gen) -> (u32, Rec) {
        (r.key as u32, *r)
    }
    fn expect(rs: &[Rec], g: &Gen) -> Vec<Vec<u32>> {
        by_key(g.n, rs.iter().flat_map(|r| fan_out(r).into_iter().map(|x| (r.key as usize, x))))
    }
    fn build(w: &Rc<World>, _: &Gen, _: Vec<(u32, Rec)>) -> Built<(u32, Rec)> {
        let w = w.clone();
        Built::Sink(Box::pin(sinktools::demux_map_lazy(move |k: &u32| sinktools::flat_map(|r: Rec| fan_out(&r), w.create_lazily::<u32>(*k as usize)))))
    }
}

pub struct UnzipFlatMapFilter;
impl Shape for UnzipFlatMapFilter {
    const NAME: &'static str = "unzip+flat_map+filter";
    type In = (Rec, Rec);
    fn n_sinks(_: &Gen) -> usize {
        2
    }
    fn conv(r: &Rec, _: &Gen) -> (Rec, Rec) {
        (*r, *r)
    }
    fn expect(rs: &[Rec], _: &Gen) -> Vec<Vec<u32>> {
        vec![fans(rs), kept(rs)]
    }
    fn build(w: &Rc<World>, _: &Gen, _: Vec<(Rec, Rec)>) -> Built<(Rec, Rec)> {
        Built::Sink(Box::pin(sinktools::unzip(
            sinktools::flat_map(|r: Rec| fan_out(&r), w.sink::<u32>(0)),
            sinktools::filter(|r: &Rec| r.keep, w.sink::<Rec>(1)),
        )))
    }
}

pub struct FanoutFlatMapLazy;
impl Shape for FanoutFlatMapLazy {
    const NAME: &'static str = "fanout+flat_map+lazy_sink";
    const N_FUT: usize = 1;
    type In = Rec;
    fn n_sinks(_: &Gen) -> usize {
        2
    }
    fn conv(r: &Rec, _: &Gen) -> Rec {
        *r
    }
    fn expect(rs: &[Rec], _: &Gen) -> Vec<Vec<u32>> {
        vec![fans(rs), ids(rs)]
    }
    fn build(w: &Rc<World>, g: &Gen, _: Vec<Rec>) -> Built<Rec> {
        Built::Sink(Box::pin(SinkBuilder::<Rec>::new().fanout(
            sinktools::flat_map(|r: Rec| fan_out(&r), w.sink::<u32>(0)),
            LazySink::<_, _, _, Rec>::new(lazy_init(w, g, 0, |w| w.sink::<Rec>(1))),
        )))
    }
}

pub struct InspectFlattenForEach;
impl Shape for InspectFlattenForEach {
    const NAME: &'static str = "inspect+map+flatten+for_each";
    type In = Rec;
    fn n_sinks(_: &Gen) -> usize {
        0
    }
    fn n_closures(_: &Gen) -> usize {
        2
    }
    fn conv(r: &Rec, _: &Gen) -> Rec {
        *r
    }
    fn expect(rs: &[Rec], _: &Gen) -> Vec<Vec<u32>> {
        vec![fans(rs), ids(rs)]
    }
    fn build(w: &Rc<World>, _: &Gen, _: Vec<Rec>) -> Built<Rec> {
        let mut log = w.closure(1);
        Built::Sink(Box::pin(
            SinkBuilder::<Rec>::new().inspect(move |r: &Rec| log(r.id)).map(|r: Rec| fan_out(&r)).flatten::<Vec<u32>>().for_each(w.closure(0)).sink_err_into::<SinkErr>(),
        ))
    }
}

/// demux_var over three different sub-pipelines, one of them lazy
pub struct DemuxVarMixed;
impl Shape for DemuxVarMixed {
    const NAME: &'static str = "demux_var+lazy_sink+flat_map+map";
    const N_FUT: usize = 1;
    type In = (usize, Rec);
    fn n_sinks(_: &Gen) -> usize {
        3
    }
    fn conv(r: &Rec, _: &Gen) -> (usize, Rec) {
        (r.key as usize, *r)
    }
    fn expect(rs: &[Rec], _: &Gen) -> Vec<Vec<u32>> {
        let mut v = vec![vec![]; 3];
        for r in rs {
            match r.key {
                0 => v[0].push(r.id),
                1 => v[1].extend(fan_out(r)),
                _ => v[2].push(r.id + 7000),
            }
        }
        v
    }
    fn build(w: &Rc<World>, g: &Gen, _: Vec<(usize, Rec)>) -> Built<(usize, Rec)> {
        Built::Sink(Box::pin(sinktools::demux_var::<_, Rec, SinkErr>((
            LazySink::<_, _, _, Rec>::new(lazy_init(w, g, 0, |w| w.sink::<Rec>(0))),
            (sinktools::flat_map(|r: Rec| fan_out(&r), w.sink::<u32>(1)), (sinktools::map(|r: Rec| r.id + 7000, w.sink::<u32>(2)), ())),
        ))))
    }
}

fn fan2(x: u32) -> Vec<u32> {
    (0..x % 3).map(|j| x * 4 + j).collect()
}

/// two buffering levels
pub struct FlatMapFlatMap;
impl Shape for FlatMapFlatMap {
    const NAME: &'static str = "flat_map+flat_map";
    type In = Rec;
    fn conv(r: &Rec, _: &Gen) -> Rec {
        *r
    }
    fn expect(rs: &[Rec], _: &Gen) -> Vec<Vec<u32>> {
        vec![fans(rs).into_iter().flat_map(fan2).collect()]
    }
    fn build(w: &Rc<World>, _: &Gen, _: Vec<Rec>) -> Built<Rec> {
        Built::Sink(Box::pin(sinktools::flat_map(|r: Rec| fan_out(&r), sinktools::flat_map(fan2, w.sink::<u32>(0)))))
    }
}

pub struct FlattenDemuxMap;
impl Shape for FlattenDemuxMap {
    const NAME: &'static str = "flatten+demux_map";
    const HASH_ORDER: bool = true;
    type In = Vec<(u32, u32)>;
    fn n_sinks(g: &Gen) -> usize {
        g.n
    }
    fn conv(r: &Rec, g: &Gen) -> Vec<(u32, u32)> {
        fan_out(r).into_iter().map(|x| (x % g.n as u32, x)).collect()
    }
    fn expect(rs: &[Rec], g: &Gen) -> Vec<Vec<u32>> {
        by_key(g.n, fans(rs).into_iter().map(|x| ((x % g.n as u32) as usize, x)))
    }
    fn build(w: &Rc<World>, g: &Gen, _: Vec<Vec<(u32, u32)>>) -> Built<Vec<(u32, u32)>> {
        Built::Sink(Box::pin(SinkBuilder::<Vec<(u32, u32)>>::new().flatten::<Vec<(u32, u32)>>().demux_map(sink_map(w, g.n))))
    }
}

/// flat_map in front of the sink half of a LazySinkSource (two tasks)
pub struct FlatMapLazySinkSource;
impl Shape for FlatMapLazySinkSource {
    const NAME: &'static str = "flat_map+lazy_sink_source";
    const N_FUT: usize = 1;
    const STREAM: bool = true;
    type In = Rec;
    fn conv(r: &Rec, _: &Gen) -> Rec {
        *r
    }
    fn expect(rs: &[Rec], _: &Gen) -> Vec<Vec<u32>> {
        vec![fans(rs)]
    }
    fn build(w: &Rc<World>, g: &Gen, _: Vec<Rec>) -> Built<Rec> {
        let st = w.stream(g.stream_items.clone(), g.stream_script.clone());
        let fut = w.future(0, g.fut_script[0].clone(), g.fut_fail[0], (st, w.lss_sink::<u32>(0)));
        let (si, so) = LazySinkSource::<_, SimStream<u32>, SimSink<u32>, u32, SinkErr>::new(fut).split();
        Built::Both(Box::pin(sinktools::flat_map(|r: Rec| fan_out(&r), si)), Box::pin(so))
    }
}
