//! C14 — sinktools adaptors route every item once, in order; lazy init at most once
//! (DESIGN.md §5 C14). Real code: every adaptor in `/repo/sinktools/src/*.rs` (+ `futures`'
//! `Fanout` reached through `SinkBuild::fanout`). Stubs: see `stubs.rs`.

pub mod shapes;
pub mod stubs;

use std::cell::RefCell;
use std::future::Future;
use std::panic::{AssertUnwindSafe, catch_unwind};
use std::pin::Pin;
use std::rc::Rc;
use std::task::Poll;

use futures::{Sink, Stream};
use simcore::exec::SimExec;
use simcore::{Outcome, Sim, SimCell, Violation};

use crate::util::{YieldN, add_faults, add_probes};
use stubs::*;

pub type PinBox<T> = Pin<Box<T>>;

/// Run-time parameters of a shape (drawn per run).
pub struct Gen {
    /// number of downstream sinks for the demux shapes (1-3)
    pub n: usize,
    pub stream_items: Vec<u32>,
    pub stream_script: Vec<u8>,
    pub fut_script: [Vec<u8>; 2],
    pub fut_fail: [bool; 2],
}

pub enum Built<In> {
    /// driven by the harness driver (ready / start_send / flush / close)
    Sink(PinBox<dyn Sink<In, Error = SinkErr>>),
    /// a future that pulls the inputs itself (`SendIter`, `SendStream`)
    Fut(PinBox<dyn Future<Output = Result<(), SinkErr>>>),
    /// a stream (`LazySource`)
    Source(PinBox<dyn Stream<Item = u32>>),
    /// both halves of a `LazySinkSource`, driven by two tasks
    Both(PinBox<dyn Sink<In, Error = SinkErr>>, PinBox<dyn Stream<Item = u32>>),
}

pub trait Shape: 'static {
    const NAME: &'static str;
    /// the shape polls sibling sinks in `std::HashMap` order: injected errors are restricted to
    /// `start_send` so that nothing observable depends on that order
    const HASH_ORDER: bool = false;
    /// no error configuration for this shape (an injected error could only surface inside a
    /// HashMap-ordered poll, where the set of sibling sinks polled before it is not reproducible)
    const NO_ERR_CFG: bool = false;
    /// number of lazy init futures the shape uses
    const N_FUT: usize = 0;
    /// the shape uses the `SimStream`
    const STREAM: bool = false;
    /// catch a panic raised by the adaptor's `start_send` and report it under this class
    const CATCH_SEND_PANIC: Option<&'static str> = None;
    type In: Clone + 'static;
    /// terminal `SimSink`s
    fn n_sinks(_g: &Gen) -> usize {
        1
    }
    /// closure pseudo-sinks (ids follow the SimSinks)
    fn n_closures(_g: &Gen) -> usize {
        0
    }
    fn conv(r: &Rec, g: &Gen) -> Self::In;
    /// the reference: what each sink / closure must receive for these inputs
    fn expect(rs: &[Rec], g: &Gen) -> Vec<Vec<u32>>;
    fn build(w: &Rc<World>, g: &Gen, inputs: Vec<Self::In>) -> Built<Self::In>;
}

#[derive(Clone, Copy, Debug)]
struct Plan {
    flush_every: usize,
    /// 0 = flush, 1 = close, 2 = flush then close
    end: u8,
    reready_pct: u64,
    yield_pct: u64,
    split_ready_send: bool,
}

#[derive(Default)]
struct Model {
    sent: usize,
    attempted: usize,
    flush_acked: usize,
    finished: bool,
    errored: bool,
    ops: u64,
    split_used: u64,
    reready_used: u64,
}

struct Ctx<'a, 's> {
    simc: &'a SimCell<'s>,
    w: &'a Rc<World>,
    m: &'a RefCell<Model>,
    shape: &'static str,
    err_cfg: bool,
    expect: &'a dyn Fn(usize) -> Vec<Vec<u32>>,
}

impl Ctx<'_, '_> {
    fn viol(&self, class: &str, detail: String) {
        self.w.inner.borrow_mut().viol(format!("{class}/{}", self.shape), detail);
    }
    /// log one driver-level operation (after the stub events it caused)
    fn after_op(&self, kind: usize, r: &Poll<Result<(), SinkErr>>) {
        let mut sim = self.simc.borrow_mut();
        self.w.drain_events(&mut sim);
        self.m.borrow_mut().ops += 1;
        let code = match r {
            Poll::Pending => 0,
            Poll::Ready(Ok(())) => 1,
            Poll::Ready(Err(_)) => 2,
        };
        sim.event(0x5000 + kind as u64 * 4 + code, || format!("driver: {} -> {:?}", KIND_NAME[kind], r));
    }
    /// an `Err` came back from the adaptor: legal only after an injected error
    fn on_error(&self, what: &str, e: SinkErr) {
        let fired = self.w.inner.borrow().err_fired;
        if !self.err_cfg || !fired {
            self.viol("unexpected_error", format!("{what} returned Err({e:?}) although no error was injected"));
        }
        self.m.borrow_mut().errored = true;
    }
    /// After a successful flush / close / completion: everything sent so far has been delivered,
    /// exactly once, in order, to the sink it is addressed to — and nothing else.
    fn check_delivered(&self, when: &str) {
        let n = self.m.borrow().sent;
        let exp = (self.expect)(n);
        let i = self.w.inner.borrow();
        let rec: Vec<&Vec<u32>> = i.sinks.iter().map(|s| &s.received).collect();
        if let Some((class, detail)) = compare(&rec, &exp, false) {
            drop(i);
            self.viol(class, format!("{when} with {n} item(s) sent: {detail}"));
        }
    }
    /// Narrowed oracle of the error configuration, evaluated when the injected error surfaced.
    fn check_after_error(&self) {
        let (attempted, acked) = {
            let m = self.m.borrow();
            (m.attempted, m.flush_acked)
        };
        let exp = (self.expect)(attempted);
        let acked_exp = (self.expect)(acked);
        let i = self.w.inner.borrow();
        let rec: Vec<&Vec<u32>> = i.sinks.iter().map(|s| &s.received).collect();
        let mut v = compare(&rec, &exp, true).map(|(c, d)| (c.to_string(), d));
        if v.is_none() {
            for (s, r) in rec.iter().enumerate() {
                if r.len() < acked_exp[s].len() {
                    v = Some((
                        "lost_acknowledged_item".to_string(),
                        format!("sink {s} holds {:?} but {:?} had been acknowledged by a successful flush before the error", r, acked_exp[s]),
                    ));
                }
            }
        }
        drop(i);
        if let Some((class, detail)) = v {
            self.viol(&class, format!("after the injected error ({attempted} item(s) attempted): {detail}"));
        }
    }
}

/// Compare what the sinks hold with the reference. `prefix_ok`: a sink may hold a proper prefix.
fn compare(rec: &[&Vec<u32>], exp: &[Vec<u32>], prefix_ok: bool) -> Option<(&'static str, String)> {
    for s in 0..exp.len() {
        let r = rec[s];
        let e = &exp[s];
        if r == e || (prefix_ok && e.starts_with(r)) {
            continue;
        }
        for (k, v) in r.iter().enumerate() {
            if r[..k].contains(v) {
                return Some(("duplicate_item", format!("sink {s} received {v} twice: {r:?} (reference {e:?})")));
            }
        }
        for v in r.iter() {
            if !e.contains(v) {
                if let Some(o) = (0..exp.len()).find(|o| exp[*o].contains(v)) {
                    return Some(("misrouted_item", format!("sink {s} received {v} which is addressed to sink {o}: {r:?} (reference {e:?})")));
                }
                return Some(("phantom_item", format!("sink {s} received {v} which nobody sent: {r:?} (reference {e:?})")));
            }
        }
        // r's values are a duplicate-free subset of e
        let mut it = e.iter();
        let in_order = r.iter().all(|v| it.any(|x| x == v));
        if !in_order {
            return Some(("reordered", format!("sink {s} received {r:?}, reference order {e:?}")));
        }
        return Some(("lost_item", format!("sink {s} received {r:?}, reference {e:?}")));
    }
    None
}

/// Await one poll-style operation of the adaptor (every poll is logged and is an event).
async fn op<In>(sink: &mut PinBox<dyn Sink<In, Error = SinkErr>>, kind: usize, c: &Ctx<'_, '_>) -> Result<(), SinkErr> {
    std::future::poll_fn(|cx| {
        let r = match kind {
            K_READY => sink.as_mut().poll_ready(cx),
            K_FLUSH => sink.as_mut().poll_flush(cx),
            _ => sink.as_mut().poll_close(cx),
        };
        c.after_op(kind, &r);
        r
    })
    .await
}

/// The sink driver: for each input await `poll_ready`, `start_send`, flush per plan; finish with
/// flush and/or close. Every flush/close success is an oracle point.
async fn drive<In: Clone>(mut sink: PinBox<dyn Sink<In, Error = SinkErr>>, inputs: Vec<In>, plan: Plan, catch: Option<&'static str>, c: &Ctx<'_, '_>) {
    for item in inputs {
        if plan.yield_pct > 0 && c.simc.borrow_mut().flip("drv_yield", plan.yield_pct, 100) {
            YieldN(1).await;
        }
        loop {
            let r = op(&mut sink, K_READY, c).await;
            if let Err(e) = r {
                c.on_error("poll_ready", e);
                c.check_after_error();
                return;
            }
            // a driver may ask again before sending (legal; `SendStream` does it)
            if plan.reready_pct > 0 && c.simc.borrow_mut().flip("reready", plan.reready_pct, 100) {
                c.m.borrow_mut().reready_used += 1;
                continue;
            }
            break;
        }
        if plan.split_ready_send && c.simc.borrow_mut().flip("split_ready_send", 1, 2) {
            // poll_ready and start_send in different task polls (a reserved slot stays reserved)
            c.m.borrow_mut().split_used += 1;
            YieldN(1).await;
        }
        c.m.borrow_mut().attempted += 1;
        let r = match catch {
            None => sink.as_mut().start_send(item),
            Some(class) => match catch_unwind(AssertUnwindSafe(|| sink.as_mut().start_send(item))) {
                Ok(r) => r,
                Err(p) => {
                    let msg = p.downcast_ref::<&str>().map(|s| s.to_string()).or_else(|| p.downcast_ref::<String>().cloned()).unwrap_or_default();
                    let mut sim = c.simc.borrow_mut();
                    c.w.drain_events(&mut sim);
                    sim.event(0x50ff, || format!("driver: start_send PANICKED: {msg}"));
                    drop(sim);
                    c.w.inner.borrow_mut().viol(
                        class.to_string(),
                        format!("start_send panicked (\"{msg}\") although the preceding poll_ready of this sink returned Ready(Ok)"),
                    );
                    c.m.borrow_mut().errored = true;
                    return;
                }
            },
        };
        {
            let mut sim = c.simc.borrow_mut();
            c.w.drain_events(&mut sim);
            c.m.borrow_mut().ops += 1;
            sim.event(0x5010 + r.is_err() as u64, || format!("driver: start_send(#{}) -> {:?}", c.m.borrow().attempted, r));
        }
        if let Err(e) = r {
            c.on_error("start_send", e);
            c.check_after_error();
            return;
        }
        c.m.borrow_mut().sent += 1;
        let sent = c.m.borrow().sent;
        if plan.flush_every > 0 && sent % plan.flush_every == 0 {
            if let Err(e) = op(&mut sink, K_FLUSH, c).await {
                c.on_error("poll_flush", e);
                c.check_after_error();
                return;
            }
            c.m.borrow_mut().flush_acked = sent;
            c.check_delivered("after a successful flush");
        }
    }
    if plan.end != 1 {
        if let Err(e) = op(&mut sink, K_FLUSH, c).await {
            c.on_error("poll_flush", e);
            c.check_after_error();
            return;
        }
        let sent = c.m.borrow().sent;
        c.m.borrow_mut().flush_acked = sent;
        c.check_delivered("after the final successful flush");
    }
    if plan.end != 0 {
        let r = op(&mut sink, K_CLOSE, c).await;
        if let Err(e) = r {
            c.on_error("poll_close", e);
            c.check_after_error();
            return;
        }
        c.check_delivered("after a successful close");
    }
    c.m.borrow_mut().finished = true;
}

/// Drives a `SendIter` / `SendStream` future to completion.
async fn drive_fut(mut fut: PinBox<dyn Future<Output = Result<(), SinkErr>>>, n_inputs: usize, c: &Ctx<'_, '_>) {
    let r = std::future::poll_fn(|cx| {
        let r = fut.as_mut().poll(cx);
        c.after_op(4, &r);
        r
    })
    .await;
    {
        let mut m = c.m.borrow_mut();
        m.attempted = n_inputs;
    }
    match r {
        Ok(()) => {
            c.m.borrow_mut().sent = n_inputs;
            c.check_delivered("after the send future completed");
            c.m.borrow_mut().finished = true;
        }
        Err(e) => {
            c.on_error("the send future", e);
            c.check_after_error();
        }
    }
}

/// Polls the stream (half) until `None` or until `take` items were taken (then drops it).
async fn consume(mut st: PinBox<dyn Stream<Item = u32>>, take: usize, yield_pct: u64, c: &Ctx<'_, '_>, out: &RefCell<(bool, bool)>) {
    let mut got = 0;
    while got < take {
        if yield_pct > 0 && c.simc.borrow_mut().flip("consumer_yield", yield_pct, 100) {
            YieldN(1).await;
        }
        let r = std::future::poll_fn(|cx| {
            let r = st.as_mut().poll_next(cx);
            let mut sim = c.simc.borrow_mut();
            c.w.drain_events(&mut sim);
            let code = match &r {
                Poll::Pending => 0,
                Poll::Ready(None) => 1,
                Poll::Ready(Some(x)) => 0x100 + *x as u64,
            };
            sim.event(0x6000 + code, || format!("consumer: poll_next -> {r:?}"));
            r
        })
        .await;
        match r {
            Some(x) => {
                got += 1;
                c.w.inner.borrow_mut().stream_out.push(x);
            }
            None => {
                out.borrow_mut().0 = true;
                break;
            }
        }
    }
    out.borrow_mut().1 = true;
    drop(st);
}

fn script(sim: &mut Sim, site: &'static str, len: usize, w_now: u64, w_later: u64) -> Vec<u8> {
    if w_now + w_later == 0 {
        return vec![];
    }
    (0..len).map(|_| sim.weighted(site, &[8, w_now, w_later]) as u8).collect()
}

const ROLES: [&str; 2] = ["driver", "stream_consumer"];

pub fn run<S: Shape>(sim: &mut Sim, err_cfg: bool) -> Outcome {
    // ---- knobs (swarm style)
    let n_items = sim.choose("n_items", 0, 6) as usize;
    let n = sim.choose("n_sinks", 1, 3) as usize;
    let w_now = *sim.pick("pend_now_w", &[0u64, 1, 3, 8]);
    let w_later = *sim.pick("pend_later_w", &[0u64, 1, 3, 8]);
    let sticky = !sim.flip("unstable_ready", 1, 4);
    let spurious_pct = *sim.pick("spurious_pct", &[0u64, 0, 10, 30]);
    let plan = Plan {
        flush_every: sim.choose("flush_every", 0, 2) as usize,
        end: sim.choose("end_how", 0, 2) as u8,
        reready_pct: *sim.pick("reready_pct", &[0u64, 0, 25]),
        yield_pct: *sim.pick("yield_pct", &[0u64, 20, 50]),
        split_ready_send: sim.flip("split_ready_send_on", 1, 4),
    };
    let mut recs = vec![];
    for k in 0..n_items {
        recs.push(Rec {
            id: k as u32 + 1,
            key: sim.choose("key", 0, n as u64 - 1) as u8,
            fan: sim.weighted("fan", &[2, 2, 3, 2]) as u8,
            keep: !sim.flip("drop_item", 1, 3),
        });
    }
    let mut g = Gen { n, stream_items: vec![], stream_script: vec![], fut_script: [vec![], vec![]], fut_fail: [false, false] };
    if S::STREAM {
        let k = sim.choose("n_stream_items", 0, 5) as u32;
        g.stream_items = (0..k).map(|x| 9001 + x).collect();
        g.stream_script = script(sim, "stream_step", n_items.max(k as usize) + 4, w_now, w_later);
    }
    for f in 0..S::N_FUT {
        g.fut_script[f] = script(sim, "init_step", 3, w_now.max(1), w_later.max(1));
    }
    let ns = S::n_sinks(&g);
    let nc = S::n_closures(&g);
    let world = World::new(S::NAME, sim.verbose);
    {
        let mut i = world.inner.borrow_mut();
        for _ in 0..ns {
            let st = SinkSt {
                script: [
                    script(sim, "ready_step", 10, w_now, w_later),
                    script(sim, "flush_step", 6, w_now, w_later),
                    script(sim, "close_step", 3, w_now, w_later),
                ],
                sticky,
                ..Default::default()
            };
            i.sinks.push(st);
        }
        for _ in 0..nc {
            i.sinks.push(SinkSt { closure: true, ..Default::default() });
        }
    }
    // ---- error configuration: exactly one injected error source
    if err_cfg {
        let targets = ns + nc + S::N_FUT;
        let t = sim.choose("err_target", 0, targets as u64 - 1) as usize;
        if t < ns + nc {
            let kind = if t >= ns || S::HASH_ORDER { K_SEND } else { sim.choose("err_kind", 0, 3) as usize };
            let nth = sim.choose("err_nth", 1, 4) as u32;
            world.inner.borrow_mut().sinks[t].err_at = Some((kind, nth));
        } else {
            g.fut_fail[t - ns - nc] = true;
        }
    }
    let take = if S::STREAM && sim.flip("consumer_drops_early", 1, 6) { sim.choose("take", 0, 3) as usize } else { usize::MAX };

    let inputs: Vec<S::In> = recs.iter().map(|r| S::conv(r, &g)).collect();
    let built = S::build(&world, &g, inputs.clone());
    let expect = |k: usize| S::expect(&recs[..k], &g);
    let model = RefCell::new(Model::default());
    let cons = RefCell::new((false, false)); // (saw None, finished)
    let simc: SimCell<'_> = RefCell::new(sim);
    let ctx = Ctx { simc: &simc, w: &world, m: &model, shape: S::NAME, err_cfg, expect: &expect };
    let mut parked_roles: Vec<&'static str> = vec![];
    let mut step_cap = false;
    let steps;
    let (has_driver, has_consumer);
    {
        let mut ex = SimExec::new();
        let mut roles: Vec<&'static str> = vec![];
        match built {
            Built::Sink(s) => {
                ex.spawn(drive(s, inputs, plan, S::CATCH_SEND_PANIC, &ctx));
                roles.push(ROLES[0]);
            }
            Built::Fut(f) => {
                ex.spawn(drive_fut(f, inputs.len(), &ctx));
                roles.push(ROLES[0]);
            }
            Built::Source(st) => {
                ex.spawn(consume(st, take, plan.yield_pct, &ctx, &cons));
                roles.push(ROLES[1]);
            }
            Built::Both(s, st) => {
                ex.spawn(drive(s, inputs, plan, S::CATCH_SEND_PANIC, &ctx));
                roles.push(ROLES[0]);
                ex.spawn(consume(st, take, plan.yield_pct, &ctx, &cons));
                roles.push(ROLES[1]);
            }
        }
        has_driver = roles.contains(&ROLES[0]);
        has_consumer = roles.contains(&ROLES[1]);
        // ---- executor loop: woken tasks, environment events (unblocking a stub), spurious polls
        loop {
            if ex.all_done() {
                break;
            }
            if ex.steps >= 3000 {
                step_cap = true;
                break;
            }
            let woken = ex.woken();
            let pend: Vec<(u32, u8)> = world.inner.borrow().pending.iter().copied().collect();
            if woken.is_empty() && pend.is_empty() {
                for t in ex.parked() {
                    parked_roles.push(roles[t]);
                }
                break;
            }
            let mut sim = simc.borrow_mut();
            let parked = ex.parked();
            if !parked.is_empty() && spurious_pct > 0 && sim.flip("spurious", spurious_pct, 100) {
                sim.fault("spurious_poll");
                let t = *sim.pick("pick_parked", &parked);
                sim.event(0x70 + t as u64, || format!("executor: spurious poll of the {}", roles[t]));
                drop(sim);
                ex.poll(t);
                continue;
            }
            let k = sim.choose("act", 0, (woken.len() + pend.len() - 1) as u64) as usize;
            if k < woken.len() {
                let t = woken[k];
                sim.event(0x78 + t as u64, || format!("executor: poll the {}", roles[t]));
                drop(sim);
                ex.poll(t);
            } else {
                let key = pend[k - woken.len()];
                sim.event(0x4000 + key.0 as u64 * 4 + key.1 as u64, || {
                    let what = match key.0 {
                        STREAM_ID => "the stream".to_string(),
                        x if x >= FUT_ID => format!("init future #{}", x - FUT_ID),
                        x => format!("sink {x} ({})", KIND_NAME[key.1 as usize]),
                    };
                    format!("env: {what} becomes ready (wakes its latest waker)")
                });
                drop(sim);
                world.fire(key);
            }
        }
        steps = ex.steps;
    }
    drop(ctx);
    let sim: &mut Sim = simc.into_inner();
    world.drain_events(sim);
    let m = model.into_inner();
    let (saw_none, cons_finished) = cons.into_inner();
    let mut i = world.inner.borrow_mut();
    // ---- liveness: at quiescence every stub has woken the waker of its latest poll, so a parked
    // task has lost a wake-up
    for role in &parked_roles {
        let done = i.init_done;
        i.viol(
            format!("lost_wakeup/{}/{role}", S::NAME),
            format!("quiescent (no task woken, no environment event outstanding) with the {role} task parked; init futures complete: {:?}", &done[..S::N_FUT]),
        );
    }
    // ---- stream side (LazySource / LazySinkSource source half)
    if has_consumer && cons_finished {
        let exp = &g.stream_items;
        let out = i.stream_out.clone();
        if !exp.starts_with(&out) {
            i.viol(format!("stream_items_wrong/{}", S::NAME), format!("the lazy source produced {out:?}, the underlying stream holds {exp:?}"));
        } else if saw_none && out.len() < exp.len() && !i.err_fired {
            i.viol(format!("stream_items_lost/{}", S::NAME), format!("the lazy source ended after {out:?}, the underlying stream holds {exp:?}"));
        }
    }
    if step_cap {
        sim.probe("step_cap");
    }
    // ---- evidence counters
    add_faults(sim, "stub_pending_wake_now", i.n_pend_now);
    add_faults(sim, "stub_pending_blocked", i.n_pend_blocked);
    add_probes(sim, "stub_repolled_while_blocked", i.n_repoll_blocked);
    add_probes(sim, "init_future_pending", i.n_fut_pending);
    add_probes(sim, "stream_pending", i.n_stream_pending);
    add_probes(sim, "stream_polled_after_end", i.stream_polls_after_end);
    add_probes(sim, "init_future_repolled_after_failure", i.n_fut_repoll_after_failure);
    add_probes(sim, "driver_split_ready_and_send", m.split_used);
    add_probes(sim, "driver_asked_ready_again", m.reready_used);
    if i.err_fired {
        sim.fault("injected_error_fired");
    }
    let mut lazily = 0;
    let mut held = 0;
    for s in i.sinks.iter() {
        lazily += s.created as u64;
        held += s.received.len();
    }
    add_probes(sim, "sink_created_lazily", lazily);
    if m.finished {
        sim.probe("driver_finished");
    }
    if m.errored {
        sim.probe("driver_stopped_by_error");
    }
    let recvd: Vec<&Vec<u32>> = i.sinks.iter().map(|s| &s.received).collect();
    sim.state(simcore::fnv_str(&format!("{}{recvd:?}{:?}{}", S::NAME, i.stream_out, m.finished)));
    let sim_time = steps + m.ops + i.n_stub_polls;
    // the reserved classes of the documented candidate defects never mask another violation
    let viols = std::mem::take(&mut i.viols);
    let violation = viols.iter().find(|v| !CANDIDATE_CLASSES.contains(&v.class.as_str())).or(viols.first()).cloned();
    let _ = has_driver;
    if step_cap {
        return Outcome { violation, nontrivial: false, sim_time, discarded: true };
    }
    let flowed = held > 0 || !i.stream_out.is_empty();
    Outcome { violation, nontrivial: flowed && sim.nonbenign > 0, sim_time, discarded: false }
}

pub fn run_ok<S: Shape>(sim: &mut Sim) -> Outcome {
    run::<S>(sim, false)
}
pub fn run_err<S: Shape>(sim: &mut Sim) -> Outcome {
    run::<S>(sim, true)
}

#[allow(dead_code)]
fn _unused(_: Violation) {}
