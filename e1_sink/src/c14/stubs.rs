//! Simulator-owned stubs for C14: `SimSink` (scripted readiness + protocol monitor), closure
//! sinks, `SimStream`, `SimFuture`, and the `World` they all report to.
//!
//! Wake discipline (reactor model): every stub poll that answers `Pending` either wakes the
//! polling task's waker immediately ("wake-now": a cooperative yield) or *blocks* the stub until
//! the executor loop fires the stub's environment event ("wake-later"); while blocked, every
//! further poll answers `Pending` and only replaces the stored waker (only the waker of the most
//! recent poll is owed a wake-up — the `Future`/`Sink`/`Stream` contract). Scripts are drawn up
//! front (as knobs), never at poll time: `sinktools::demux_map*` iterate a `std::HashMap` with
//! `RandomState`, so the order in which sibling sinks are polled inside one adaptor call is not
//! reproducible and nothing observable may depend on it. For the same reason stub-level events are
//! buffered and handed to the `Sim` sorted by stub id after every driver-level operation.

use std::cell::RefCell;
use std::collections::{BTreeMap, BTreeSet};
use std::convert::Infallible;
use std::future::Future;
use std::marker::PhantomData;
use std::pin::Pin;
use std::rc::Rc;
use std::task::{Context, Poll, Waker};

use futures::{Sink, Stream};
use simcore::{Sim, Violation};

/// The violation class reserved for the candidate defect of DESIGN §8.2.
pub const CLASS_LAZY_DEMUX: &str = "demux_map_lazy/start_send_without_ready_on_new_sink";

/// The two faces of the LazySinkSource candidate defect (see FINDINGS.md): the sink half's
/// `poll_ready` answers `Ready(Ok)` while uninitialised; if the source half starts (or completes)
/// the initialisation before the matching `start_send`, that `start_send` panics (or reaches the
/// inner sink whose `poll_ready` was never called).
pub const CLASS_LSS_PANIC: &str = "lazy_sink_source/start_send_panics_after_ready_when_source_half_began_init";
pub const CLASS_LSS_NOREADY: &str = "lazy_sink_source/start_send_without_inner_ready_when_source_half_completed_init";
/// Classes of documented candidate defects: reported, but never allowed to mask another violation
/// of the same run.
pub const CANDIDATE_CLASSES: [&str; 3] = [CLASS_LAZY_DEMUX, CLASS_LSS_PANIC, CLASS_LSS_NOREADY];

pub const K_READY: usize = 0;
pub const K_FLUSH: usize = 1;
pub const K_CLOSE: usize = 2;
pub const K_SEND: usize = 3;
pub const KIND_NAME: [&str; 5] = ["poll_ready", "poll_flush", "poll_close", "start_send", "send-future poll"];

/// Stub ids (keys of environment events): sinks are `0..`, the stream is 100, init futures 200+.
pub const STREAM_ID: u32 = 100;
pub const FUT_ID: u32 = 200;

#[derive(Clone, Copy, Debug, PartialEq, Eq)]
pub struct SinkErr(pub u32);
impl From<Infallible> for SinkErr {
    fn from(x: Infallible) -> Self {
        match x {}
    }
}

/// The universal input record; every closure of every shape is a function of its fields.
#[derive(Clone, Copy, Debug, PartialEq)]
pub struct Rec {
    pub id: u32,
    pub key: u8,
    pub fan: u8,
    pub keep: bool,
}

pub trait ItemId {
    fn item_id(&self) -> u32;
}
impl ItemId for u32 {
    fn item_id(&self) -> u32 {
        *self
    }
}
impl ItemId for Rec {
    fn item_id(&self) -> u32 {
        self.id
    }
}

#[derive(Default)]
pub struct Gate {
    pub blocked: bool,
    pub waker: Option<Waker>,
}

#[derive(Default)]
pub struct SinkSt {
    pub script: [Vec<u8>; 3],
    pub pos: [usize; 3],
    pub sticky: bool,
    /// a `poll_ready -> Ready(Ok)` since the last `start_send`
    pub credit: bool,
    pub ever_polled_ready: bool,
    /// created on demand by `demux_map_lazy`'s function
    pub lazily_created: bool,
    /// the inner sink a LazySinkSource init future hands out
    pub lss_inner: bool,
    /// how often the creating function ran for this sink (demux_map_lazy)
    pub created: u32,
    pub received: Vec<u32>,
    pub flushed_len: usize,
    pub closed: bool,
    pub calls: [u32; 4],
    /// error configuration: fail the `nth` call of operation `kind`
    pub err_at: Option<(usize, u32)>,
    pub failed: bool,
    /// a closure sink (for_each / try_for_each / inspect log): no readiness protocol
    #[allow(dead_code)]
    pub closure: bool,
}

#[derive(Default)]
pub struct Inner {
    pub shape: &'static str,
    pub sinks: Vec<SinkSt>,
    pub gates: BTreeMap<(u32, u8), Gate>,
    /// blocked stubs whose environment event has not fired yet
    pub pending: BTreeSet<(u32, u8)>,
    pub events: Vec<(u32, u64, Option<String>)>,
    pub verbose: bool,
    pub viols: Vec<Violation>,
    pub err_fired: bool,
    pub init_calls: [u32; 2],
    pub init_done: [bool; 2],
    pub stream_out: Vec<u32>,
    pub stream_handed_out: u32,
    pub stream_polls_after_end: u64,
    pub n_pend_now: u64,
    pub n_pend_blocked: u64,
    pub n_repoll_blocked: u64,
    pub n_stub_polls: u64,
    pub n_sticky_ready: u64,
    pub n_fut_pending: u64,
    pub n_stream_pending: u64,
    pub n_fut_repoll_after_failure: u64,
}

pub struct World {
    pub inner: RefCell<Inner>,
}

impl Inner {
    pub fn viol(&mut self, class: String, detail: String) {
        if self.viols.len() < 16 {
            self.viols.push(Violation::new(class, detail));
        }
    }
    fn ev(&mut self, stub: u32, code: u64, f: impl FnOnce() -> String) {
        let t = if self.verbose { Some(f()) } else { None };
        self.events.push((stub, code, t));
    }
    /// Common gating logic: returns `true` when this poll must answer `Pending`.
    fn gate(&mut self, key: (u32, u8), step: impl FnOnce(&mut Inner) -> u8, cx: &mut Context<'_>) -> bool {
        self.n_stub_polls += 1;
        if let Some(g) = self.gates.get_mut(&key) {
            if g.blocked {
                g.waker = Some(cx.waker().clone());
                self.n_repoll_blocked += 1;
                return true;
            }
        }
        match step(self) {
            0 => false,
            1 => {
                self.n_pend_now += 1;
                cx.waker().wake_by_ref();
                true
            }
            _ => {
                self.n_pend_blocked += 1;
                self.gates.insert(key, Gate { blocked: true, waker: Some(cx.waker().clone()) });
                self.pending.insert(key);
                true
            }
        }
    }
}

impl World {
    pub fn new(shape: &'static str, verbose: bool) -> Rc<World> {
        Rc::new(World { inner: RefCell::new(Inner { shape, verbose, ..Default::default() }) })
    }
    /// Fire the environment event of a blocked stub: unblock it and wake its latest waker.
    pub fn fire(&self, key: (u32, u8)) {
        let wk = {
            let mut i = self.inner.borrow_mut();
            i.pending.remove(&key);
            match i.gates.get_mut(&key) {
                Some(g) => {
                    g.blocked = false;
                    g.waker.take()
                }
                None => None,
            }
        };
        if let Some(wk) = wk {
            wk.wake();
        }
    }
    /// Hand the buffered stub events to the `Sim`, sorted by stub id (stable within one stub).
    pub fn drain_events(&self, sim: &mut Sim) {
        let mut evs = std::mem::take(&mut self.inner.borrow_mut().events);
        if evs.is_empty() {
            return;
        }
        evs.sort_by_key(|e| e.0);
        for (stub, code, text) in evs {
            sim.event(code ^ ((stub as u64) << 40), || text.unwrap_or_default());
        }
    }
    pub fn sink<T: ItemId>(self: &Rc<Self>, id: usize) -> SimSink<T> {
        SimSink { id, w: self.clone(), _p: PhantomData }
    }
    /// The sink with this id is the inner sink of a `LazySinkSource`.
    pub fn lss_sink<T: ItemId>(self: &Rc<Self>, id: usize) -> SimSink<T> {
        self.inner.borrow_mut().sinks[id].lss_inner = true;
        self.sink(id)
    }
    /// `demux_map_lazy`'s sink-creating function body.
    pub fn create_lazily<T: ItemId>(self: &Rc<Self>, id: usize) -> SimSink<T> {
        {
            let mut i = self.inner.borrow_mut();
            let shape = i.shape;
            let s = &mut i.sinks[id];
            s.created += 1;
            s.lazily_created = true;
            let n = s.created;
            i.ev(id as u32, 0x900, || format!("  sink {id}: created by the lazy demux function"));
            if n > 1 {
                i.viol(format!("init_more_than_once/{shape}"), format!("the sink for key {id} was created {n} times"));
            }
        }
        self.sink(id)
    }
    /// A closure sink (`for_each`, `inspect` log): records into pseudo-sink `id`.
    pub fn closure(self: &Rc<Self>, id: usize) -> impl FnMut(u32) + Unpin + 'static {
        let w = self.clone();
        move |x| {
            let mut i = w.inner.borrow_mut();
            i.sinks[id].received.push(x);
            i.ev(id as u32, 0x700 + x as u64, || format!("  closure {id}: got {x}"));
        }
    }
    /// A fallible closure sink (`try_for_each`).
    pub fn try_closure(self: &Rc<Self>, id: usize) -> impl FnMut(u32) -> Result<(), SinkErr> + Unpin + 'static {
        let w = self.clone();
        move |x| {
            let mut i = w.inner.borrow_mut();
            let s = &mut i.sinks[id];
            s.calls[K_SEND] += 1;
            if s.failed || s.err_at == Some((K_SEND, s.calls[K_SEND])) {
                s.failed = true;
                i.err_fired = true;
                i.ev(id as u32, 0x7ff, || format!("  closure {id}: injected error on {x}"));
                return Err(SinkErr(id as u32));
            }
            s.received.push(x);
            i.ev(id as u32, 0x700 + x as u64, || format!("  closure {id}: got {x}"));
            Ok(())
        }
    }
    pub fn stream<T: Clone + ItemId>(self: &Rc<Self>, items: Vec<T>, script: Vec<u8>) -> SimStream<T> {
        SimStream { w: self.clone(), items, next: 0, script, pos: 0, ended: false }
    }
    pub fn future<T>(self: &Rc<Self>, slot: usize, script: Vec<u8>, fail: bool, payload: T) -> SimFuture<T> {
        SimFuture { w: self.clone(), slot, script, pos: 0, fail, payload: Some(payload), done: false }
    }
    /// Called by the lazy-init functions (`FnOnce`) when they run.
    pub fn init_called(&self, slot: usize) {
        let mut i = self.inner.borrow_mut();
        i.init_calls[slot] += 1;
        let n = i.init_calls[slot];
        let shape = i.shape;
        i.ev(FUT_ID + slot as u32, 0x901, || format!("  init function #{slot} called"));
        if n > 1 {
            i.viol(format!("init_more_than_once/{shape}"), format!("lazy init function #{slot} ran {n} times"));
        }
    }
}

// ---------------------------------------------------------------------------------------------

/// Scripted terminal sink with a protocol monitor. `Unpin` (required by `demux_map*`).
pub struct SimSink<T> {
    pub id: usize,
    w: Rc<World>,
    _p: PhantomData<fn(T)>,
}

impl<T> SimSink<T> {
    fn poll_op(&self, kind: usize, cx: &mut Context<'_>) -> Poll<Result<(), SinkErr>> {
        let id = self.id;
        let mut guard = self.w.inner.borrow_mut();
        let i = &mut *guard;
        let s = &mut i.sinks[id];
        s.calls[kind] += 1;
        if kind == K_READY {
            s.ever_polled_ready = true;
        }
        if s.failed || s.err_at == Some((kind, s.calls[kind])) {
            s.failed = true;
            i.err_fired = true;
            i.ev(id as u32, 0x600 + kind as u64, || format!("  sink {id}: {} -> injected Err", KIND_NAME[kind]));
            return Poll::Ready(Err(SinkErr(id as u32)));
        }
        if kind == K_READY && s.sticky && s.credit {
            i.n_sticky_ready += 1;
            i.ev(id as u32, 0x610, || format!("  sink {id}: poll_ready -> Ready (still ready)"));
            return Poll::Ready(Ok(()));
        }
        let pending = i.gate(
            (id as u32, kind as u8),
            |i| {
                let s = &mut i.sinks[id];
                let st = s.script[kind].get(s.pos[kind]).copied().unwrap_or(0);
                s.pos[kind] += 1;
                st
            },
            cx,
        );
        let s = &mut i.sinks[id];
        if pending {
            i.ev(id as u32, 0x620 + kind as u64, || format!("  sink {id}: {} -> Pending", KIND_NAME[kind]));
            return Poll::Pending;
        }
        match kind {
            K_READY => s.credit = true,
            K_FLUSH => s.flushed_len = s.received.len(),
            _ => {
                s.flushed_len = s.received.len();
                s.closed = true;
            }
        }
        i.ev(id as u32, 0x630 + kind as u64, || format!("  sink {id}: {} -> Ready(Ok)", KIND_NAME[kind]));
        Poll::Ready(Ok(()))
    }
}

impl<T: ItemId> Sink<T> for SimSink<T> {
    type Error = SinkErr;
    fn poll_ready(self: Pin<&mut Self>, cx: &mut Context<'_>) -> Poll<Result<(), SinkErr>> {
        self.poll_op(K_READY, cx)
    }
    fn start_send(self: Pin<&mut Self>, item: T) -> Result<(), SinkErr> {
        let id = self.id;
        let x = item.item_id();
        let mut guard = self.w.inner.borrow_mut();
        let i = &mut *guard;
        let shape = i.shape;
        let s = &mut i.sinks[id];
        s.calls[K_SEND] += 1;
        // ---- protocol monitor: start_send only after this sink's own poll_ready -> Ready(Ok)
        if !s.credit {
            let (class, detail) = if s.lazily_created && !s.ever_polled_ready {
                (
                    CLASS_LAZY_DEMUX.to_string(),
                    format!("start_send({x}) on the freshly created sink for key {id}: its poll_ready was never called"),
                )
            } else if s.lss_inner && !s.ever_polled_ready {
                (
                    CLASS_LSS_NOREADY.to_string(),
                    format!("start_send({x}) reached the inner sink of the LazySinkSource although its poll_ready was never called (the sink half had answered Ready(Ok) while uninitialised)"),
                )
            } else {
                (
                    format!("start_send_without_ready/{shape}"),
                    format!(
                        "sink {id}: start_send({x}) without a poll_ready -> Ready(Ok) since the previous start_send ({} poll_ready calls so far)",
                        s.calls[K_READY]
                    ),
                )
            };
            i.viol(class, detail);
        }
        let s = &mut i.sinks[id];
        s.credit = false;
        if s.failed || s.err_at == Some((K_SEND, s.calls[K_SEND])) {
            s.failed = true;
            i.err_fired = true;
            i.ev(id as u32, 0x603, || format!("  sink {id}: start_send({x}) -> injected Err"));
            return Err(SinkErr(id as u32));
        }
        s.received.push(x);
        i.ev(id as u32, 0x1000 + x as u64, || format!("  sink {id}: start_send({x}) accepted"));
        Ok(())
    }
    fn poll_flush(self: Pin<&mut Self>, cx: &mut Context<'_>) -> Poll<Result<(), SinkErr>> {
        self.poll_op(K_FLUSH, cx)
    }
    fn poll_close(self: Pin<&mut Self>, cx: &mut Context<'_>) -> Poll<Result<(), SinkErr>> {
        self.poll_op(K_CLOSE, cx)
    }
}

// ---------------------------------------------------------------------------------------------

/// Scripted stream (per poll: answer / Pending wake-now / Pending blocked). After the end it keeps
/// answering `None` (`sinktools::SendStream` re-polls its stream after `None` when the final flush
/// is pending; that is counted as a probe, not judged).
pub struct SimStream<T> {
    w: Rc<World>,
    items: Vec<T>,
    next: usize,
    script: Vec<u8>,
    pos: usize,
    ended: bool,
}
impl<T: Clone + ItemId + Unpin> Stream for SimStream<T> {
    type Item = T;
    fn poll_next(self: Pin<&mut Self>, cx: &mut Context<'_>) -> Poll<Option<T>> {
        let this = self.get_mut();
        let mut guard = this.w.inner.borrow_mut();
        let i = &mut *guard;
        if this.ended {
            i.stream_polls_after_end += 1;
            i.ev(STREAM_ID, 0x640, || "  stream: polled after its end -> None".into());
            return Poll::Ready(None);
        }
        let (script, pos) = (&this.script, &mut this.pos);
        let pending = i.gate(
            (STREAM_ID, 0),
            |_| {
                let st = script.get(*pos).copied().unwrap_or(0);
                *pos += 1;
                st
            },
            cx,
        );
        if pending {
            i.n_stream_pending += 1;
            i.ev(STREAM_ID, 0x641, || "  stream: poll_next -> Pending".into());
            return Poll::Pending;
        }
        if this.next < this.items.len() {
            let x = this.items[this.next].clone();
            this.next += 1;
            i.stream_handed_out += 1;
            let id = x.item_id();
            i.ev(STREAM_ID, 0x2000 + id as u64, || format!("  stream: poll_next -> Some({id})"));
            Poll::Ready(Some(x))
        } else {
            this.ended = true;
            i.ev(STREAM_ID, 0x642, || "  stream: poll_next -> None".into());
            Poll::Ready(None)
        }
    }
}

/// Lazy-init future: pending per script, then `Ok(payload)` or (error configuration) `Err`.
pub struct SimFuture<T> {
    w: Rc<World>,
    slot: usize,
    script: Vec<u8>,
    pos: usize,
    fail: bool,
    payload: Option<T>,
    done: bool,
}
impl<T: Unpin> Future for SimFuture<T> {
    type Output = Result<T, SinkErr>;
    fn poll(self: Pin<&mut Self>, cx: &mut Context<'_>) -> Poll<Self::Output> {
        let this = self.get_mut();
        let slot = this.slot;
        let key = FUT_ID + slot as u32;
        let mut guard = this.w.inner.borrow_mut();
        let i = &mut *guard;
        if this.done {
            if this.fail {
                // a failed init leaves LazySink / LazySinkSource in their "thunkulating" state,
                // so the next operation polls the finished future again; the stub stays failed
                i.n_fut_repoll_after_failure += 1;
                i.ev(key, 0x650, || format!("  init future #{slot}: polled again after its failure -> Err"));
                return Poll::Ready(Err(SinkErr(900 + slot as u32)));
            }
            let shape = i.shape;
            i.viol(
                format!("init_future_polled_after_completion/{shape}"),
                format!("init future #{slot} was polled again after it had returned Ready(Ok)"),
            );
            return Poll::Pending;
        }
        let (script, pos) = (&this.script, &mut this.pos);
        let pending = i.gate(
            (key, 0),
            |_| {
                let st = script.get(*pos).copied().unwrap_or(0);
                *pos += 1;
                st
            },
            cx,
        );
        if pending {
            i.n_fut_pending += 1;
            i.ev(key, 0x651, || format!("  init future #{slot}: Pending"));
            return Poll::Pending;
        }
        this.done = true;
        i.init_done[slot] = true;
        if this.fail {
            i.err_fired = true;
            i.ev(key, 0x652, || format!("  init future #{slot}: Ready(Err) (injected)"));
            Poll::Ready(Err(SinkErr(900 + slot as u32)))
        } else {
            i.ev(key, 0x653, || format!("  init future #{slot}: Ready(Ok)"));
            Poll::Ready(Ok(this.payload.take().expect("payload")))
        }
    }
}
