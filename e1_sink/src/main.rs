//! E1 `e1_sink` — poll-level simulator for C14 (sinktools adaptors) and C15 (merged tagged
//! sources). DESIGN.md §4 E1, §5 C14/C15.
mod c14;
mod c15;
mod util;

use c14::shapes as sh;
use c14::{Shape, run_err, run_ok};
use simcore::runner::{Engine, Prop, Scenario};

fn leak(s: String) -> &'static str {
    Box::leak(s.into_boxed_str())
}

fn add<S: Shape>(v: &mut Vec<Scenario>, weight: u64) {
    v.push(Scenario { name: S::NAME, weight: weight * 3, run: run_ok::<S> });
    if !S::NO_ERR_CFG {
        v.push(Scenario { name: leak(format!("err:{}", S::NAME)), weight, run: run_err::<S> });
    }
}

fn c14_scenarios() -> Vec<Scenario> {
    let mut v = vec![];
    add::<sh::Map>(&mut v, 1);
    add::<sh::Filter>(&mut v, 1);
    add::<sh::FilterMap>(&mut v, 1);
    add::<sh::FlatMap>(&mut v, 2);
    add::<sh::Flatten>(&mut v, 2);
    add::<sh::Inspect>(&mut v, 1);
    add::<sh::Unzip>(&mut v, 2);
    add::<sh::ForEach>(&mut v, 1);
    add::<sh::TryForEach>(&mut v, 1);
    add::<sh::SendIter>(&mut v, 2);
    add::<sh::SendStream>(&mut v, 2);
    add::<sh::DemuxMap>(&mut v, 2);
    add::<sh::DemuxMapLazy>(&mut v, 2);
    add::<sh::DemuxVar>(&mut v, 2);
    add::<sh::Fanout>(&mut v, 1);
    add::<sh::LazySinkS>(&mut v, 3);
    add::<sh::LazySourceS>(&mut v, 2);
    add::<sh::LazySinkSourceS>(&mut v, 4);
    add::<sh::ChainFilterFlatMapMap>(&mut v, 1);
    add::<sh::FlatMapDemuxVar>(&mut v, 1);
    add::<sh::FlattenUnzip>(&mut v, 1);
    add::<sh::FlatMapLazySink>(&mut v, 1);
    add::<sh::LazySinkFlatMap>(&mut v, 1);
    add::<sh::SendIterFilterMapDemuxMap>(&mut v, 1);
    add::<sh::SendStreamFlatten>(&mut v, 1);
    add::<sh::DemuxMapLazyFlatMap>(&mut v, 1);
    add::<sh::UnzipFlatMapFilter>(&mut v, 1);
    add::<sh::FanoutFlatMapLazy>(&mut v, 1);
    add::<sh::InspectFlattenForEach>(&mut v, 1);
    add::<sh::DemuxVarMixed>(&mut v, 1);
    add::<sh::FlatMapFlatMap>(&mut v, 1);
    add::<sh::FlattenDemuxMap>(&mut v, 1);
    add::<sh::FlatMapLazySinkSource>(&mut v, 2);
    // debugging aid (never used by the registered commands): restrict the batch to the scenarios
    // whose name is listed (comma separated) in E1_SINK_ONLY
    if let Ok(only) = std::env::var("E1_SINK_ONLY") {
        let names: Vec<&str> = only.split(',').collect();
        v.retain(|s| names.contains(&s.name));
    }
    v
}

fn main() {
    let engine = Engine {
        name: "e1_sink",
        props: vec![
            Prop {
                id: "C14",
                scenarios: c14_scenarios(),
                quick_runs: 2_000_000,
                thorough_runs: 100_000_000,
                rule: "one scenario per pipeline shape (every sinktools adaptor alone + 15 compositions; each also as 'err:<shape>' = separate error configuration with the narrowed oracle). Each run draws 0-6 input records (unique id, demux key, flat_map fan-out 0-3, filter keep flag), 1-3 downstream SimSinks with pre-drawn per-poll scripts for poll_ready / poll_flush / poll_close (answer / Pending+immediate wake / Pending+blocked until an environment event), sticky or unstable readiness, a lazy-init future script, a stream script, the driver plan (flush after every 1 / 2 items or only at the end; end by flush, close or both; asking poll_ready again; poll_ready and start_send in different task polls; self-yields) and the schedule (which woken task or outstanding environment event goes next, spurious polls of parked tasks; for LazySinkSource two tasks so which half triggers initialisation and whose waker the MultiWaker holds are schedule decisions). Distinct = distinct hash of (scenario, realised decision trace); non-trivial = at least one item reached a sink/closure/stream consumer AND at least one fault fired (a stub answered Pending, a spurious poll, an injected error).",
                time_unit: "task polls + driver operations + stub polls",
                real: &[
                    "sinktools::{map, filter, filter_map, flat_map, flatten, inspect, unzip, for_each, try_for_each, send_iter, send_stream, demux_map, demux_map_lazy, demux_var}",
                    "sinktools::{SinkBuilder, SinkBuild (map/filter/filter_map/flat_map/flatten/inspect/unzip/fanout/for_each/demux_*/send_to), ToSinkBuild}",
                    "sinktools::lazy::{LazySink, LazySource}, sinktools::lazy_sink_source::{LazySinkSource, LazySinkHalf, LazySourceHalf, MultiWaker}",
                    "futures_util::sink::Fanout (reached through SinkBuild::fanout)",
                ],
                stubs: &[
                    "SimSink (scripted readiness, records items, protocol monitor, optional injected error)",
                    "closure sinks for for_each / try_for_each / inspect",
                    "SimStream, SimFuture (lazy init; success or injected failure)",
                    "sink driver task, stream consumer task, SimExec-based executor loop with environment events and spurious polls",
                    "reference semantics: std iterator code over the input records (c14/shapes.rs, fn expect)",
                ],
                assumptions: &[
                    "sampled schedules and inputs, not exhaustive (the property's bounded-exhaustive wording is not met): at most 6 inputs, 3 downstream sinks, fan-out 3",
                    "'delivered' means accepted by the terminal SimSink's start_send; oracle points are every successful poll_flush / poll_close of the adaptor and completion of a SendIter/SendStream future; a driver always ends with flush and/or close",
                    "protocol monitor: start_send needs a poll_ready -> Ready(Ok) of that same sink since its previous start_send (a later Pending does not revoke it)",
                    "blocked stubs wake only the waker of their most recent poll; quiescence with an unfinished task is the lost-wake-up detector",
                    "poll_ready and start_send may happen in different polls of the driver task (the Sink contract reserves the slot); sinktools::SendStream itself relies on asking poll_ready again",
                    "error configuration: exactly one injected error (a sink operation, the try_for_each closure, or the lazy init future); the run ends at the first error the driver sees; oracle narrowed to: every sink holds a prefix of its reference sequence (no duplicate, no misrouting, no reordering) and nothing acknowledged by an earlier successful flush is missing. For HashMap-based demuxes the error is only injected at start_send because the poll order of sibling sinks is not reproducible",
                    "a failed lazy init leaves LazySink/LazySinkSource polling the finished future again on the next operation; the stub tolerates that (counted as probe init_future_repolled_after_failure), it is outside the property",
                ],
                required_probes: &[
                    "stub_pending_wake_now", "stub_pending_blocked", "stub_repolled_while_blocked", "spurious_poll", "injected_error_fired",
                    "init_future_pending", "stream_pending", "sink_created_lazily", "driver_split_ready_and_send", "driver_asked_ready_again",
                    "driver_finished", "driver_stopped_by_error", "stream_polled_after_end",
                ],
            },
            Prop {
                id: "C15",
                scenarios: vec![Scenario { name: "merge", weight: 1, run: c15::run }],
                quick_runs: 2_000_000,
                thorough_runs: 100_000_000,
                rule: "each run draws 1-4 simulated network sources (0-6 uniquely numbered elements each, optionally some io::Error elements, distinct tags, a per-poll script of answer / Pending+immediate wake / Pending+blocked-until-environment-event steps; one third of the sources are always-ready), the public route into MergeSource (AsClient or AsServer, Merge or single Tagged) and a schedule (when the consumer task is polled relative to the environment events that unblock sources, spurious polls of the parked consumer, consumer self-yields, re-polls after the end). Distinct = distinct hash of the realised decision trace; non-trivial = at least one element came out of the merged stream AND at least one fault fired (a source answered Pending, or a spurious poll).",
                time_unit: "task polls + source polls",
                real: &["hydro_deploy_integration::ConnectedTagged::from_defn / into_source", "hydro_deploy_integration::MergeSource::poll_next (round robin + cursor fix-up)", "hydro_deploy_integration::TaggedSource::poll_next"],
                stubs: &["SimConn: harness type implementing Connected + ConnectedSource, picks simulated stream i from the Demux key", "SimStream (Send+Sync scripted source with reactor-style wake discipline)", "consumer task, SimExec-based executor loop with environment events"],
                assumptions: &[
                    "sampled schedules, not exhaustive; at most 4 sources with at most 6 elements each",
                    "multi_connection.rs repeats the same round-robin over real TcpListener/UnixListener and per-connection framed streams with no seam; it is NOT run (out of reach without sockets)",
                    "a blocked source wakes only the waker of its most recent poll (the Future/Stream contract); quiescence (no woken task, no outstanding environment event) with the consumer unfinished is the lost-wake-up detector",
                    "fairness is stated on outputs, for sources that answer Ready(Some) at every one of their polls: such a source appears in every window of n consecutive outputs (n = sources that had not yet returned None when the window starts), and while it waits no other source is served twice ('within one round of the others'); any round-robin policy passes, a policy that restarts at a fixed or random position does not",
                ],
                required_probes: &[
                    "source_pending_wake_now", "source_pending_blocked", "spurious_poll", "merged_pending",
                    "fixup_source_ended_before_cursor", "fixup_source_ended_at_cursor", "fixup_source_ended_after_cursor",
                    "fixup_after_wraparound", "fixup_cursor_reset_at_new_len", "source_ended_in_call_that_output",
                    "fairness_checked_on_always_ready_source", "merged_polled_after_none",
                ],
            },
        ],
    };
    simcore::runner::main(engine);
}
