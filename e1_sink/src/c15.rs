//! C15 — merged tagged network sources (DESIGN.md §5 C15).
//!
//! Real code: `hydro_deploy_integration::{ConnectedTagged, MergeSource, TaggedSource}` reached
//! through the public `ConnectedTagged::<SimConn>::from_defn(Connection::AsClient(Merge([Tagged(
//! Box(Demux({i: Null})), tag_i) ...])))` route (also the `AsServer(AcceptedServer::Merge)` and the
//! single `Tagged` variants). `SimConn` is the harness type implementing `Connected +
//! ConnectedSource`; its `from_defn` reads `i` from the `Demux` key and picks simulated stream `i`
//! from a per-thread registry. No sockets are touched.
//!
//! Stubs: `SimStream` (Send + Sync; a pre-drawn per-poll script of go / pending-wake-now /
//! pending-blocked-until-an-environment-event steps), the consumer task, the executor loop.

use std::cell::RefCell;
use std::collections::{BTreeMap, BTreeSet};
use std::io;
use std::pin::Pin;
use std::sync::{Arc, Mutex};
use std::task::{Context, Poll, Waker};

use futures::Stream;
use hydro_deploy_integration::{
    AcceptedServer, ClientConnection, Connected, ConnectedSource, ConnectedTagged, Connection,
};
use simcore::exec::SimExec;
use simcore::{Outcome, Sim, SimCell, Violation};

use crate::util::{YieldN, add_faults, add_probes};

/// One element a simulated source produces: `Ok(val)` or `Err(os error code = val)`.
#[derive(Clone, Copy, Debug, PartialEq)]
struct Elem {
    err: bool,
    val: u32,
}

struct SrcSt {
    tag: u32,
    items: Vec<Elem>,
    /// index of the next element to hand out
    next: usize,
    /// how many of `items` the merged stream has output (oracle side)
    delivered: usize,
    /// per-poll script: 0 = answer (next item, or None when exhausted), 1 = Pending + immediate
    /// wake, 2 = Pending and blocked until the environment fires this source's event
    script: Vec<u8>,
    pos: usize,
    blocked: bool,
    waker: Option<Waker>,
    ended_seen: bool,
    always_ready: bool,
}

#[derive(Default)]
struct MInner {
    srcs: Vec<SrcSt>,
    /// blocked sources whose environment event has not fired yet
    pending: BTreeSet<usize>,
    /// (source, what it answered) for every source poll of the current `poll_next` call
    call_polls: Vec<(usize, u8)>,
    /// item handed out by a source during the current call (source, elem)
    call_yield: Vec<(usize, Elem)>,
    polls_after_end: u64,
    n_pend_now: u64,
    n_pend_blocked: u64,
    n_repoll_blocked: u64,
    n_src_polls: u64,
}

struct MWorld {
    inner: Mutex<MInner>,
}

thread_local! {
    static REG: RefCell<Option<Arc<MWorld>>> = const { RefCell::new(None) };
}

const A_ITEM: u8 = 0;
const A_NONE: u8 = 1;
const A_PENDING: u8 = 2;

/// Simulated network source `idx`.
pub struct SimStream {
    idx: usize,
    w: Arc<MWorld>,
}

impl Stream for SimStream {
    type Item = Result<u32, io::Error>;
    fn poll_next(self: Pin<&mut Self>, cx: &mut Context<'_>) -> Poll<Option<Self::Item>> {
        let idx = self.idx;
        let mut guard = self.w.inner.lock().unwrap();
        let i = &mut *guard;
        i.n_src_polls += 1;
        let s = &mut i.srcs[idx];
        if s.ended_seen {
            i.polls_after_end += 1;
            i.call_polls.push((idx, A_NONE));
            return Poll::Ready(None);
        }
        if s.blocked {
            s.waker = Some(cx.waker().clone());
            i.n_repoll_blocked += 1;
            i.call_polls.push((idx, A_PENDING));
            return Poll::Pending;
        }
        let step = s.script.get(s.pos).copied().unwrap_or(0);
        s.pos += 1;
        match step {
            0 => {
                if s.next < s.items.len() {
                    let e = s.items[s.next];
                    s.next += 1;
                    i.call_polls.push((idx, A_ITEM));
                    i.call_yield.push((idx, e));
                    Poll::Ready(Some(if e.err { Err(io::Error::from_raw_os_error(e.val as i32)) } else { Ok(e.val) }))
                } else {
                    s.ended_seen = true;
                    i.call_polls.push((idx, A_NONE));
                    Poll::Ready(None)
                }
            }
            1 => {
                i.n_pend_now += 1;
                i.call_polls.push((idx, A_PENDING));
                cx.waker().wake_by_ref();
                Poll::Pending
            }
            _ => {
                s.blocked = true;
                s.waker = Some(cx.waker().clone());
                i.pending.insert(idx);
                i.n_pend_blocked += 1;
                i.call_polls.push((idx, A_PENDING));
                Poll::Pending
            }
        }
    }
}

/// The harness' connection type: `from_defn` picks simulated stream `i` (the single `Demux` key).
pub struct SimConn(SimStream);

impl Connected for SimConn {
    fn from_defn(pipe: Connection) -> Self {
        let key = match pipe {
            Connection::AsClient(ClientConnection::Demux(m)) => m.keys().next().copied(),
            Connection::AsServer(AcceptedServer::Demux(m)) => m.keys().next().copied(),
            _ => None,
        };
        let key = key.expect("SimConn::from_defn: expected Demux({i: Null})");
        let w = REG.with(|r| r.borrow().clone()).expect("SimConn::from_defn: no world registered");
        SimConn(SimStream { idx: key as usize, w })
    }
}
impl ConnectedSource for SimConn {
    type Output = u32;
    type Stream = SimStream;
    fn into_source(self) -> SimStream {
        self.0
    }
}

type Merged = <ConnectedTagged<SimConn> as ConnectedSource>::Stream;

/// Oracle-side state of one run.
#[derive(Default)]
struct Model {
    viols: Vec<Violation>,
    /// (source, live sources before the call) per output of the merged stream
    outputs: Vec<(usize, usize)>,
    /// mirror of the merge's source order (only used to classify reach probes, never by an oracle)
    live_order: Vec<usize>,
    saw_none: bool,
    calls: u64,
    probes: BTreeMap<&'static str, u64>,
    polls_after_none: u64,
}
impl Model {
    fn viol(&mut self, class: &str, detail: String) {
        self.viols.push(Violation::new(format!("merge/{class}"), detail));
    }
    fn probe(&mut self, p: &'static str) {
        *self.probes.entry(p).or_default() += 1;
    }
}

fn val_to_src(val: u32) -> (usize, usize) {
    ((val / 100) as usize, (val % 100) as usize)
}

/// Everything the oracle checks about one `poll_next` call of the merged stream.
fn after_call(
    w: &MWorld,
    m: &mut Model,
    sim: &mut Sim,
    live_before: &[usize],
    r: &Poll<Option<Result<(u32, u32), io::Error>>>,
    after_none: bool,
) {
    let mut i = w.inner.lock().unwrap();
    let polls = std::mem::take(&mut i.call_polls);
    let yields = std::mem::take(&mut i.call_yield);
    m.calls += 1;
    // ---- event log (feeds the determinism hash)
    let rcode = match r {
        Poll::Pending => 1u64,
        Poll::Ready(None) => 2,
        Poll::Ready(Some(Ok((t, v)))) => 0x1_0000 + (*t as u64) * 0x1_0000 + *v as u64,
        Poll::Ready(Some(Err(e))) => 0x8000_0000 + e.raw_os_error().unwrap_or(0) as u64,
    };
    let mut pc = 0u64;
    for (s, a) in &polls {
        pc = pc.wrapping_mul(31).wrapping_add(*s as u64 * 4 + *a as u64 + 1);
    }
    sim.event(rcode ^ (pc << 33), || {
        let ps: Vec<String> = polls
            .iter()
            .map(|(s, a)| format!("S{s}:{}", match *a { A_ITEM => "item", A_NONE => "None", _ => "Pending" }))
            .collect();
        format!("merged.poll_next polled [{}] -> {:?}", ps.join(" "), r)
    });

    // ---- within one call no source is polled twice
    let mut seen = BTreeSet::new();
    for (s, _) in &polls {
        if !seen.insert(*s) {
            m.viol("source_polled_twice_in_one_call", format!("call #{}: source S{s} polled twice within one poll_next (polls {:?})", m.calls, polls));
        }
    }
    if after_none {
        m.polls_after_none += 1;
        if !matches!(r, Poll::Ready(None)) {
            m.viol("item_after_end", format!("poll_next after the merged stream returned None gave {r:?}"));
        }
        return;
    }
    // ---- a call that returns Pending / None polled every live source
    if !matches!(r, Poll::Ready(Some(_))) {
        for s in live_before {
            if !seen.contains(s) {
                let ready = {
                    let st = &i.srcs[*s];
                    !st.blocked && st.script.get(st.pos).copied().unwrap_or(0) == 0
                };
                m.viol(
                    "live_source_not_polled",
                    format!("call #{} returned {:?} without polling live source S{s} (which {} answer next) — polls {:?}", m.calls, r, if ready { "would" } else { "might" }, polls),
                );
            }
        }
    }
    // ---- an element handed out by a source in this call is exactly what the call returns
    let out_elem: Option<(Option<u32>, Elem)> = match r {
        Poll::Ready(Some(Ok((t, v)))) => Some((Some(*t), Elem { err: false, val: *v })),
        Poll::Ready(Some(Err(e))) => Some((None, Elem { err: true, val: e.raw_os_error().unwrap_or(-1) as u32 })),
        _ => None,
    };
    let mut matched = false;
    for (s, e) in &yields {
        if !matched && out_elem.map(|o| o.1) == Some(*e) {
            matched = true;
        } else {
            m.viol("lost_item", format!("call #{}: source S{s} handed out {e:?} but the merged stream returned {r:?}", m.calls));
        }
    }
    if let Some((tag, e)) = out_elem {
        let (s, k) = val_to_src(e.val);
        if s >= i.srcs.len() || k >= i.srcs[s].items.len() || i.srcs[s].items[k] != e {
            m.viol("phantom_item", format!("merged stream produced {e:?} which no source holds"));
        } else {
            let st = &mut i.srcs[s];
            if let Some(t) = tag {
                if t != st.tag {
                    m.viol("wrong_tag", format!("item {} of source S{s} (tag {}) came out tagged {t}", e.val, st.tag));
                }
            }
            if k < st.delivered {
                m.viol("duplicate_item", format!("item {} of S{s} delivered twice", e.val));
            } else if k > st.delivered {
                m.viol("per_source_order", format!("S{s}: got element #{k} while #{} is next (skipped or reordered)", st.delivered));
                st.delivered = k + 1;
            } else {
                st.delivered += 1;
            }
            if !matched {
                m.viol("duplicate_item", format!("merged stream returned {e:?} which no source handed out in this call"));
            }
            m.outputs.push((s, live_before.len()));
        }
    }
    // ---- end exactly when every source has ended
    let all_ended = i.srcs.iter().all(|s| s.ended_seen);
    match r {
        Poll::Ready(None) => {
            m.saw_none = true;
            if !all_ended {
                let live: Vec<usize> = (0..i.srcs.len()).filter(|s| !i.srcs[*s].ended_seen).collect();
                m.viol("none_while_source_live", format!("merged stream returned None while sources {live:?} have not ended"));
            }
            for (s, st) in i.srcs.iter().enumerate() {
                if st.delivered < st.items.len() && st.ended_seen {
                    m.viol("lost_item", format!("merged stream ended but S{s} delivered only {} of {} elements", st.delivered, st.items.len()));
                }
            }
        }
        Poll::Pending => {
            if all_ended {
                m.viol("pending_after_all_ended", "every source has returned None but the merged stream answered Pending".into());
            }
        }
        _ => {}
    }

    // ---- reach probes for the cursor fix-up (mirror of the source vector; not an oracle)
    let n = m.live_order.len();
    if n > 0 && !polls.is_empty() && polls.iter().all(|(s, _)| m.live_order.contains(s)) {
        let pos: Vec<usize> = polls.iter().map(|(s, _)| m.live_order.iter().position(|x| x == s).unwrap()).collect();
        let final_cursor = (pos[pos.len() - 1] + 1) % n;
        let wrapped = pos.windows(2).any(|w| w[1] < w[0]);
        let mut removed_before = 0;
        let mut any = false;
        for ((s, a), p) in polls.iter().zip(pos.iter()) {
            let _ = s;
            if *a == A_NONE {
                any = true;
                if *p < final_cursor {
                    removed_before += 1;
                    m.probe("fixup_source_ended_before_cursor");
                } else if *p == final_cursor {
                    m.probe("fixup_source_ended_at_cursor");
                } else {
                    m.probe("fixup_source_ended_after_cursor");
                }
                if wrapped {
                    m.probe("fixup_after_wraparound");
                }
            }
        }
        if any {
            let ended: Vec<usize> = polls.iter().filter(|(_, a)| *a == A_NONE).map(|(s, _)| *s).collect();
            m.live_order.retain(|s| !ended.contains(s));
            let new_len = m.live_order.len();
            if new_len > 0 && final_cursor - removed_before == new_len {
                m.probe("fixup_cursor_reset_at_new_len");
            }
            if matches!(r, Poll::Ready(Some(_))) {
                m.probe("source_ended_in_call_that_output");
            }
            if ended.len() > 1 {
                m.probe("several_sources_ended_in_one_call");
            }
        }
        if matches!(r, Poll::Pending) {
            m.probe("merged_pending");
        }
    }
}

pub fn run(sim: &mut Sim) -> Outcome {
    // ---- knobs
    let n = sim.choose("n_sources", 1, 4) as usize;
    let route = sim.choose("route", 0, 1);
    let single_tagged = n == 1 && sim.flip("single_tagged", 1, 2);
    let pend_w = *sim.pick("pend_weight", &[0u64, 1, 3, 8]);
    let spurious_pct = *sim.pick("spurious_pct", &[0u64, 0, 10, 30]);
    let err_items = sim.flip("err_elems", 1, 5);
    let repoll_after_none = sim.choose("repoll_after_none", 0, 2);
    let tag_base = sim.choose("tag_base", 0, 3) as u32 * 1000;
    let mut srcs = vec![];
    for s in 0..n {
        let k = sim.choose("n_items", 0, 6) as usize;
        let always = sim.flip("always_ready", 1, 3);
        let mut items = vec![];
        for j in 0..k {
            let err = err_items && sim.flip("elem_is_err", 1, 6);
            items.push(Elem { err, val: (s * 100 + j) as u32 });
        }
        let mut script = vec![];
        if !always && pend_w > 0 {
            for _ in 0..(k + 3) {
                script.push(sim.weighted("src_step", &[8, pend_w, pend_w]) as u8);
            }
        }
        let always_ready = script.iter().all(|x| *x == 0);
        srcs.push(SrcSt {
            // distinct tags that are not the source index
            tag: tag_base + 7 * (n - s) as u32 + 1,
            items,
            next: 0,
            delivered: 0,
            script,
            pos: 0,
            blocked: false,
            waker: None,
            ended_seen: false,
            always_ready,
        });
    }
    let total_items: usize = srcs.iter().map(|s| s.items.len()).sum();
    let tags: Vec<u32> = srcs.iter().map(|s| s.tag).collect();
    let world = Arc::new(MWorld { inner: Mutex::new(MInner { srcs, ..Default::default() }) });
    REG.with(|r| *r.borrow_mut() = Some(world.clone()));
    // ---- the public route into MergeSource + TaggedSource
    let null = |i: usize| BTreeMap::from([(i as u32, ClientConnection::Null)]);
    let snull = |i: usize| BTreeMap::from([(i as u32, AcceptedServer::Null)]);
    let conn = match (route, single_tagged) {
        (0, true) => Connection::AsClient(ClientConnection::Tagged(Box::new(ClientConnection::Demux(null(0))), tags[0])),
        (_, true) => Connection::AsServer(AcceptedServer::Tagged(Box::new(AcceptedServer::Demux(snull(0))), tags[0])),
        (0, false) => Connection::AsClient(ClientConnection::Merge(
            (0..n).map(|i| ClientConnection::Tagged(Box::new(ClientConnection::Demux(null(i))), tags[i])).collect(),
        )),
        (_, false) => Connection::AsServer(AcceptedServer::Merge(
            (0..n).map(|i| AcceptedServer::Tagged(Box::new(AcceptedServer::Demux(snull(i))), tags[i])).collect(),
        )),
    };
    let merged: Merged = ConnectedTagged::<SimConn>::from_defn(conn).into_source();
    REG.with(|r| *r.borrow_mut() = None);
    let mut merged: Pin<Box<Merged>> = Box::pin(merged);

    let model = RefCell::new(Model { live_order: (0..n).collect(), ..Default::default() });
    let simc: SimCell<'_> = RefCell::new(sim);
    let mut quiescent_parked = false;
    let mut step_cap = false;
    let steps;
    {
        let w = &*world;
        let model = &model;
        let simc = &simc;
        let mut ex = SimExec::new();
        ex.spawn(async move {
            let mut ended = false;
            let mut extra = repoll_after_none;
            loop {
                let y = simc.borrow_mut().choose("consumer_yield", 0, 1) as u32;
                YieldN(y).await;
                let after_none = ended;
                let r = std::future::poll_fn(|cx| {
                    let live: Vec<usize> = {
                        let i = w.inner.lock().unwrap();
                        (0..i.srcs.len()).filter(|s| !i.srcs[*s].ended_seen).collect()
                    };
                    let r = merged.as_mut().poll_next(cx);
                    let mut sim = simc.borrow_mut();
                    after_call(w, &mut model.borrow_mut(), &mut sim, &live, &r, after_none);
                    r
                })
                .await;
                if ended {
                    if r.is_some() {
                        break;
                    }
                    extra -= 1;
                    if extra == 0 {
                        break;
                    }
                    continue;
                }
                if r.is_none() {
                    ended = true;
                    if extra == 0 {
                        break;
                    }
                }
                if model.borrow().viols.len() > 8 {
                    break;
                }
            }
        });
        // ---- executor loop: woken tasks, environment events (unblocking a source), spurious polls
        loop {
            if ex.all_done() {
                break;
            }
            if ex.steps >= 2000 {
                step_cap = true;
                break;
            }
            let woken = ex.woken();
            let pend: Vec<usize> = w.inner.lock().unwrap().pending.iter().copied().collect();
            if woken.is_empty() && pend.is_empty() {
                quiescent_parked = true;
                break;
            }
            let mut sim = simc.borrow_mut();
            let parked = ex.parked();
            if !parked.is_empty() && spurious_pct > 0 && sim.flip("spurious", spurious_pct, 100) {
                sim.fault("spurious_poll");
                sim.event(0x70, || "spurious poll of the consumer".into());
                drop(sim);
                ex.poll(parked[0]);
                continue;
            }
            let k = sim.choose("act", 0, (woken.len() + pend.len() - 1) as u64) as usize;
            if k < woken.len() {
                drop(sim);
                ex.poll(woken[k]);
            } else {
                let s = pend[k - woken.len()];
                sim.event(0x80 + s as u64, || format!("env: source S{s} becomes ready (wakes its latest waker)"));
                drop(sim);
                let wk = {
                    let mut i = w.inner.lock().unwrap();
                    i.pending.remove(&s);
                    i.srcs[s].blocked = false;
                    i.srcs[s].waker.take()
                };
                if let Some(wk) = wk {
                    wk.wake();
                }
            }
        }
        steps = ex.steps;
    }
    let sim: &mut Sim = simc.into_inner();
    let mut m = model.into_inner();
    let i = world.inner.lock().unwrap();
    if quiescent_parked {
        let ready: Vec<usize> = (0..n)
            .filter(|s| {
                let st = &i.srcs[*s];
                !st.ended_seen && !st.blocked && st.script.get(st.pos).copied().unwrap_or(0) == 0
            })
            .collect();
        m.viol(
            "parked_at_quiescence",
            format!("the consumer of the merged stream is parked, nothing is scheduled to wake it; sources that would answer immediately: {ready:?}; saw None: {}", m.saw_none),
        );
    }
    // ---- fairness (stated on outputs): an always-ready source appears in every window of n
    // consecutive outputs, n = live sources when the window starts
    if m.viols.is_empty() {
        for x in 0..n {
            if !i.srcs[x].always_ready || i.srcs[x].items.is_empty() {
                continue;
            }
            let Some(last) = m.outputs.iter().rposition(|o| o.0 == x) else { continue };
            for j in 0..=last {
                let nl = m.outputs[j].1;
                if j + nl - 1 <= last && !m.outputs[j..j + nl].iter().any(|o| o.0 == x) {
                    let seq: Vec<usize> = m.outputs.iter().map(|o| o.0).collect();
                    m.viol(
                        "always_ready_source_starved",
                        format!("always-ready source S{x} is missing from outputs {j}..{} although {nl} sources were live (output order by source: {seq:?})", j + nl),
                    );
                    break;
                }
            }
            // "served within one round of the others": while X (always ready) waits, no other
            // source is served twice
            let mut since: Vec<usize> = vec![];
            for (j, o) in m.outputs[..=last].iter().enumerate() {
                if o.0 == x {
                    since.clear();
                } else if since.contains(&o.0) {
                    let seq: Vec<usize> = m.outputs.iter().map(|o| o.0).collect();
                    m.viol(
                        "source_served_twice_before_always_ready_source",
                        format!("source S{} was served twice (second time at output {j}) while always-ready source S{x} was waiting (output order by source: {seq:?})", o.0),
                    );
                    break;
                } else {
                    since.push(o.0);
                }
            }
            sim.probe("fairness_checked_on_always_ready_source");
        }
    }
    add_faults(sim, "source_pending_wake_now", i.n_pend_now);
    add_faults(sim, "source_pending_blocked", i.n_pend_blocked);
    add_probes(sim, "source_repolled_while_blocked", i.n_repoll_blocked);
    add_probes(sim, "source_polled_after_end", i.polls_after_end);
    add_probes(sim, "merged_polled_after_none", m.polls_after_none);
    for (k, v) in &m.probes {
        add_probes(sim, k, *v);
    }
    let outs: Vec<usize> = m.outputs.iter().map(|o| o.0).collect();
    sim.state(simcore::fnv_str(&format!("{outs:?}{}", m.saw_none)));
    let sim_time = steps + i.n_src_polls;
    let violation = m.viols.into_iter().next();
    if step_cap {
        sim.probe("step_cap");
        return Outcome { violation, nontrivial: false, sim_time, discarded: true };
    }
    let nontrivial = total_items > 0 && !outs.is_empty() && sim.nonbenign > 0;
    Outcome { violation, nontrivial, sim_time, discarded: false }
}
