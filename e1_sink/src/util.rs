//! Small helpers shared by the C14 and C15 harnesses.
use std::future::Future;
use std::pin::Pin;
use std::task::{Context, Poll};

use simcore::Sim;

/// Yield to the executor `n` times (wakes itself): lets other tasks / environment events interleave.
pub struct YieldN(pub u32);
impl Future for YieldN {
    type Output = ();
    fn poll(mut self: Pin<&mut Self>, cx: &mut Context<'_>) -> Poll<()> {
        if self.0 == 0 {
            Poll::Ready(())
        } else {
            self.0 -= 1;
            cx.waker().wake_by_ref();
            Poll::Pending
        }
    }
}

fn bump(v: &mut Vec<(&'static str, u64)>, name: &'static str, n: u64) {
    for e in v.iter_mut() {
        if e.0 == name {
            e.1 += n;
            return;
        }
    }
    v.push((name, n));
}

/// Count `n` fired faults of kind `name` (stubs count locally; merged into the `Sim` at run end).
pub fn add_faults(sim: &mut Sim, name: &'static str, n: u64) {
    if n > 0 {
        sim.nonbenign += n;
        bump(&mut sim.faults, name, n);
    }
}
pub fn add_probes(sim: &mut Sim, name: &'static str, n: u64) {
    if n > 0 {
        bump(&mut sim.probes, name, n);
    }
}
