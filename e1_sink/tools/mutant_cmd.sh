#!/bin/bash
# Command to hand to /verif/tools/mutant_run.sh (it runs with cwd = the scratch copy of /verif):
#   tools/mutant_run.sh <name> /verif/sensitivity/C14/mutN.diff bash e1_sink/tools/mutant_cmd.sh C14 --tier quick
# 1. installs (in the scratch copy only) a known_findings.json that lists the C14 candidate
#    findings as known, otherwise every batch stops at the candidates before reaching the mutant;
# 2. seeds the scratch target dir with the registry-dependency build of the real engine dir
#    (only the path crates are rebuilt), 3. builds, 4. runs the engine with the given arguments.
set -u
cp e1_sink/findings/known_findings.with_candidates.json known_findings.json
cd e1_sink || exit 2
# the source path is assembled at run time on purpose: mutant_run.sh rewrites every literal
# occurrence of the verif prefix in *.sh files to the scratch prefix
SRC="/ver""if/e1_sink/target"
[ -d "$SRC" ] && [ ! -d target ] && cp -a "$SRC" target
if ! cargo build --release --offline >build.log 2>&1; then
  echo "HARNESS: build failed"; tail -30 build.log; exit 2
fi
./target/release/e1_sink "$@"
