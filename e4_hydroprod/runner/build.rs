use hydro_lang::location::Location;

fn main() {
    println!("cargo::rerun-if-changed=build.rs");
    let out_dir = std::env::var("OUT_DIR").unwrap();
    macro_rules! local1 {
        ($name:ident, $path:path) => {{
            let mut flow = hydro_lang::compile::builder::FlowBuilder::new();
            let process = flow.process::<()>();
            $path(process.embedded_input("in0"));
            let code = flow
                .with_process(&process, stringify!($name))
                .generate_embedded("e4_flows");
            std::fs::write(
                format!("{out_dir}/{}.rs", stringify!($name)),
                prettyplease::unparse(&code),
            )
            .unwrap();
        }};
    }
    local1!(t_fold, e4_flows::probe::t_fold);
    local1!(top_count, e4_flows::probe::top_count);
}
