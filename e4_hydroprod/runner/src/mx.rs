//! Matrix-composer entries (crate `matrixdef`; generated code in `e4_genm0..5`): oracles.
//!
//! Every entry is (operator family) x (location kind / batch source) x (input typing) x
//! (pre-stage). The plain-Rust list semantics of the operator (`matrixdef::spec::apply`) is
//! *lifted* to the context:
//!   * `Final`      top level / atomic region: accumulated stream output (last snapshot) ==
//!                  op(whole input), equal across schedules (C28/C29 oracle);
//!   * `Static`     bounded top-level collection: op(static data), emitted exactly once however
//!                  many ticks run;
//!   * `PerTick`    tick programs: output of tick t == op(batch released at t - shift) (shift 1 for
//!                  `defer_tick` / `Tick::cycle`, 2 for cycle + defer) (C30/C29 oracle);
//!   * `Cumulative` `across_ticks`: tick t emits what op(prefix_t) adds to op(prefix_{t-1}),
//!                  snapshots equal op(prefix_t).
//! For C32 the input is additionally transformed by what its typing admits.

use std::sync::OnceLock;

use e4_gen::io::{EagerNet, Exec, Plan};
use e4_gen::val::{Val, sorted, vi, vt2};
use matrixdef::spec::{self, Item, Out};
use matrixdef::{Cmp, Ctx, Lift, MEntry, Typ};
use simcore::{Outcome, Sim, Violation};
use simio::ExecFn;

use crate::p32::{self, Adm};
use crate::sched::{self, Shape};

pub struct Mx {
    pub e: MEntry,
    pub name: &'static str,
    pub exec: ExecFn,
    pub cmp: Cmp,
    pub out_alo: bool,
    pub out_ordered: bool,
    pub trusted_site: bool,
}

pub fn all() -> &'static [Mx] {
    static ALL: OnceLock<Vec<Mx>> = OnceLock::new();
    ALL.get_or_init(|| {
        let seed = e4_genm0::glue::MATRIX_SEED;
        let mut table: Vec<(&str, ExecFn)> = vec![];
        table.extend_from_slice(e4_genm0::glue::MATRIX);
        table.extend_from_slice(e4_genm1::glue::MATRIX);
        table.extend_from_slice(e4_genm2::glue::MATRIX);
        table.extend_from_slice(e4_genm3::glue::MATRIX);
        table.extend_from_slice(e4_genm4::glue::MATRIX);
        table.extend_from_slice(e4_genm5::glue::MATRIX);
        matrixdef::entries(seed)
            .into_iter()
            .map(|e| {
                let (name, exec) = *table.iter().find(|t| t.0 == e.name).unwrap_or_else(|| panic!("harness: matrix entry {} has no generated code (seed mismatch?)", e.name));
                let d = matrixdef::derive(&e);
                let op = matrixdef::op_by_name(e.op);
                Mx { name, exec, cmp: d.cmp, out_alo: d.out_alo && matches!(op.kind, matrixdef::Kind::S | matrixdef::Kind::P), out_ordered: d.out_ordered, trusted_site: op.trusted_site, e }
            })
            .collect()
    })
}

pub fn describe(m: &Mx) -> String {
    format!("operator {} {}in context {:?}, input typed {:?}", m.e.op, m.e.pre.map(|p| format!("after {p} ")).unwrap_or_default(), m.e.ctx, m.e.typ)
}

fn item_val(i: &Item) -> Val {
    match i {
        Item::I(x) => vi(*x),
        Item::P(a, b) => vt2(vi(*a), vi(*b)),
        Item::KV(k, vs) => vt2(vi(*k), Val::L(vs.iter().map(|v| vi(*v)).collect())),
        Item::L(vs) => Val::L(vs.iter().map(|v| vi(*v)).collect()),
        Item::B(b) => Val::B(*b),
    }
}
fn ints(xs: &[Val]) -> Vec<i64> {
    xs.iter().map(|v| v.int()).collect()
}
/// reference result of the entry's (pre-stage +) operator on a list
pub fn op_out(m: &Mx, xs: &[i64]) -> Out {
    let ys = match m.e.pre {
        Some(p) => spec::pre_apply(p, xs),
        None => xs.to_vec(),
    };
    spec::apply(m.e.op, &ys)
}
fn vals(o: &Out) -> Vec<Val> {
    o.items().iter().map(item_val).collect()
}
fn is_stream(o: &Out) -> bool {
    matches!(o, Out::Stream(_))
}

/// canonical form of an observed / expected list under the entry's comparison mode
fn canon(cmp: Cmp, xs: Vec<Val>) -> Vec<Val> {
    match cmp {
        Cmp::Seq | Cmp::SnapOne | Cmp::SnapOpt => xs,
        Cmp::Bag | Cmp::SnapBag => sorted(xs),
    }
}

/// what the whole run must have produced on `out0` (Final / Static lift)
fn observed_final(m: &Mx, ex: &Exec) -> Result<Vec<Val>, (String, String)> {
    match m.cmp {
        Cmp::Seq | Cmp::Bag => Ok(canon(m.cmp, ex.all(0))),
        Cmp::SnapOne => {
            let l = ex.last_tick(0);
            if l.len() != 1 {
                return Err(("snapshot_cardinality".into(), format!("singleton snapshot of the last tick holds {} values: {l:?}", l.len())));
            }
            Ok(l)
        }
        Cmp::SnapOpt => {
            let l = ex.last_tick(0);
            if l.len() > 1 {
                return Err(("snapshot_cardinality".into(), format!("optional snapshot of the last tick holds {} values: {l:?}", l.len())));
            }
            Ok(l)
        }
        Cmp::SnapBag => {
            let l = sorted(ex.last_tick(0));
            let mut keys: Vec<&Val> = l.iter().map(|e| &e.tuple()[0]).collect();
            keys.dedup();
            if keys.len() != l.len() {
                return Err(("snapshot_cardinality".into(), format!("keyed-singleton snapshot of the last tick holds a key twice: {l:?}")));
            }
            Ok(l)
        }
    }
}

/// nothing observable may change during the last `extra` ticks
fn late_change(m: &Mx, ex: &Exec, extra: usize) -> Option<String> {
    let ticks = &ex.outs[0];
    let n = ticks.len();
    if n < extra + 1 {
        return None;
    }
    for t in (n - extra)..n {
        match m.cmp {
            Cmp::Seq | Cmp::Bag => {
                if !ticks[t].is_empty() {
                    return Some(format!("out0 still emitted {:?} in tick {t} of {n}", ticks[t]));
                }
            }
            _ => {
                if sorted(ticks[t].clone()) != sorted(ticks[t - 1].clone()) {
                    return Some(format!("snapshot still changed from {:?} to {:?} in tick {t} of {n}", ticks[t - 1], ticks[t]));
                }
            }
        }
    }
    None
}

const EXTRA: usize = 3;
const DRAIN: usize = 8;

fn viol(m: &Mx, class: &str, detail: String) -> Violation {
    Violation::new(format!("{class}/{}", m.name), format!("[{}] {detail}", describe(m)))
}

/// bag / sequence difference `now - before` (what a cumulative stream adds in one tick)
fn delta(cmp: Cmp, before: &[Val], now: &[Val]) -> Vec<Val> {
    if cmp == Cmp::Seq && now.len() >= before.len() && now[..before.len()] == *before {
        return now[before.len()..].to_vec();
    }
    let mut rest = now.to_vec();
    for b in before {
        if let Some(i) = rest.iter().position(|x| x == b) {
            rest.remove(i);
        }
    }
    rest
}

/// expected per-tick outputs for `PerTick` / `Cumulative` entries, given the released batches
fn expected_ticks(m: &Mx, batches: &[Vec<Val>], total: usize) -> Vec<Vec<Val>> {
    let shift = m.e.ctx.shift();
    let mut out = vec![];
    let mut prefix: Vec<i64> = vec![];
    let mut before: Vec<Val> = vals(&op_out(m, &[]));
    for t in 0..total {
        let batch: Vec<i64> = if t >= shift { batches.get(t - shift).map(|b| ints(b)).unwrap_or_default() } else { vec![] };
        match m.e.ctx.lift() {
            Lift::PerTick => out.push(vals(&op_out(m, &batch))),
            Lift::Cumulative => {
                prefix.extend(batch);
                let o = op_out(m, &prefix);
                let now = vals(&o);
                if is_stream(&o) || m.e.op == "k_first" {
                    out.push(delta(m.cmp, &before, &now));
                } else {
                    out.push(now.clone());
                }
                before = now;
            }
            _ => unreachable!(),
        }
    }
    out
}

fn check_ticks(m: &Mx, plan: &Plan, ex: &Exec) -> Option<Violation> {
    let want = expected_ticks(m, &plan.rel[0], ex.total_ticks);
    for t in 0..ex.total_ticks {
        let g = canon(m.cmp, ex.outs[0][t].clone());
        let e = canon(m.cmp, want[t].clone());
        if g != e {
            let class = if t >= plan.steps() { "late_tick_output" } else { "tick_output" };
            return Some(viol(m, class, format!("tick {t}: output {g:?}, expected {e:?} (released batches {:?}, all outputs {:?})", plan.rel[0], ex.outs[0])));
        }
        if m.e.ctx == Ctx::TickClone {
            let raw = ex.outs[1][t].clone();
            let b = plan.rel[0].get(t).cloned().unwrap_or_default();
            if raw != b {
                return Some(viol(m, "tick_output_raw_side", format!("tick {t}: the tee'd raw batch came out as {raw:?}, released {b:?}")));
            }
        }
    }
    None
}

/// Final / Static lift: (canonical run, seeded run) -> violation
fn check_final(m: &Mx, input: &[i64], fed: &[i64], plan_b: &Plan, ex_a: &Exec, ex_b: &Exec, same_expected: bool) -> Option<Violation> {
    let xs_a: &[i64] = if m.e.ctx.lift() == Lift::Static { matrixdef::STATIC_INPUT } else { input };
    let xs_b: &[i64] = if m.e.ctx.lift() == Lift::Static { matrixdef::STATIC_INPUT } else { fed };
    let want_a = canon(m.cmp, vals(&op_out(m, xs_a)));
    let want_b = canon(m.cmp, vals(&op_out(m, xs_b)));
    for (tag, ex) in [("canonical", ex_a), ("seeded", ex_b)] {
        if let Some(d) = late_change(m, ex, EXTRA) {
            return Some(viol(m, "liveness", format!("{tag} schedule (releases {:?}): {d} although {DRAIN} empty ticks have passed since the last release", plan_b.rel)));
        }
    }
    let a = match observed_final(m, ex_a) {
        Ok(a) => a,
        Err((c, d)) => return Some(viol(m, &c, format!("canonical schedule: {d}"))),
    };
    let b = match observed_final(m, ex_b) {
        Ok(b) => b,
        Err((c, d)) => return Some(viol(m, &c, format!("releases {:?}: {d}", plan_b.rel))),
    };
    if same_expected && a != b {
        let class = if m.cmp == Cmp::Seq { "sequence_differs" } else { "final_differs" };
        return Some(viol(m, class, format!("input {input:?}: all-at-once gives {a:?}, fed as {fed:?} with releases {:?} gives {b:?}", plan_b.rel)));
    }
    if a != want_a {
        return Some(viol(m, "final_vs_spec", format!("input {xs_a:?} all-at-once: got {a:?}, spec says {want_a:?}")));
    }
    if b != want_b {
        return Some(viol(m, "final_vs_spec", format!("input {xs_b:?} with releases {:?}: got {b:?}, spec says {want_b:?}", plan_b.rel)));
    }
    if m.e.ctx == Ctx::TopClone {
        let raw = ex_b.all(1);
        if ints(&raw) != fed {
            return Some(viol(m, "final_raw_side", format!("the tee'd raw input came out as {raw:?}, fed {fed:?}")));
        }
    }
    None
}

fn to_vals(xs: &[i64]) -> Vec<Val> {
    xs.iter().map(|x| vi(*x)).collect()
}

/// What the entry's input typing admits (C32 schedules).
fn adm(t: Typ) -> Adm {
    match t {
        Typ::ToEo => Adm { perm: false, dup: false, ileave: false },
        Typ::NoEo => Adm { perm: true, dup: false, ileave: false },
        Typ::ToAlo => Adm { perm: false, dup: true, ileave: false },
        Typ::NoAlo => Adm { perm: true, dup: true, ileave: false },
    }
}

/// One run of a matrix entry. `transform`: additionally apply the permutation / duplication the
/// input typing admits (C32); otherwise only the tick partition is seeded (C28/C29/C30).
pub fn run(idx: usize, transform: bool, sim: &mut Sim) -> Outcome {
    let m = &all()[idx];
    let knobs = sched::draw_knobs(sim, 10);
    let input_v = sched::gen_input(sim, Shape::Int, &knobs);
    let (fed_v, changed) = if transform { p32::transform(sim, &input_v, adm(m.e.typ)) } else { (input_v.clone(), false) };
    let input = ints(&input_v);
    let fed = ints(&fed_v);
    let items = fed.len();
    let lift = m.e.ctx.lift();
    sim.event(0x4D00 + items as u64, || format!("matrix entry {}: {}; input {:?} fed as {:?}", m.name, describe(m), input, fed));
    match lift {
        Lift::PerTick | Lift::Cumulative => {
            let extra = 3 + sim.choose("extra_ticks", 0, 2) as usize;
            let (plan, noncanon) = sched::partition(sim, &[fed_v.clone()], &knobs, 0, extra);
            let ex = (m.exec)(&plan, &mut EagerNet::default());
            sim.event(crate::hash_vals(&ex.outs), || format!("releases {:?} per-tick outputs {:?}", plan.rel, ex.outs));
            sim.state(crate::hash_vals(&ex.outs));
            let violation = check_ticks(m, &plan, &ex);
            if plan.rel[0].iter().filter(|b| !b.is_empty()).count() >= 2 {
                sim.probe("two_nonempty_batches");
                // a value / key of an earlier batch shows up again in a later one
                let nonempty: Vec<&Vec<Val>> = plan.rel[0].iter().filter(|b| !b.is_empty()).collect();
                if nonempty.iter().enumerate().any(|(i, b)| nonempty[..i].iter().any(|p| p.iter().any(|x| b.contains(x)))) {
                    sim.probe("value_recurs_in_later_batch");
                }
            }
            Outcome { violation, nontrivial: items > 0 && (noncanon || changed), sim_time: ex.total_ticks as u64, discarded: false }
        }
        Lift::Final | Lift::Static => {
            let plan_a = Plan::canonical(&[input_v.clone()], DRAIN, EXTRA);
            let (plan_b, noncanon) = sched::partition(sim, &[fed_v.clone()], &knobs, DRAIN, EXTRA);
            let ex_a = (m.exec)(&plan_a, &mut EagerNet::default());
            let ex_b = (m.exec)(&plan_b, &mut EagerNet::default());
            sim.event(crate::hash_vals(&ex_b.outs), || format!("all-at-once outputs {:?}; releases {:?} outputs {:?}", ex_a.outs, plan_b.rel, ex_b.outs));
            sim.state(crate::hash_vals(&ex_b.outs));
            // an output typed AtLeastOnce legitimately carries the injected duplicates
            let same_expected = !(transform && m.out_alo);
            let violation = check_final(m, &input, &fed, &plan_b, &ex_a, &ex_b, same_expected);
            if plan_b.rel[0].iter().filter(|b| !b.is_empty()).count() >= 2 {
                sim.probe("two_nonempty_batches");
            }
            Outcome { violation, nontrivial: (items > 0 || lift == Lift::Static) && (noncanon || changed), sim_time: (ex_a.total_ticks + ex_b.total_ticks) as u64, discarded: false }
        }
    }
}

// ---- membership ------------------------------------------------------------------------------
pub fn in_c28(m: &Mx) -> bool {
    matches!(m.e.ctx.lift(), Lift::Final | Lift::Static)
}
pub fn in_c30(m: &Mx) -> bool {
    matches!(m.e.ctx.lift(), Lift::PerTick | Lift::Cumulative)
}
/// totally ordered output, or a keyed operator whose per-key order is observable
pub fn in_c29(m: &Mx) -> bool {
    (m.cmp == Cmp::Seq && m.out_ordered && matches!(matrixdef::op_by_name(m.e.op).kind, matrixdef::Kind::S | matrixdef::Kind::P))
        || matches!(m.e.op, "k_vec" | "k_scan" | "k_fold_ord" | "k_reduce_ord" | "k_first" | "fold_ord" | "reduce_ord" | "first" | "last" | "collect_vec")
}
/// weakly typed input, or a trusted call site / an operator that consumes a weak type
pub fn in_c32(m: &Mx) -> bool {
    m.e.typ != Typ::ToEo || m.trusted_site
}
