//! Multi-location corpus entries (specs + metadata); the glue lives in `e4_gen::netglue`.

use e4_gen::netglue::*;
use e4_gen::val::{Val, ints, pairs, sorted, vi, vints, vp, vt2};

use crate::corpus::{Entry, OutKind};
use crate::sched::Shape;

// ---- specs -----------------------------------------------------------------------------------
type I = [Vec<Val>];
type O = Vec<Vec<Val>>;
fn f_hop(i: &I) -> O {
    vec![ints(&i[0]).into_iter().enumerate().map(|(n, x)| vp(n as i64, x + 1)).collect()]
}
fn f_hop_fold(i: &I) -> O {
    vec![vec![vi(crate::p28::ordfold(&ints(&i[0])))]]
}
fn f_hop_count(i: &I) -> O {
    vec![vec![vi(i[0].len() as i64)]]
}
fn f_lossy(i: &I) -> O {
    let mut acc: i32 = 0;
    for x in ints(&i[0]) {
        acc = acc.wrapping_add((x as i32).wrapping_mul(x as i32));
    }
    vec![sorted(i[0].clone()), vec![vi(acc as i64)]]
}
fn f_roundtrip(i: &I) -> O {
    vec![vints(crate::p28::running(&ints(&i[0])))]
}
fn f_fanin(i: &I) -> O {
    vec![sorted(ints(&i[0]).into_iter().map(|x| vp(0, x)).chain(ints(&i[1]).into_iter().map(|x| vp(1, x))).collect())]
}
fn f_m2o(i: &I) -> O {
    let mut out = vec![];
    for (m, xs) in i.iter().enumerate() {
        if !xs.is_empty() {
            out.push(vt2(vi(m as i64), Val::L(xs.clone())));
        }
    }
    vec![sorted(out)]
}
fn f_o2m(i: &I) -> O {
    let rows = pairs(&i[0]);
    (0..2)
        .map(|m| rows.iter().filter(|(k, _)| k % 2 == m).enumerate().map(|(n, (_, v))| vp(n as i64, *v)).collect())
        .collect()
}

macro_rules! e {
    ($c:ident, $name:ident, $x:ident, $ins:expr, $kinds:expr, $spec:ident, $hops:expr, $locs:expr) => {
        pub const $c: Entry = Entry {
            name: stringify!($name),
            inputs: $ins,
            outs: $kinds,
            exec: $x,
            final_spec: Some($spec),
            tick_spec: None,
            hops: $hops,
            locs: $locs,
        };
    };
}
e!(N_HOP, n_hop, x_n_hop, &[Shape::Int], &[OutKind::Seq], f_hop, 1, 2);
e!(N_HOP_FOLD, n_hop_fold, x_n_hop_fold, &[Shape::Int], &[OutKind::SnapOne], f_hop_fold, 1, 2);
e!(N_HOP_COUNT, n_hop_count, x_n_hop_count, &[Shape::Int], &[OutKind::SnapOne], f_hop_count, 1, 2);
e!(N_LOSSY, n_lossy, x_n_lossy, &[Shape::Int], &[OutKind::Bag, OutKind::SnapOne], f_lossy, 1, 2);
e!(N_ROUNDTRIP, n_roundtrip, x_n_roundtrip, &[Shape::Int], &[OutKind::Seq], f_roundtrip, 2, 2);
e!(N_FANIN, n_fanin, x_n_fanin, &[Shape::Int, Shape::Int], &[OutKind::Bag], f_fanin, 1, 3);
e!(N_M2O, n_m2o, x_n_m2o, &[Shape::Int, Shape::Int], &[OutKind::SnapBag], f_m2o, 1, 3);
e!(N_O2M, n_o2m, x_n_o2m, &[Shape::Kv], &[OutKind::Seq, OutKind::Seq], f_o2m, 1, 3);
