//! C39o — not a registered property check: documents the candidate finding of FINDINGS.md.
//! `collect_quorum_with_response` returns a stream typed with the input's ordering (TotalOrder for
//! a TotalOrder input), but the relative order of *different keys* in it depends on how the
//! responses were batched into ticks (a key's buffered responses are released when the key
//! reaches its quorum).

use simcore::{Outcome, Sim};

use crate::corpus::Entry;
use crate::p39p;

pub const ENTRIES: &[Entry] = &[p39p::Q_RESP_22];

pub fn run(entry: &Entry, sim: &mut Sim) -> Outcome {
    p39p::STRICT_ORDER.with(|c| c.set(true));
    let o = p39p::run(entry, sim);
    p39p::STRICT_ORDER.with(|c| c.set(false));
    o
}
