//! C33 — monotonicity / bounded-value annotations are truthful across per-tick snapshots.
//!
//! Each entry produces a collection whose *type* promises monotone growth; the trailing
//! observation shim snapshots it every tick. The oracle walks the per-tick history:
//! keys present at tick t are present at every later tick, monotone values never decrease,
//! a bounded value, once present, never changes.

use e4_gen::io::SimNet;
use e4_gen::val::{Val, sorted};
use simcore::{Outcome, Sim, Violation};

use crate::corpus::Entry;
use crate::p28;
use crate::sched;

#[derive(Clone, Copy, Debug, PartialEq)]
pub enum Promise {
    /// `Singleton<_, _, Monotonic>` (e.g. `count()`): the value never decreases
    NonDecreasing,
    /// keyed singleton, `Unbounded`/`MonotonicKeys`: entries may be added or changed, never removed
    KeysStay,
    /// `MonotonicValue` (e.g. `value_counts()`): keys stay, every key's value never decreases
    KeysStayValuesGrow,
    /// `BoundedValue` (e.g. keyed `first()`), observed as a map: keys stay, values never change
    MapKeysStayValuesFixed,
}

pub const ENTRIES: &[Entry] = &[
    p28::S_COUNT,
    p28::S_UNIQUE_COUNT,
    p28::S_CROSS_COUNT,
    p28::S_VALUE_COUNTS,
    p28::S_KEYED_FOLD,
    p28::S_KEYED_VEC,
    crate::p32::KS_INTO_SINGLETON_BV,
    crate::p32::W_COUNT_TOP,
    crate::p32::K_VALUE_COUNTS_TOP,
    crate::net::N_HOP_COUNT,
    crate::net::N_M2O,
];

pub fn promise(name: &str) -> Promise {
    match name {
        "s_count" | "s_unique_count" | "s_cross_count" | "w_count_top" | "n_hop_count" => Promise::NonDecreasing,
        "s_value_counts" | "k_value_counts_top" => Promise::KeysStayValuesGrow,
        "s_keyed_fold" | "s_keyed_reduce" | "s_keyed_vec" | "n_m2o" => Promise::KeysStay,
        "ks_into_singleton_bv" => Promise::MapKeysStayValuesFixed,
        other => panic!("harness: no C33 promise registered for {other}"),
    }
}

fn entries_of(tick: &[Val], as_map: bool) -> Result<Vec<(Val, Val)>, String> {
    if as_map {
        match tick {
            [Val::M(kvs)] => Ok(kvs.clone()),
            other => Err(format!("expected exactly one map snapshot, got {other:?}")),
        }
    } else {
        let mut v: Vec<(Val, Val)> = sorted(tick.to_vec()).into_iter().map(|e| (e.tuple()[0].clone(), e.tuple()[1].clone())).collect();
        let n = v.len();
        v.dedup_by(|a, b| a.0 == b.0);
        if v.len() != n {
            return Err(format!("a key appears twice in one snapshot: {tick:?}"));
        }
        Ok(v)
    }
}

/// Walk the per-tick snapshot history of output 0.
pub fn check_history(p: Promise, hist: &[Vec<Val>]) -> Option<(String, String)> {
    match p {
        Promise::NonDecreasing => {
            let mut prev: Option<i64> = None;
            for (t, tick) in hist.iter().enumerate() {
                let [v] = tick.as_slice() else {
                    return Some(("snapshot_cardinality".into(), format!("tick {t}: singleton snapshot holds {} values: {tick:?}", tick.len())));
                };
                let v = v.int();
                if let Some(p) = prev {
                    if v < p {
                        return Some(("monotone_value_decreased".into(), format!("tick {t}: value {v} after {p}; history {hist:?}")));
                    }
                }
                prev = Some(v);
            }
            None
        }
        Promise::KeysStay | Promise::KeysStayValuesGrow | Promise::MapKeysStayValuesFixed => {
            let as_map = p == Promise::MapKeysStayValuesFixed;
            let mut prev: Vec<(Val, Val)> = vec![];
            for (t, tick) in hist.iter().enumerate() {
                let cur = match entries_of(tick, as_map) {
                    Ok(c) => c,
                    Err(e) => return Some(("snapshot_cardinality".into(), format!("tick {t}: {e}"))),
                };
                for (k, pv) in &prev {
                    match cur.iter().find(|e| e.0 == *k) {
                        None => return Some(("key_vanished".into(), format!("tick {t}: key {k:?} present before is gone; history {hist:?}"))),
                        Some((_, cv)) => {
                            if p == Promise::KeysStayValuesGrow && cv < pv {
                                return Some(("monotone_value_decreased".into(), format!("tick {t}: key {k:?} went from {pv:?} to {cv:?}; history {hist:?}")));
                            }
                            if p == Promise::MapKeysStayValuesFixed && cv != pv {
                                return Some(("bounded_value_changed".into(), format!("tick {t}: key {k:?} went from {pv:?} to {cv:?}; history {hist:?}")));
                            }
                        }
                    }
                }
                prev = cur;
            }
            None
        }
    }
}

pub fn run(entry: &Entry, sim: &mut Sim) -> Outcome {
    let knobs = sched::draw_knobs(sim, 12 / entry.inputs.len().max(1));
    let lazy_net = entry.locs > 1 && sim.flip("k_lazy_net", 3, 4);
    let inputs: Vec<Vec<Val>> = entry.inputs.iter().map(|s| sched::gen_input(sim, *s, &knobs)).collect();
    let items: usize = inputs.iter().map(|i| i.len()).sum();
    let bound = p28::liveness_bound(entry, items).min(6);
    let (mut plan, noncanon) = sched::partition(sim, &inputs, &knobs, bound, 1);
    if entry.locs > 1 {
        let more = sim.choose("net_steps", 0, 2 * items as u64 + 4) as usize;
        for r in plan.rel.iter_mut() {
            r.extend(std::iter::repeat_n(vec![], more));
        }
    }
    sim.event(0x3300 + items as u64, || format!("entry {} inputs {:?} releases {:?}", entry.name, inputs, plan.rel));
    let ex = (entry.exec)(&plan, &mut SimNet { sim, lazy: lazy_net });
    let hist = &ex.outs[0];
    sim.event(crate::hash_vals(hist), || format!("per-tick snapshots {hist:?}"));
    sim.state(crate::hash_vals(hist));
    let p = promise(entry.name);
    let mut violation = check_history(p, hist).map(|(c, d)| Violation::new(format!("{c}/{}", entry.name), format!("{d} (releases {:?})", plan.rel)));
    let distinct_snaps = {
        let mut h: Vec<&Vec<Val>> = hist.iter().collect();
        h.dedup();
        h.len()
    };
    if distinct_snaps >= 3 {
        sim.probe("history_with_3_distinct_snapshots");
    }
    if violation.is_none() {
        // the last snapshot is also the final value the spec predicts
        if let (Some(spec), Ok(f)) = (entry.final_spec, p28::finals(entry, &ex)) {
            let want = spec(&inputs);
            if f != want {
                violation = Some(Violation::new(format!("final_vs_spec/{}", entry.name), format!("inputs {inputs:?}: final snapshot {f:?}, spec says {want:?}")));
            }
        }
    }
    let nontrivial = items > 0 && (noncanon || ex.msgs_delivered > 0) && distinct_snaps >= 2;
    Outcome { violation, nontrivial, sim_time: ex.total_ticks as u64, discarded: false }
}
