//! C39p — secondary leg of C39: `hydro_std::quorum::{collect_quorum, collect_quorum_with_response}`
//! and `hydro_std::request_response::join_responses` in production code under random tick
//! partitions.
//!
//! Reference model on the whole response sequence (at most `max` responses per key — the
//! documented contract): key k is reported iff it received >= min successes, exactly once;
//! every error response is passed through exactly once; results are equal across batchings at
//! the granularity the property states (reported key set / error list; payloads for min == max).

use e4_gen::glue::*;
use e4_gen::io::{EagerNet, Plan};
use e4_gen::val::{Val, sorted, vi, vt2};
use simcore::{Outcome, Sim, Violation};

use crate::corpus::{Entry, OutKind};
use crate::sched::{self, Shape};

macro_rules! e {
    ($c:ident, $name:ident, $x:ident, $ins:expr, $kinds:expr) => {
        pub const $c: Entry = Entry { name: stringify!($name), inputs: $ins, outs: $kinds, exec: $x, final_spec: None, tick_spec: None, hops: 0, locs: 1 };
    };
}
use OutKind::*;
e!(Q_COLLECT_11, q_collect_11, x_q_collect_11, &[Shape::Resp(1)], &[Bag, Seq]);
e!(Q_COLLECT_22, q_collect_22, x_q_collect_22, &[Shape::Resp(2)], &[Bag, Seq]);
e!(Q_COLLECT_23, q_collect_23, x_q_collect_23, &[Shape::Resp(3)], &[Bag, Seq]);
e!(Q_COLLECT_33, q_collect_33, x_q_collect_33, &[Shape::Resp(3)], &[Bag, Seq]);
e!(Q_COLLECT_13, q_collect_13, x_q_collect_13, &[Shape::Resp(3)], &[Bag, Seq]);
e!(Q_RESP_22, q_resp_22, x_q_resp_22, &[Shape::Resp(2)], &[Seq, Seq]);
e!(Q_RESP_23, q_resp_23, x_q_resp_23, &[Shape::Resp(3)], &[Seq, Seq]);
e!(Q_RESP_13, q_resp_13, x_q_resp_13, &[Shape::Resp(3)], &[Seq, Seq]);
e!(Q_UNORD_23, q_unord_23, x_q_unord_23, &[Shape::Resp(3)], &[Bag, Bag]);
e!(Q_JOIN_RESPONSES, q_join_responses, x_q_join_responses, &[Shape::KvUniqKey, Shape::KvUniqKey], &[Bag]);

pub const ENTRIES: &[Entry] =
    &[Q_COLLECT_11, Q_COLLECT_22, Q_COLLECT_23, Q_COLLECT_33, Q_COLLECT_13, Q_RESP_22, Q_RESP_23, Q_RESP_13, Q_UNORD_23, Q_JOIN_RESPONSES];

thread_local! {
    /// set by the `C39o` scenario group (candidate-finding probe, see FINDINGS.md): also compare
    /// the output *sequence* of collect_quorum_with_response across batchings
    pub static STRICT_ORDER: std::cell::Cell<bool> = const { std::cell::Cell::new(false) };
}

fn min_max(name: &str) -> (usize, usize) {
    let d: Vec<usize> = name.chars().rev().take(2).map(|c| c.to_digit(10).unwrap_or(0) as usize).collect();
    (d[1], d[0])
}

/// (key, is_err, payload)
fn resp(v: &Val) -> (i64, bool, i64) {
    let t = v.tuple();
    let r = t[1].tuple();
    (t[0].int(), r[0].int() == 1, r[1].int())
}

fn check_quorum(entry: &Entry, input: &[Val], fed: &[Val], outs: &[Vec<Val>], tag: &str) -> Option<(&'static str, String)> {
    let (min, _max) = min_max(entry.name);
    let with_resp = entry.name.starts_with("q_resp");
    let unordered = entry.name.starts_with("q_unord");
    let rs: Vec<(i64, bool, i64)> = input.iter().map(resp).collect();
    let mut keys: Vec<i64> = rs.iter().map(|r| r.0).collect();
    keys.sort();
    keys.dedup();
    let reached: Vec<i64> = keys.iter().cloned().filter(|k| rs.iter().filter(|r| r.0 == *k && !r.1).count() >= min).collect();
    // errors: every error passed through exactly once (in input order when the stream is ordered)
    let errs_want: Vec<Val> = fed.iter().map(resp).filter(|r| r.1).map(|r| vt2(vi(r.0), vi(r.2))).collect();
    let (eg, ew) = if unordered { (sorted(outs[1].clone()), sorted(errs_want)) } else { (outs[1].clone(), errs_want) };
    if eg != ew {
        return Some(("errors_not_passed_through", format!("{tag}: error output {eg:?}, expected {ew:?}")));
    }
    if !with_resp {
        let got = sorted(outs[0].clone());
        let want: Vec<Val> = reached.iter().map(|k| vi(*k)).collect();
        if got != want {
            return Some(("quorum_keys", format!("{tag}: reported keys {got:?}, model says {want:?} (min {min})")));
        }
    } else {
        let got: Vec<(i64, i64)> = outs[0].iter().map(|v| v.pair()).collect();
        let mut got_keys: Vec<i64> = got.iter().map(|g| g.0).collect();
        got_keys.sort();
        got_keys.dedup();
        if got_keys != reached {
            return Some(("quorum_keys", format!("{tag}: keys with reported payloads {got_keys:?}, model says {reached:?} (min {min})")));
        }
        for k in &reached {
            let succ: Vec<i64> = fed.iter().map(resp).filter(|r| r.0 == *k && !r.1).map(|r| r.2).collect();
            let mine: Vec<i64> = got.iter().filter(|g| g.0 == *k).map(|g| g.1).collect();
            // payloads of one key come out in that key's arrival order, each at most once, all of
            // them real successes of that key, at least `min` of them
            let mut it = succ.iter();
            let in_order = mine.iter().all(|p| it.any(|s| s == p));
            if !in_order || mine.len() < min {
                return Some(("quorum_payloads", format!("{tag}: key {k} payloads {mine:?}, successes in arrival order {succ:?} (min {min})")));
            }
        }
    }
    None
}

pub fn run(entry: &Entry, sim: &mut Sim) -> Outcome {
    let knobs = sched::draw_knobs(sim, 9);
    if entry.name == "q_join_responses" {
        return run_join(entry, sim, &knobs);
    }
    let inputs: Vec<Vec<Val>> = entry.inputs.iter().map(|s| sched::gen_input(sim, *s, &knobs)).collect();
    let unordered = entry.name.starts_with("q_unord");
    let fed = if unordered { sched::permute(sim, &inputs[0]).0 } else { inputs[0].clone() };
    let extra = 2;
    let plan_a = Plan::canonical(&inputs, 0, extra);
    let (plan_b, noncanon) = sched::partition(sim, &[fed.clone()], &knobs, 0, extra);
    let items = plan_b.items();
    sim.event(0x3900 + items as u64, || format!("entry {} responses {:?} releases {:?}", entry.name, inputs, plan_b.rel));
    let ex_a = (entry.exec)(&plan_a, &mut EagerNet::default());
    let ex_b = (entry.exec)(&plan_b, &mut EagerNet::default());
    sim.event(crate::hash_vals(&ex_b.outs), || format!("all-at-once outputs {:?}; partitioned outputs {:?}", ex_a.outs, ex_b.outs));
    sim.state(crate::hash_vals(&ex_b.outs));
    let oa: Vec<Vec<Val>> = (0..2).map(|o| ex_a.all(o)).collect();
    let ob: Vec<Vec<Val>> = (0..2).map(|o| ex_b.all(o)).collect();
    let mut v = check_quorum(entry, &inputs[0], &inputs[0], &oa, "all-at-once").or_else(|| check_quorum(entry, &inputs[0], &fed, &ob, "partitioned"));
    if v.is_none() {
        let (min, max) = min_max(entry.name);
        // batching independence at the granularity the property states
        let same = if entry.name.starts_with("q_resp") && min != max {
            true // which of the surplus successes are passed depends on arrival; keys were compared above
        } else {
            sorted(oa[0].clone()) == sorted(ob[0].clone())
        };
        if !same {
            v = Some(("batching_dependent", format!("all-at-once reports {:?}, releases {:?} report {:?}", oa[0], plan_b.rel, ob[0])));
        }
    }
    if v.is_none() && STRICT_ORDER.with(|c| c.get()) && oa[0] != ob[0] {
        // not part of C39: the output of collect_quorum_with_response is *typed* TotalOrder
        v = Some(("total_order_output_depends_on_batching", format!("all-at-once emits {:?}, releases {:?} emit {:?}", oa[0], plan_b.rel, ob[0])));
    }
    if ob[0].len() >= 1 && plan_b.rel[0].iter().filter(|b| !b.is_empty()).count() >= 2 {
        sim.probe("quorum_reached_across_batches");
    }
    let violation = v.map(|(c, d)| Violation::new(format!("{c}/{}", entry.name), format!("{d} (input {:?})", inputs[0])));
    Outcome { violation, nontrivial: items > 0 && noncanon, sim_time: (ex_a.total_ticks + ex_b.total_ticks) as u64, discarded: false }
}

/// `join_responses`: every key has one metadata row, registered in a tick not later than the tick
/// in which its (at most one) response arrives.
fn run_join(entry: &Entry, sim: &mut Sim, knobs: &sched::Knobs) -> Outcome {
    let metas = sched::gen_input(sim, Shape::KvUniqKey, knobs);
    let n_ticks = 1 + sim.choose("join_ticks", 0, 5) as usize;
    let mut rel_resp = vec![vec![]; n_ticks];
    let mut rel_meta = vec![vec![]; n_ticks];
    let mut want = vec![];
    for (i, m) in metas.iter().enumerate() {
        let (k, mv) = m.pair();
        let tm = sim.choose("meta_tick", 0, n_ticks as u64 - 1) as usize;
        rel_meta[tm].push(m.clone());
        if sim.flip("has_response", 3, 4) {
            let tr = tm + sim.choose("resp_delay", 0, (n_ticks - 1 - tm) as u64) as usize;
            let rv = 500 + i as i64;
            rel_resp[tr].push(vt2(vi(k), vi(rv)));
            want.push(vt2(vi(k), vt2(vi(mv), vi(rv))));
            if tr > tm {
                sim.fault("response_in_later_tick");
            }
        }
    }
    let plan = Plan { rel: vec![rel_resp, rel_meta], max_drain: 0, extra: 2, pends: vec![] };
    sim.event(0x3950 + metas.len() as u64, || format!("join_responses releases (responses, metadata) {:?}", plan.rel));
    let ex = (entry.exec)(&plan, &mut EagerNet::default());
    let got = sorted(ex.all(0));
    sim.event(crate::hash_vals(&got), || format!("joined {got:?}"));
    let violation = if got != sorted(want.clone()) {
        Some(Violation::new(format!("join_responses/{}", entry.name), format!("joined {got:?}, expected {:?} (releases {:?})", sorted(want), plan.rel)))
    } else {
        None
    };
    Outcome { violation, nontrivial: !got.is_empty() && n_ticks > 1, sim_time: ex.total_ticks as u64, discarded: false }
}
