//! Corpus entry metadata. The glue that instantiates a production-generated flow with simulated
//! inputs and recording outputs lives in the `e4_gen` crate (`glue.rs`, `netglue.rs`); the
//! hand-written plain-Rust specs live next to the oracle of the property that uses them
//! (`p28.rs`, `p30.rs`, `p32.rs`, `net.rs`, ...).

use e4_gen::io::{Exec, NetSched, Plan};
use crate::sched::Shape;
use e4_gen::val::Val;

/// How an output is observed / compared.
#[derive(Clone, Copy, Debug, PartialEq)]
pub enum OutKind {
    /// totally ordered stream: the sequence matters
    Seq,
    /// unordered stream observed through `assume_ordering(nondet!)`: multiset
    Bag,
    /// singleton observed through a per-tick snapshot shim: exactly one value per tick
    SnapOne,
    /// optional observed through a per-tick snapshot shim: zero or one value per tick
    SnapOpt,
    /// keyed singleton observed through a per-tick snapshot of its entries: a set of (k, v)
    SnapBag,
}

pub type ExecFn = fn(&Plan, &mut dyn NetSched) -> Exec;
/// `inputs[input] = items` -> `expected[output]` in canonical form for the output's kind
pub type FinalSpec = fn(&[Vec<Val>]) -> Vec<Vec<Val>>;
/// `batches[input][tick]` -> `expected[output][tick]`
pub type TickSpec = fn(&[Vec<Vec<Val>>]) -> Vec<Vec<Vec<Val>>>;

#[derive(Clone, Copy)]
pub struct Entry {
    pub name: &'static str,
    pub inputs: &'static [Shape],
    pub outs: &'static [OutKind],
    pub exec: ExecFn,
    pub final_spec: Option<FinalSpec>,
    pub tick_spec: Option<TickSpec>,
    /// network hops on the longest path (liveness bound)
    pub hops: usize,
    /// locations (1 = single-location flow)
    pub locs: usize,
}

