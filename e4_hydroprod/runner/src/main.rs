//! E4 `e4_hydroprod` — production-compiled Hydro flows (embedded back end) under simulated tick
//! partitions and a simulated network (DESIGN.md §4 E4; properties C28, C29, C30, C32, C33).

pub mod corpus;
pub mod mx;
pub mod net;
pub mod p28;
pub mod p28c;
pub mod p29;
pub mod p29t;
pub mod p30;
pub mod p31p;
pub mod p32;
pub mod p33;
pub mod p34p;
pub mod p39o;
pub mod p39p;
pub mod sched;
pub mod t33;

use simcore::runner::{Engine, Prop, Scenario};
use simcore::{Outcome, Sim};

use e4_gen::val::Val;

/// FNV hash of a nested output structure (event log / distinct-state measure).
pub fn hash_vals<T: std::fmt::Debug>(t: &T) -> u64 {
    simcore::hash_debug(t)
}
#[allow(dead_code)]
fn _unused(_: Val) {}

thread_local! {
    static PANIC_LOC: std::cell::RefCell<Option<(String, String)>> = const { std::cell::RefCell::new(None) };
}
static HOOK: std::sync::Once = std::sync::Once::new();

/// The production-*generated* code (the files `generate_embedded` wrote into e4_gen's OUT_DIR) is
/// code under test, but simcore's runner only treats panics located under /repo or the cargo
/// registry as such. This guard chains a panic hook that remembers the location; a panic raised
/// from a generated file becomes a violation `panic_in_generated_code/<entry>`, every other panic
/// is re-raised unchanged for simcore to classify (harness code => exit 2).
pub fn guard(name: &'static str, sim: &mut Sim, f: impl FnOnce(&mut Sim) -> Outcome) -> Outcome {
    HOOK.call_once(|| {
        let prev = std::panic::take_hook();
        std::panic::set_hook(Box::new(move |info| {
            let msg = if let Some(s) = info.payload().downcast_ref::<&str>() {
                s.to_string()
            } else if let Some(s) = info.payload().downcast_ref::<String>() {
                s.clone()
            } else {
                "<non-string panic>".to_string()
            };
            let loc = info.location().map(|l| format!("{}:{}", l.file(), l.line())).unwrap_or_default();
            PANIC_LOC.with(|p| *p.borrow_mut() = Some((msg, loc)));
            prev(info);
        }));
    });
    PANIC_LOC.with(|p| *p.borrow_mut() = None);
    match std::panic::catch_unwind(std::panic::AssertUnwindSafe(|| f(sim))) {
        Ok(o) => o,
        Err(payload) => {
            let (msg, loc) = PANIC_LOC.with(|p| p.borrow_mut().take()).unwrap_or_default();
            let generated = loc.contains("/build/e4_gen-") && loc.contains("/out/");
            if generated {
                let file = loc.rsplit('/').next().unwrap_or("").split(':').next().unwrap_or("").to_string();
                Outcome::fail(simcore::Violation::new(format!("panic_in_generated_code/{name}"), format!("panic at {loc} ({file}): {msg}")), sim.seq)
            } else {
                std::panic::resume_unwind(payload)
            }
        }
    }
}

/// One scenario per corpus entry: `scenarios!(module; a, b, c)`.
macro_rules! scenarios {
    ($m:ident) => {{
        let mut v: Vec<Scenario> = vec![];
        // fn pointers cannot capture the entry: dispatch through a const-generic index
        fn runner<const I: usize>(sim: &mut Sim) -> Outcome {
            crate::guard($m::ENTRIES[I].name, sim, |sim| $m::run(&$m::ENTRIES[I], sim))
        }
        seq_macro_lite!(v, runner, $m::ENTRIES.len());
        for (i, s) in v.iter_mut().enumerate() {
            s.name = $m::ENTRIES[i].name;
        }
        v
    }};
}
/// push `Scenario { run: runner::<I> }` for I in 0..N (N <= 64)
macro_rules! seq_macro_lite {
    ($v:ident, $f:ident, $n:expr) => {{
        let n: usize = $n;
        macro_rules! one { ($i:literal) => { if $i < n { $v.push(Scenario { name: "", weight: 1, run: $f::<$i> }); } }; }
        one!(0); one!(1); one!(2); one!(3); one!(4); one!(5); one!(6); one!(7);
        one!(8); one!(9); one!(10); one!(11); one!(12); one!(13); one!(14); one!(15);
        one!(16); one!(17); one!(18); one!(19); one!(20); one!(21); one!(22); one!(23);
        one!(24); one!(25); one!(26); one!(27); one!(28); one!(29); one!(30); one!(31);
        one!(32); one!(33); one!(34); one!(35); one!(36); one!(37); one!(38); one!(39);
        one!(40); one!(41); one!(42); one!(43); one!(44); one!(45); one!(46); one!(47);
        one!(48); one!(49); one!(50); one!(51); one!(52); one!(53); one!(54); one!(55);
        one!(56); one!(57); one!(58); one!(59); one!(60); one!(61); one!(62); one!(63);
        assert!(n <= 64, "more than 64 entries: extend seq_macro_lite");
    }};
}

/// const-generic dispatch tables for the matrix-composer entries (fn pointers cannot capture)
fn mx_plain<const I: usize>(sim: &mut Sim) -> Outcome {
    crate::guard(mx::all()[I].name, sim, |sim| mx::run(I, false, sim))
}
fn t33_run<const I: usize>(sim: &mut Sim) -> Outcome {
    crate::guard(t33::all()[I].name, sim, |sim| t33::run(I, sim))
}
fn mx_weak<const I: usize>(sim: &mut Sim) -> Outcome {
    crate::guard(mx::all()[I].name, sim, |sim| mx::run(I, true, sim))
}
macro_rules! d8 {
    ($v:ident, $f:ident, $b:expr) => {
        $v.push($f::<{ $b }>); $v.push($f::<{ $b + 1 }>); $v.push($f::<{ $b + 2 }>); $v.push($f::<{ $b + 3 }>);
        $v.push($f::<{ $b + 4 }>); $v.push($f::<{ $b + 5 }>); $v.push($f::<{ $b + 6 }>); $v.push($f::<{ $b + 7 }>);
    };
}
macro_rules! d64 {
    ($v:ident, $f:ident, $b:expr) => {
        d8!($v, $f, $b); d8!($v, $f, $b + 8); d8!($v, $f, $b + 16); d8!($v, $f, $b + 24);
        d8!($v, $f, $b + 32); d8!($v, $f, $b + 40); d8!($v, $f, $b + 48); d8!($v, $f, $b + 56);
    };
}
macro_rules! d512 {
    ($f:ident) => {{
        let mut v: Vec<simcore::runner::RunFn> = Vec::with_capacity(512);
        d64!(v, $f, 0); d64!(v, $f, 64); d64!(v, $f, 128); d64!(v, $f, 192);
        d64!(v, $f, 256); d64!(v, $f, 320); d64!(v, $f, 384); d64!(v, $f, 448);
        v
    }};
}
/// scenarios for the matrix entries selected by `pick`
fn mx_scenarios(weak: bool, pick: fn(&mx::Mx) -> bool) -> Vec<Scenario> {
    let table = if weak { d512!(mx_weak) } else { d512!(mx_plain) };
    assert!(mx::all().len() <= table.len(), "more than 512 matrix entries: extend d512");
    mx::all().iter().enumerate().filter(|(_, m)| pick(m)).map(|(i, m)| Scenario { name: m.name, weight: 1, run: table[i] }).collect()
}

const REAL: &[&str] = &[
    "hydro_lang IR construction (live_collections::*, location::*)",
    "hydro_lang::compile::ir emit_core with ProdDfirBuilder (production code generation)",
    "hydro_lang::compile::embedded::generate_embedded",
    "dfir_lang graph partitioning + code generation, the generated DFIR tick closures (rustc-compiled)",
    "dfir_rs scheduled::context::Dfir::run_tick_sync, dfir_pipes, sinktools",
];
const STUBS: &[&str] = &[
    "embedded inputs (SimStream: items released for the current tick, then Pending)",
    "embedded outputs (recording closures stamped with the tick index)",
    "tick driver (which tick runs when; trailing empty ticks)",
    "hand-written plain-Rust specs per corpus entry",
];

const STUBS_NET: &[&str] = &[
    "embedded inputs (SimStream: items released for the current tick, then Pending)",
    "embedded outputs (recording closures stamped with the location's tick index)",
    "the network: EmbeddedNetworkOut closures push into simulator-owned FIFO wires, EmbeddedNetworkIn streams are fed from them",
    "per-location tick driver / scheduler, cluster member ids",
    "hand-written plain-Rust specs per corpus entry",
];

fn main() {
    let engine = Engine {
        name: "e4_hydroprod",
        props: vec![
        Prop {
            id: "C28",
            scenarios: {
                // hand-written corpus (with specs) + composer-generated flows (schedule independence only)
                let mut v = scenarios!(p28);
                v.extend(scenarios!(p28c));
                v.extend(mx_scenarios(false, mx::in_c28));
                v
            },
            quick_runs: 1_000_000,
            thorough_runs: 40_000_000,
            rule: "each run picks one corpus flow whose top-level operators use only safe APIs (production-generated code; nondet! only in the trailing observation shims), draws knobs and input items (<= 12 items in total), and (plus 32 flows emitted per build by a seeded composer that chains safe operators from a table - map/filter/flat_map/filter_map/unique/enumerate/scan/limit/bounded-side join/filter_not_in/cross_singleton/partition, then optionally weaken_ordering/merge/self-join/cross_product and unordered stages, then a terminal stream/fold/reduce/count/max/first/last/threshold; oracle for those: schedule independence only) and executes it twice on the same inputs: canonical schedule (everything released before tick 0, eager network) and a seeded schedule (independent partition of every input into ticks incl. empty ticks; for multi-location flows which location ticks next and how many in-flight messages of each FIFO wire are delivered before a tick). Distinct = distinct hash of (entry, realised decision trace); non-trivial = at least one item flowed AND (the partition differs from all-at-once OR a message crossed the simulated network). PLUS the matrix composer (crate matrixdef, ~456 generated flows per build, seed E4_MATRIX_SEED): every operator family (43: map/filter/flat_map/filter_map/unique/enumerate/scan incl. a scan whose closure returns None and would return Some again/limit/sort/chain/cross_singleton/join/cross_product/nested-loop product/anti_join/filter_not_in/partition/merge, keyed fold/reduce/scan/first/value_counts/keys/unique/repeat_with_keys, fold/reduce/count/max/min/first/last/collect_vec/is_empty) x location kind and batch source (top level, top level tee'd, atomic region, tick batch, tee'd tick batch = push side, Tick::cycle value, cycle+defer_tick, defer_tick, across_ticks, bounded top-level collection) x input typing (TotalOrder/NoOrder x ExactlyOnce/AtLeastOnce through the safe casts) x optional pre-stage; covering set deterministic (every operator in the 5 main contexts + 2-3 rotating others; every weak typing in >= 2 contexts), 32 seeded extras; oracle = the operator's plain-Rust list semantics lifted to the context (top level / atomic / bounded top level entries: final outputs equal across schedules and equal to op(whole input); bounded top-level data emitted exactly once however many ticks run).",
            time_unit: "ticks",
            real: REAL,
            stubs: STUBS_NET,
            assumptions: &[
                "sampled schedules, not exhaustive; <= 12 input items, <= 3 locations, cluster size 2",
                "TCP.fail_stop() is modelled as one FIFO wire per (sender, receiver) pair: no loss, no duplication, arbitrary delay, arbitrary interleaving across pairs; crashes are not injected for C28",
                "TCP.lossy_delayed_forever() (safe API, output typed NoOrder) is modelled as a wire on which any in-flight message may overtake any other; every message is eventually delivered in the fair drain phase (indefinite delay = the message is still in flight when observation of intermediate states ends)",
                "idle = every location's last tick reported no pending work and no message is in flight or undelivered; the drain phase after the last seeded step is fair (round-robin, immediate delivery), bound 4*(items+hops)+8 rounds",
                "final value of singletons/optionals/keyed singletons = what the per-tick snapshot shim emits in the last tick after idleness",
                "only the embedded production back end is run (deploy/trybuild glue shares emit_core but is not executed)",
            ],
            required_probes: &["empty_tick", "multi_item_batch_and_several_ticks", "net_delay", "net_reorder", "two_messages_in_flight", "composed_flow_produced_output"],
        },
        Prop {
            id: "C29",
            scenarios: {
                let mut v = scenarios!(p29);
                v.extend(scenarios!(p29t));
                v.extend(mx_scenarios(false, mx::in_c29));
                v
            },
            quick_runs: 1_000_000,
            thorough_runs: 40_000_000,
            rule: "each run picks one corpus flow with a totally ordered output (map/filter/flat_map_ordered/enumerate/scan/limit/unique/partition/bounded-side joins/TCP hops) or a keyed stream whose per-key order is made observable by an ordered per-key fold (per-key vec/scan/enumerate+limit/fold/reduce/first, cluster->process per member, process->cluster demux), draws input items (<= 12) and executes it under two independently seeded schedules: tick partition, network schedule and - for keyed inputs - two different cross-key interleavings of the same per-key subsequences; keyed flows run a third time with only one key's items. Distinct = distinct hash of (entry, realised decision trace); non-trivial = at least one item flowed AND the two runs differ in partition, interleaving or network schedule. PLUS the matrix composer (crate matrixdef, ~456 generated flows per build, seed E4_MATRIX_SEED): every operator family (43: map/filter/flat_map/filter_map/unique/enumerate/scan incl. a scan whose closure returns None and would return Some again/limit/sort/chain/cross_singleton/join/cross_product/nested-loop product/anti_join/filter_not_in/partition/merge, keyed fold/reduce/scan/first/value_counts/keys/unique/repeat_with_keys, fold/reduce/count/max/min/first/last/collect_vec/is_empty) x location kind and batch source (top level, top level tee'd, atomic region, tick batch, tee'd tick batch = push side, Tick::cycle value, cycle+defer_tick, defer_tick, across_ticks, bounded top-level collection) x input typing (TotalOrder/NoOrder x ExactlyOnce/AtLeastOnce through the safe casts) x optional pre-stage; covering set deterministic (every operator in the 5 main contexts + 2-3 rotating others; every weak typing in >= 2 contexts), 32 seeded extras; oracle = the operator's plain-Rust list semantics lifted to the context (entries with a totally ordered output or an observable per-key order, in every context; tick entries per tick), plus flows whose async operator really suspends inside a tick (simulated futures scripted by the simulator, tick driven through the async run_tick): chain with an async first/second input, async scan.",
            time_unit: "ticks",
            real: REAL,
            stubs: STUBS_NET,
            assumptions: &[
                "sampled schedules and interleavings, not exhaustive; <= 12 input items, <= 4 keys, cluster size 2",
                "the per-key order of a keyed stream is observed through an ordered (non-commutative) per-key fold, which is what the type promises to be deterministic; entries() of a keyed stream is typed NoOrder and compared as a set",
                "TCP.fail_stop(): one FIFO wire per (sender, receiver) pair, no loss/duplication, arbitrary delay and cross-pair interleaving",
            ],
            required_probes: &["cross_key_interleaving", "solo_key_run", "net_delay", "empty_tick", "future_suspended_in_tick", "value_recurs_in_later_batch"],
        },
        Prop {
            id: "C30",
            scenarios: {
                let mut v = scenarios!(p30);
                v.extend(mx_scenarios(false, mx::in_c30));
                v
            },
            quick_runs: 3_000_000,
            thorough_runs: 200_000_000,
            rule: "each run picks one corpus flow of the form input.batch(&tick, nondet!) -> <tick operators> -> all_ticks() (production-generated code), draws knobs (length <= 8, value/key domain, partition mode), input items per embedded input, and the partition of every input into ticks (all-at-once, singletons, random gaps, bursts, leading/trailing empty ticks; different inputs partitioned independently) plus 2-4 trailing empty ticks. Distinct = distinct hash of (entry, realised decision trace); non-trivial = at least one item flowed AND the partition differs from everything-in-tick-0. PLUS the matrix composer (crate matrixdef, ~456 generated flows per build, seed E4_MATRIX_SEED): every operator family (43: map/filter/flat_map/filter_map/unique/enumerate/scan incl. a scan whose closure returns None and would return Some again/limit/sort/chain/cross_singleton/join/cross_product/nested-loop product/anti_join/filter_not_in/partition/merge, keyed fold/reduce/scan/first/value_counts/keys/unique/repeat_with_keys, fold/reduce/count/max/min/first/last/collect_vec/is_empty) x location kind and batch source (top level, top level tee'd, atomic region, tick batch, tee'd tick batch = push side, Tick::cycle value, cycle+defer_tick, defer_tick, across_ticks, bounded top-level collection) x input typing (TotalOrder/NoOrder x ExactlyOnce/AtLeastOnce through the safe casts) x optional pre-stage; covering set deterministic (every operator in the 5 main contexts + 2-3 rotating others; every weak typing in >= 2 contexts), 32 seeded extras; oracle = the operator's plain-Rust list semantics lifted to the context (tick batch / tee'd batch / cycle / cycle+defer / defer / across_ticks entries: output of tick t == op(batch t - shift), across_ticks cumulative), plus flows with simulated futures that suspend inside a tick.",
            time_unit: "ticks",
            real: REAL,
            stubs: STUBS,
            assumptions: &[
                "sampled partitions, not exhaustive; inputs of length <= 8 per input, <= 2 inputs",
                "a tick of the embedded back end is one call of Dfir::run_tick_sync; the batch of tick i is exactly what the input stream yields before it answers Pending",
                "only the embedded production back end is run (deploy/trybuild glue shares emit_core but is not executed)",
                "where documentation leaves multiplicity/order open (anti_join on duplicate rows, join with several build matches) inputs are generated so that both readings agree",
            ],
            required_probes: &["empty_tick", "two_nonempty_batches", "multi_item_batch_and_several_ticks", "value_recurs_in_later_batch", "future_suspended_in_tick"],
        },
        Prop {
            id: "C32",
            scenarios: {
                let mut v = scenarios!(p32);
                v.extend(mx_scenarios(true, mx::in_c32));
                v
            },
            quick_runs: 2_000_000,
            thorough_runs: 150_000_000,
            rule: "one corpus flow per library-internal assume_ordering_trusted / assume_retries_trusted call site (Stream::{max,min,first,last,count,is_empty,repeat_with_keys,weaken_ordering,make_totally_ordered,weaken_retries,make_exactly_once}, KeyedStream::{weaken_ordering,make_totally_ordered,weaken_retries,make_exactly_once,value_counts}, KeyedSingleton::{into_singleton x3 code paths, get_max_key}; top-level and in-tick variants), input typed as weakly as the public signature allows. Each run draws an input (<= 6 items per input), applies a seeded transformation admitted by that type (permutation for NoOrder; duplication for AtLeastOnce - anywhere if unordered, directly after the original if totally ordered; cross-key interleaving for keyed inputs with fixed per-key order) and a seeded tick partition. Distinct = distinct hash of (entry, realised decision trace); non-trivial = at least one item flowed AND (the input was actually permuted/duplicated/re-interleaved OR the partition is non-canonical). PLUS the matrix composer (crate matrixdef, ~456 generated flows per build, seed E4_MATRIX_SEED): every operator family (43: map/filter/flat_map/filter_map/unique/enumerate/scan incl. a scan whose closure returns None and would return Some again/limit/sort/chain/cross_singleton/join/cross_product/nested-loop product/anti_join/filter_not_in/partition/merge, keyed fold/reduce/scan/first/value_counts/keys/unique/repeat_with_keys, fold/reduce/count/max/min/first/last/collect_vec/is_empty) x location kind and batch source (top level, top level tee'd, atomic region, tick batch, tee'd tick batch = push side, Tick::cycle value, cycle+defer_tick, defer_tick, across_ticks, bounded top-level collection) x input typing (TotalOrder/NoOrder x ExactlyOnce/AtLeastOnce through the safe casts) x optional pre-stage; covering set deterministic (every operator in the 5 main contexts + 2-3 rotating others; every weak typing in >= 2 contexts), 32 seeded extras; oracle = the operator's plain-Rust list semantics lifted to the context (entries with a weakly typed input or an operator that consumes a weak type / is a trusted call site, in every context incl. atomic regions and bounded top-level collections; the input is transformed by what its typing admits, duplicates may land in later ticks).",
            time_unit: "ticks",
            real: REAL,
            stubs: STUBS,
            assumptions: &[
                "permutations/duplications are sampled (inputs <= 6 items), not enumerated",
                "a TotalOrder + AtLeastOnce stream is taken to admit only adjacent re-application of an element (the library's idempotence requirement: re-applying an element leaves the state unchanged); NoOrder + AtLeastOnce admits copies anywhere",
                "the embedded input is TotalOrder/ExactlyOnce; the weak type is obtained with the safe casts weaken_ordering / weaken_retries, which are themselves two of the call sites",
                "hash-map iteration order inside the code under test is not controlled by this engine (E7 owns hash seeds); cross-key interleaving varies insertion order only",
            ],
            required_probes: &["input_permuted", "input_duplicated", "cross_key_interleaving", "empty_tick", "value_recurs_in_later_batch"],
        },
        Prop {
            id: "C33",
            scenarios: {
                let mut v = scenarios!(p33);
                // type-driven table: (producer, transformer) pairs, oracle from the claimed bound
                let table = d512!(t33_run);
                v.extend(t33::all().iter().enumerate().map(|(i, t)| Scenario { name: t.name, weight: 1, run: table[i] }));
                v
            },
            quick_runs: 1_500_000,
            thorough_runs: 100_000_000,
            rule: "each run picks one corpus flow producing a collection whose type promises monotone growth (count() and other Monotonic singletons, value_counts() = MonotonicValue, keyed folds/reduces = keys only added, keyed first() = BoundedValue observed as a map, counts behind a TCP hop, per-member keyed state), observed by a per-tick snapshot shim; draws inputs (<= 12 items incl. duplicates and late keys) and a seeded tick partition / network schedule and checks the whole per-tick history. Distinct = distinct hash of (entry, realised decision trace); non-trivial = at least one item flowed AND the schedule is non-canonical AND the history holds at least two distinct snapshots. PLUS the type-driven table (matrixdef::c33, 94 flows): (producer, transformer) pairs - value_counts, keyed fold with/without monotone proof, keyed reduce, keyed first, fold_early_stop, keyed scan+first, count, fold with/without monotone proof x id/map/map_with_key (monotone and non-monotone closures)/filter/filter_map - at top level and inside an atomic region; the flow's generic observer returns B::bound_kind() of the observed collection at build time and the oracle applies exactly what that type claims (MonotonicKeys: keys stay; MonotonicValue: + values never decrease; BoundedValue: a key is never reported twice; Monotonic: value never decreases; Unbounded: nothing).",
            time_unit: "ticks",
            real: REAL,
            stubs: STUBS_NET,
            assumptions: &[
                "sampled inputs and partitions, not exhaustive; <= 12 items, <= 4 keys",
                "only library-provided annotations are checked (count, value_counts, keyed first, key set growth); user-supplied `monotone = manual_proof!` annotations are the user's claim, not the library's",
                "the snapshot shim observes one value per tick; changes within a tick are not observable in production code",
            ],
            required_probes: &["history_with_3_distinct_snapshots", "empty_tick", "net_delay", "key_recurs_in_later_tick"],
        },
        Prop {
            id: "C31p",
            scenarios: scenarios!(p31p),
            quick_runs: 500_000,
            thorough_runs: 50_000_000,
            rule: "secondary (production) leg of C31: each run picks one sliced! corpus program (use::batch on a stream / keyed stream / bounded-value keyed singleton, use::snapshot on count() and on a keyed singleton, use::state and use::state_null) compiled by the production code generator, draws input items (<= 10) and a seeded partition into slices incl. empty slices. Non-trivial = at least one item flowed AND the partition is non-canonical.",
            time_unit: "ticks",
            real: REAL,
            stubs: STUBS,
            assumptions: &["production back end only: one slice per tick, hooks of one slice are evaluated in the same tick; the simulator-side (independent hook decisions) leg belongs to E5"],
            required_probes: &["two_nonempty_slices", "empty_tick"],
        },
        Prop {
            id: "C34p",
            scenarios: scenarios!(p34p),
            quick_runs: 500_000,
            thorough_runs: 50_000_000,
            rule: "secondary (production) leg of C34: the documented atomic counter / keyed counter pattern (atomic() write path, ack through end_atomic(), reads through a sliced! atomic snapshot) plus the non-atomic variant, production-generated; each run draws uniquely numbered increments and reads and a seeded partition of both into ticks; the history is stamped with tick indices. Non-trivial = increments and reads flowed, the partition is non-canonical AND at least one read was sent in a tick after an observed acknowledgement.",
            time_unit: "ticks",
            real: REAL,
            stubs: STUBS,
            assumptions: &[
                "single-location production code runs a tick synchronously, so the stale-read race of the non-atomic variant is NOT reachable here (it is reachable only in the repository simulator, E5): the negative control cannot fire in this engine and is not required as a probe",
                "write path through a network hop is not built for this leg",
            ],
            required_probes: &["read_sent_after_an_observed_ack", "empty_tick"],
        },
        Prop {
            id: "C39p",
            scenarios: scenarios!(p39p),
            quick_runs: 500_000,
            thorough_runs: 50_000_000,
            rule: "secondary (production) leg of C39: hydro_std::quorum::collect_quorum / collect_quorum_with_response for (min,max) in {(1,1),(2,2),(2,3),(3,3),(1,3)} (ordered and one unordered instantiation) and request_response::join_responses, production-generated; each run draws a response sequence over <= 3 keys with at most max responses per key and an Ok/Err mix and runs it all-at-once and under a seeded tick partition (for join_responses: metadata registered no later than the response's tick). Non-trivial = at least one response flowed AND the partition is non-canonical.",
            time_unit: "ticks",
            real: &["hydro_std::quorum, hydro_std::request_response (sliced! with use::state_null carry-over)", "hydro_lang production code generation (generate_embedded) + generated DFIR + dfir_rs"],
            stubs: STUBS,
            assumptions: &[
                "at most max responses per key (documented contract); join_responses: one response per request, metadata registered before or in the tick of the response",
                "collect_quorum_with_response with min < max: which surplus successes are passed depends on arrival batching, so only the reported key set, payload provenance/order per key and count >= min are compared there",
                "the relative order of different keys in the (TotalOrder-typed) output of collect_quorum_with_response is not compared: see FINDINGS.md",
            ],
            required_probes: &["quorum_reached_across_batches", "response_in_later_tick", "empty_tick"],
        },
        Prop {
            id: "C39o",
            scenarios: scenarios!(p39o),
            quick_runs: 20_000,
            thorough_runs: 200_000,
            rule: "NOT a registered check: reproduces the candidate finding of e4_hydroprod/FINDINGS.md (cross-key order of the TotalOrder-typed output of collect_quorum_with_response depends on tick batching)",
            time_unit: "ticks",
            real: REAL,
            stubs: STUBS,
            assumptions: &[],
            required_probes: &[],
        },
        ],
    };
    simcore::runner::main(engine);
}
