#[allow(unused_imports, unused_qualifications, missing_docs, non_snake_case, unused)]
pub mod g_t_fold {
    include!(concat!(env!("OUT_DIR"), "/t_fold.rs"));
}
#[allow(unused_imports, unused_qualifications, missing_docs, non_snake_case, unused)]
pub mod g_top_count {
    include!(concat!(env!("OUT_DIR"), "/top_count.rs"));
}

use std::cell::RefCell;
use std::collections::VecDeque;
use std::pin::Pin;
use std::rc::Rc;
use std::task::{Context, Poll};

pub struct SimStream<T>(pub Rc<RefCell<VecDeque<T>>>);
impl<T> futures::Stream for SimStream<T> {
    type Item = T;
    fn poll_next(self: Pin<&mut Self>, _cx: &mut Context<'_>) -> Poll<Option<T>> {
        match self.0.borrow_mut().pop_front() {
            Some(x) => Poll::Ready(Some(x)),
            None => Poll::Pending,
        }
    }
}
impl<T> Unpin for SimStream<T> {}

fn main() {
    for part in [vec![5usize], vec![1, 1, 1, 1, 1], vec![0, 2, 0, 3]] {
        let q = Rc::new(RefCell::new(VecDeque::new()));
        let mut got = vec![];
        let mut outs = g_top_count::top_count::EmbeddedOutputs { out0: |x: usize| got.push(x) };
        let mut flow = g_top_count::top_count(SimStream(q.clone()), &mut outs);
        let mut next = 0;
        for n in part.iter().chain([0usize].iter()) {
            for _ in 0..*n {
                q.borrow_mut().push_back(next);
                next += 1;
            }
            let w = flow.run_tick_sync();
            print!("{w} ");
        }
        drop(flow);
        println!("{part:?} -> {got:?}");
    }
}
