//! E4 `e4_hydroprod` — production-compiled Hydro flows (embedded back end) under simulated tick
//! partitions and a simulated network (DESIGN.md §4 E4; properties C28, C29, C30, C32, C33).

pub mod corpus;
pub mod net;
pub mod p28;
pub mod p30;
pub mod sched;

use simcore::runner::{Engine, Prop, Scenario};
use simcore::{Outcome, Sim};

use e4_gen::val::Val;

/// FNV hash of a nested output structure (event log / distinct-state measure).
pub fn hash_vals<T: std::fmt::Debug>(t: &T) -> u64 {
    simcore::hash_debug(t)
}
#[allow(dead_code)]
fn _unused(_: Val) {}

/// One scenario per corpus entry: `scenarios!(module; a, b, c)`.
macro_rules! scenarios {
    ($m:ident) => {{
        let mut v: Vec<Scenario> = vec![];
        // fn pointers cannot capture the entry: dispatch through a const-generic index
        fn runner<const I: usize>(sim: &mut Sim) -> Outcome {
            $m::run(&$m::ENTRIES[I], sim)
        }
        seq_macro_lite!(v, runner, $m::ENTRIES.len());
        for (i, s) in v.iter_mut().enumerate() {
            s.name = $m::ENTRIES[i].name;
        }
        v
    }};
}
/// push `Scenario { run: runner::<I> }` for I in 0..N (N <= 64)
macro_rules! seq_macro_lite {
    ($v:ident, $f:ident, $n:expr) => {{
        let n: usize = $n;
        macro_rules! one { ($i:literal) => { if $i < n { $v.push(Scenario { name: "", weight: 1, run: $f::<$i> }); } }; }
        one!(0); one!(1); one!(2); one!(3); one!(4); one!(5); one!(6); one!(7);
        one!(8); one!(9); one!(10); one!(11); one!(12); one!(13); one!(14); one!(15);
        one!(16); one!(17); one!(18); one!(19); one!(20); one!(21); one!(22); one!(23);
        one!(24); one!(25); one!(26); one!(27); one!(28); one!(29); one!(30); one!(31);
        one!(32); one!(33); one!(34); one!(35); one!(36); one!(37); one!(38); one!(39);
        one!(40); one!(41); one!(42); one!(43); one!(44); one!(45); one!(46); one!(47);
        one!(48); one!(49); one!(50); one!(51); one!(52); one!(53); one!(54); one!(55);
        one!(56); one!(57); one!(58); one!(59); one!(60); one!(61); one!(62); one!(63);
        assert!(n <= 64, "more than 64 entries: extend seq_macro_lite");
    }};
}

const REAL: &[&str] = &[
    "hydro_lang IR construction (live_collections::*, location::*)",
    "hydro_lang::compile::ir emit_core with ProdDfirBuilder (production code generation)",
    "hydro_lang::compile::embedded::generate_embedded",
    "dfir_lang graph partitioning + code generation, the generated DFIR tick closures (rustc-compiled)",
    "dfir_rs scheduled::context::Dfir::run_tick_sync, dfir_pipes, sinktools",
];
const STUBS: &[&str] = &[
    "embedded inputs (SimStream: items released for the current tick, then Pending)",
    "embedded outputs (recording closures stamped with the tick index)",
    "tick driver (which tick runs when; trailing empty ticks)",
    "hand-written plain-Rust specs per corpus entry",
];

const STUBS_NET: &[&str] = &[
    "embedded inputs (SimStream: items released for the current tick, then Pending)",
    "embedded outputs (recording closures stamped with the location's tick index)",
    "the network: EmbeddedNetworkOut closures push into simulator-owned FIFO wires, EmbeddedNetworkIn streams are fed from them",
    "per-location tick driver / scheduler, cluster member ids",
    "hand-written plain-Rust specs per corpus entry",
];

fn main() {
    let engine = Engine {
        name: "e4_hydroprod",
        props: vec![
        Prop {
            id: "C28",
            scenarios: scenarios!(p28),
            quick_runs: 300_000,
            thorough_runs: 30_000_000,
            rule: "each run picks one corpus flow whose top-level operators use only safe APIs (production-generated code; nondet! only in the trailing observation shims), draws knobs and input items (<= 12 items in total), and executes it twice on the same inputs: canonical schedule (everything released before tick 0, eager network) and a seeded schedule (independent partition of every input into ticks incl. empty ticks; for multi-location flows which location ticks next and how many in-flight messages of each FIFO wire are delivered before a tick). Distinct = distinct hash of (entry, realised decision trace); non-trivial = at least one item flowed AND (the partition differs from all-at-once OR a message crossed the simulated network).",
            time_unit: "ticks",
            real: REAL,
            stubs: STUBS_NET,
            assumptions: &[
                "sampled schedules, not exhaustive; <= 12 input items, <= 3 locations, cluster size 2",
                "TCP.fail_stop() is modelled as one FIFO wire per (sender, receiver) pair: no loss, no duplication, arbitrary delay, arbitrary interleaving across pairs; crashes are not injected for C28",
                "idle = every location's last tick reported no pending work and no message is in flight or undelivered; the drain phase after the last seeded step is fair (round-robin, immediate delivery), bound 4*(items+hops)+8 rounds",
                "final value of singletons/optionals/keyed singletons = what the per-tick snapshot shim emits in the last tick after idleness",
                "only the embedded production back end is run (deploy/trybuild glue shares emit_core but is not executed)",
            ],
            required_probes: &["empty_tick", "multi_item_batch_and_several_ticks", "net_delay", "two_messages_in_flight"],
        },
        Prop {
            id: "C30",
            scenarios: scenarios!(p30),
            quick_runs: 400_000,
            thorough_runs: 40_000_000,
            rule: "each run picks one corpus flow of the form input.batch(&tick, nondet!) -> <tick operators> -> all_ticks() (production-generated code), draws knobs (length <= 8, value/key domain, partition mode), input items per embedded input, and the partition of every input into ticks (all-at-once, singletons, random gaps, bursts, leading/trailing empty ticks; different inputs partitioned independently) plus 2-4 trailing empty ticks. Distinct = distinct hash of (entry, realised decision trace); non-trivial = at least one item flowed AND the partition differs from everything-in-tick-0.",
            time_unit: "ticks",
            real: REAL,
            stubs: STUBS,
            assumptions: &[
                "sampled partitions, not exhaustive; inputs of length <= 8 per input, <= 2 inputs",
                "a tick of the embedded back end is one call of Dfir::run_tick_sync; the batch of tick i is exactly what the input stream yields before it answers Pending",
                "only the embedded production back end is run (deploy/trybuild glue shares emit_core but is not executed)",
                "where documentation leaves multiplicity/order open (anti_join on duplicate rows, join with several build matches) inputs are generated so that both readings agree",
            ],
            required_probes: &["empty_tick", "two_nonempty_batches", "multi_item_batch_and_several_ticks"],
        }],
    };
    simcore::runner::main(engine);
}
