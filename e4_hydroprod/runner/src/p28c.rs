//! C28 (composed part) — flows emitted by the seeded composer (`e4_flows::compose`, program
//! bytes drawn in `gen/build.rs`): chains of safe top-level operators without a hand-written
//! spec. Oracle: schedule independence only — the final outputs under a seeded tick partition
//! equal those of the all-at-once schedule — plus the bounded-liveness check.

use e4_gen::glue::COMPOSED;
use e4_gen::io::{EagerNet, Plan};
use e4_gen::val::Val;
use simcore::{Outcome, Sim, Violation};

use crate::corpus::{Entry, OutKind};
use crate::p28::{self, EXTRA};
use crate::sched::{self, Shape};

const fn kinds(k: u8) -> &'static [OutKind] {
    match k {
        0 => &[OutKind::Seq],
        1 => &[OutKind::Bag],
        2 => &[OutKind::SnapOne],
        _ => &[OutKind::SnapOpt],
    }
}
const N: usize = COMPOSED.len();
const ARR: [Entry; N] = {
    let mut a = [Entry { name: "", inputs: &[Shape::Int], outs: &[OutKind::Seq], exec: COMPOSED[0].1, final_spec: None, tick_spec: None, hops: 0, locs: 1 }; N];
    let mut i = 0;
    while i < N {
        a[i].name = COMPOSED[i].0;
        a[i].exec = COMPOSED[i].1;
        a[i].outs = kinds(COMPOSED[i].2);
        i += 1;
    }
    a
};
pub const ENTRIES: &[Entry] = &ARR;

pub fn describe(name: &str) -> &'static str {
    COMPOSED.iter().find(|c| c.0 == name).map(|c| c.3).unwrap_or("?")
}

pub fn run(entry: &Entry, sim: &mut Sim) -> Outcome {
    let knobs = sched::draw_knobs(sim, 10);
    let inputs: Vec<Vec<Val>> = vec![sched::gen_input(sim, Shape::Int, &knobs)];
    let items = inputs[0].len();
    let bound = p28::liveness_bound(entry, items);
    let plan_a = Plan::canonical(&inputs, bound, EXTRA);
    let (plan_b, noncanon) = sched::partition(sim, &inputs, &knobs, bound, EXTRA);
    sim.event(0x28C0 + items as u64, || format!("composed flow {} = {}; input {:?}; releases {:?}", entry.name, describe(entry.name), inputs, plan_b.rel));
    let ex_a = (entry.exec)(&plan_a, &mut EagerNet::default());
    let ex_b = (entry.exec)(&plan_b, &mut EagerNet::default());
    sim.event(crate::hash_vals(&ex_b.outs), || format!("all-at-once outputs {:?}; partitioned outputs {:?}", ex_a.outs, ex_b.outs));
    sim.state(crate::hash_vals(&ex_b.outs));
    let mut violation: Option<Violation> = None;
    let mut viol = |class: &str, detail: String| {
        if violation.is_none() {
            violation = Some(Violation::new(format!("{class}/{}", entry.name), format!("[{}] {detail}", describe(entry.name))));
        }
    };
    for (tag, ex, plan) in [("canonical", &ex_a, &plan_a), ("seeded", &ex_b, &plan_b)] {
        if let Some(d) = p28::late_change(entry, ex, EXTRA) {
            viol("liveness", format!("{tag} schedule (releases {:?}): {d} although {bound} ticks have passed since the last release", plan.rel));
        }
    }
    match (p28::finals(entry, &ex_a), p28::finals(entry, &ex_b)) {
        (Err((c, d)), _) => viol(&c, format!("canonical schedule: {d}")),
        (_, Err((c, d))) => viol(&c, format!("schedule {:?}: {d}", plan_b.rel)),
        (Ok(a), Ok(b)) => {
            if a != b {
                viol("final_differs", format!("input {:?}: all-at-once gives {a:?}, releases {:?} give {b:?}", inputs[0], plan_b.rel));
            }
            if !a[0].is_empty() {
                sim.probe("composed_flow_produced_output");
            }
        }
    }
    Outcome { violation, nontrivial: items > 0 && noncanon, sim_time: (ex_a.total_ticks + ex_b.total_ticks) as u64, discarded: false }
}
