//! C29, tick-program leg: entries whose *per-tick* output is totally ordered (or keyed with an
//! observable per-key order). Oracle = the per-tick spec of C30 (`p30::run`): the order inside a
//! tick is the order the semantics defines (first-then-second for `chain`, input order through
//! async operators that suspend), for every tick partition.

use simcore::{Outcome, Sim};

use crate::corpus::Entry;
use crate::p30;

pub const ENTRIES: &[Entry] = &[p30::TA_CHAIN_ASYNC, p30::TA_CHAIN_ASYNC_SECOND, p30::TA_ASYNC_SCAN];

pub fn run(entry: &Entry, sim: &mut Sim) -> Outcome {
    p30::run(entry, sim)
}
