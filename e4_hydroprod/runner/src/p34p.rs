//! C34p — secondary leg of C34: atomic acknowledgements imply read-after-write, in production
//! code under random tick partitions.
//!
//! The history is stamped with tick indices: increment `u` is *acknowledged* in the tick in which
//! the `end_atomic()` output emits it; a read is *sent* in the tick in which the simulator
//! releases it. For every acknowledged update and every read sent in a strictly later tick the
//! returned snapshot must reflect the update. Reads sent in the same tick as (or before) the
//! acknowledgement are concurrent and unconstrained from below; no read may see an update that
//! was not yet released (no phantom).

use e4_gen::glue::*;
use e4_gen::io::EagerNet;
use e4_gen::val::Val;
use simcore::{Outcome, Sim, Violation};

use crate::corpus::{Entry, OutKind};
use crate::sched::{self, Shape};

macro_rules! e {
    ($c:ident, $name:ident, $x:ident, $ins:expr) => {
        pub const $c: Entry = Entry { name: stringify!($name), inputs: $ins, outs: &[OutKind::Bag, OutKind::Bag], exec: $x, final_spec: None, tick_spec: None, hops: 0, locs: 1 };
    };
}
e!(AT_COUNTER, at_counter, x_at_counter, &[Shape::UniqInt, Shape::UniqInt]);
e!(AT_KEYED_COUNTER, at_keyed_counter, x_at_keyed_counter, &[Shape::KvUniqVal, Shape::KvUniqVal]);
e!(AT_COUNTER_NONATOMIC, at_counter_nonatomic, x_at_counter_nonatomic, &[Shape::UniqInt, Shape::UniqInt]);

pub const ENTRIES: &[Entry] = &[AT_COUNTER, AT_KEYED_COUNTER, AT_COUNTER_NONATOMIC];

/// (key, id) of a request; unkeyed flows use key 0
fn req(v: &Val, keyed: bool) -> (i64, i64) {
    if keyed { v.pair() } else { (0, v.int()) }
}

pub fn run(entry: &Entry, sim: &mut Sim) -> Outcome {
    let keyed = entry.name == "at_keyed_counter";
    let knobs = sched::draw_knobs(sim, 6);
    let inputs: Vec<Vec<Val>> = entry.inputs.iter().map(|s| sched::gen_input(sim, *s, &knobs)).collect();
    let extra = 1 + sim.choose("extra_ticks", 0, 1) as usize;
    let (plan, noncanon) = sched::partition(sim, &inputs, &knobs, 0, extra);
    let items = plan.items();
    sim.event(0x3400 + items as u64, || format!("entry {} increments/reads {:?} releases {:?}", entry.name, inputs, plan.rel));
    let ex = (entry.exec)(&plan, &mut EagerNet::default());
    sim.event(crate::hash_vals(&ex.outs), || format!("acks per tick {:?}; read responses per tick {:?}", ex.outs[0], ex.outs[1]));
    sim.state(crate::hash_vals(&ex.outs));
    // history
    let mut sent_inc: Vec<(i64, i64, usize)> = vec![]; // key, id, tick released
    let mut sent_get: Vec<(i64, i64, usize)> = vec![];
    for (t, b) in plan.rel[0].iter().enumerate() {
        sent_inc.extend(b.iter().map(|v| { let (k, i) = req(v, keyed); (k, i, t) }));
    }
    for (t, b) in plan.rel[1].iter().enumerate() {
        sent_get.extend(b.iter().map(|v| { let (k, i) = req(v, keyed); (k, i, t) }));
    }
    let mut acked: Vec<(i64, i64, usize)> = vec![];
    for (t, b) in ex.outs[0].iter().enumerate() {
        acked.extend(b.iter().map(|v| { let (k, i) = req(v, keyed); (k, i, t) }));
    }
    // responses: unkeyed (id, count); keyed (key, (id, count))
    let mut resp: Vec<(i64, i64, i64, usize)> = vec![]; // key, id, count, tick
    for (t, b) in ex.outs[1].iter().enumerate() {
        for v in b {
            let r = v.tuple();
            if keyed {
                let inner = r[1].tuple();
                resp.push((r[0].int(), inner[0].int(), inner[1].int(), t));
            } else {
                resp.push((0, r[0].int(), r[1].int(), t));
            }
        }
    }
    let mut violation: Option<Violation> = None;
    let mut viol = |class: &str, detail: String| {
        if violation.is_none() {
            violation = Some(Violation::new(format!("{class}/{}", entry.name), format!("{detail} (releases {:?}; acks {:?}; responses {:?})", plan.rel, ex.outs[0], ex.outs[1])));
        }
    };
    // every increment is acknowledged exactly once, never before it was sent
    for (k, i, t) in &sent_inc {
        let a: Vec<&(i64, i64, usize)> = acked.iter().filter(|a| a.0 == *k && a.1 == *i).collect();
        if a.len() != 1 {
            viol("ack_count", format!("increment ({k},{i}) sent in tick {t} was acknowledged {} times", a.len()));
        } else if a[0].2 < *t {
            viol("ack_count", format!("increment ({k},{i}) acknowledged in tick {} before it was sent in tick {t}", a[0].2));
        }
    }
    if acked.len() != sent_inc.len() {
        viol("ack_count", format!("{} acknowledgements for {} increments", acked.len(), sent_inc.len()));
    }
    let mut stale_possible = false;
    for (k, i, tg) in &sent_get {
        let rs: Vec<&(i64, i64, i64, usize)> = resp.iter().filter(|r| r.0 == *k && r.1 == *i).collect();
        let acked_before = acked.iter().filter(|a| a.0 == *k && a.2 < *tg).count() as i64;
        let must_answer = !keyed || acked_before > 0;
        if rs.len() > 1 || (must_answer && rs.is_empty()) {
            viol("read_answer_count", format!("read ({k},{i}) sent in tick {tg} got {} answers", rs.len()));
            continue;
        }
        for r in rs {
            let released_by_then = sent_inc.iter().filter(|s| s.0 == *k && s.2 <= r.3).count() as i64;
            if r.2 < acked_before {
                viol("stale_read_after_ack", format!("read ({k},{i}) sent in tick {tg} returned {} but {acked_before} increments of that key were acknowledged in earlier ticks", r.2));
            }
            if r.2 > released_by_then {
                viol("phantom_read", format!("read ({k},{i}) answered in tick {} returned {} but only {released_by_then} increments were sent by then", r.3, r.2));
            }
            if acked_before > 0 {
                stale_possible = true;
            }
        }
    }
    if resp.len() > sent_get.len() {
        viol("read_answer_count", format!("{} answers for {} reads", resp.len(), sent_get.len()));
    }
    if stale_possible {
        sim.probe("read_sent_after_an_observed_ack");
    }
    let nontrivial = !sent_inc.is_empty() && !sent_get.is_empty() && noncanon && stale_possible;
    Outcome { violation, nontrivial, sim_time: ex.total_ticks as u64, discarded: false }
}
