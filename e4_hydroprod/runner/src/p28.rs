//! C28 — safe top-level Hydro code is eventually deterministic across tick partitions.
//!
//! Every run executes one corpus flow twice on the same inputs: under the canonical schedule
//! (everything released before tick 0) and under a seeded schedule (partition of every input into
//! ticks; for multi-location flows also location order and network delivery). After all inputs
//! are released and the system is idle the accumulated outputs must be equal across the two
//! schedules and equal to the hand-written `final_spec`.

use simcore::{Outcome, Sim, Violation};

use crate::corpus::{Entry, OutKind};
use e4_gen::io::{EagerNet, Exec, Plan, SimNet};
use crate::sched::{self, Shape};
use e4_gen::val::{Val, ints, pairs, sorted, vi, vints, vp, vpairs, vt2};

type I = [Vec<Val>];
type O = Vec<Vec<Val>>;

pub fn ordfold(xs: &[i64]) -> i64 {
    let mut acc: i32 = 0;
    for x in xs {
        acc = acc.wrapping_mul(3).wrapping_add(*x as i32);
    }
    acc as i64
}
pub fn ordreduce(xs: &[i64]) -> Option<i64> {
    let mut it = xs.iter();
    let mut acc: i32 = *it.next()? as i32;
    for x in it {
        acc = acc.wrapping_mul(3).wrapping_add(*x as i32);
    }
    Some(acc as i64)
}
pub fn running(xs: &[i64]) -> Vec<i64> {
    let mut acc: i32 = 0;
    xs.iter()
        .map(|x| {
            acc = acc.wrapping_mul(3).wrapping_add(*x as i32);
            acc as i64
        })
        .collect()
}
pub fn uniq_keep_first(xs: &[i64]) -> Vec<i64> {
    let mut seen = vec![];
    for x in xs {
        if !seen.contains(x) {
            seen.push(*x);
        }
    }
    seen
}
/// per-key value lists, keys sorted, per-key order = input order
pub fn keyed(xs: &[Val]) -> Vec<(i64, Vec<i64>)> {
    let mut out: Vec<(i64, Vec<i64>)> = vec![];
    for (k, v) in pairs(xs) {
        match out.iter_mut().find(|e| e.0 == k) {
            Some(e) => e.1.push(v),
            None => out.push((k, vec![v])),
        }
    }
    out.sort_by_key(|e| e.0);
    out
}
fn opt(x: Option<i64>) -> Vec<Val> {
    x.map(vi).into_iter().collect()
}
fn vl(xs: Vec<i64>) -> Val {
    Val::L(vints(xs))
}

// ---- specs -----------------------------------------------------------------------------------
fn f_map_filter(i: &I) -> O {
    let mut out = vec![];
    for x in ints(&i[0]) {
        let y = x * 2 + 1;
        if y % 3 == 0 {
            continue;
        }
        for z in [y, y + 100] {
            if z != 101 {
                out.push(vi(z - 1));
            }
        }
    }
    vec![out]
}
fn f_async_scan(i: &I) -> O {
    vec![vints(running(&ints(&i[0])))]
}
fn f_enumerate(i: &I) -> O {
    vec![i[0].iter().enumerate().map(|(n, v)| vt2(vi(n as i64), v.clone())).collect()]
}
fn f_scan(i: &I) -> O {
    vec![vints(running(&ints(&i[0])))]
}
fn f_unique(i: &I) -> O {
    vec![vints(uniq_keep_first(&ints(&i[0])))]
}
fn f_limit(i: &I) -> O {
    vec![i[0].iter().take(3).cloned().collect()]
}
fn f_partition(i: &I) -> O {
    let xs = ints(&i[0]);
    vec![vints(xs.iter().cloned().filter(|x| x % 2 == 0)), vints(xs.iter().cloned().filter(|x| x % 2 != 0))]
}
fn f_join_static(i: &I) -> O {
    vec![pairs(&i[0]).into_iter().filter(|(k, _)| (0..=2).contains(k)).map(|(k, v)| vt2(vi(k), vp(v, 100 + k))).collect()]
}
fn f_anti_join_static(i: &I) -> O {
    vec![pairs(&i[0]).into_iter().filter(|(k, _)| *k != 1).map(|(k, v)| vp(k, v)).collect()]
}
fn f_filter_not_in_static(i: &I) -> O {
    vec![vints(ints(&i[0]).into_iter().filter(|x| *x != 0 && *x != 2))]
}
fn f_cross_singleton_static(i: &I) -> O {
    vec![ints(&i[0]).into_iter().map(|x| vp(x, 7)).collect()]
}
fn f_threshold(i: &I) -> O {
    vec![if i[0].len() >= 3 { vec![vi(3)] } else { vec![] }]
}
fn join_rows(l: &[(i64, i64)], r: &[(i64, i64)]) -> Vec<(i64, i64, i64)> {
    let mut out = vec![];
    for (k, a) in l {
        for (k2, b) in r {
            if k == k2 {
                out.push((*k, *a, *b));
            }
        }
    }
    out
}
fn f_join(i: &I) -> O {
    vec![sorted(join_rows(&pairs(&i[0]), &pairs(&i[1])).into_iter().map(|(k, a, b)| vt2(vi(k), vp(a, b))).collect())]
}
fn f_cross_product(i: &I) -> O {
    let mut out = vec![];
    for a in ints(&i[0]) {
        for b in ints(&i[1]) {
            out.push(vp(a, b));
        }
    }
    vec![sorted(out)]
}
fn f_merge(i: &I) -> O {
    vec![sorted(vints(ints(&i[0]).into_iter().map(|x| x + 1000).chain(ints(&i[1]))))]
}
fn f_tee(i: &I) -> O {
    let xs = ints(&i[0]);
    vec![sorted(vints(xs.iter().map(|x| x * 10).chain(xs.iter().cloned().filter(|x| *x > 0))))]
}
fn f_self_join(i: &I) -> O {
    let l = pairs(&i[0]);
    let r: Vec<(i64, i64)> = l.iter().map(|(k, v)| (*k, v + 50)).collect();
    vec![sorted(join_rows(&l, &r).into_iter().map(|(k, a, b)| vt2(vi(k), vp(a, b))).collect())]
}
fn f_keyed_first(i: &I) -> O {
    vec![sorted(vpairs(keyed(&i[0]).into_iter().map(|(k, vs)| (k, vs[0]))))]
}
fn f_fold(i: &I) -> O {
    vec![vec![vi(ordfold(&ints(&i[0])))]]
}
fn f_reduce(i: &I) -> O {
    vec![opt(ordreduce(&ints(&i[0])))]
}
fn f_count(i: &I) -> O {
    vec![vec![vi(i[0].len() as i64)]]
}
fn f_max(i: &I) -> O {
    vec![opt(ints(&i[0]).into_iter().max())]
}
fn f_min(i: &I) -> O {
    vec![opt(ints(&i[0]).into_iter().min())]
}
fn f_first(i: &I) -> O {
    vec![opt(ints(&i[0]).first().cloned())]
}
fn f_last(i: &I) -> O {
    vec![opt(ints(&i[0]).last().cloned())]
}
fn f_collect_vec(i: &I) -> O {
    vec![vec![Val::L(i[0].clone())]]
}
fn f_join_sum(i: &I) -> O {
    let mut acc: i32 = 0;
    for (k, a, b) in join_rows(&pairs(&i[0]), &pairs(&i[1])) {
        acc = acc.wrapping_add((k * 100 + a * 10 + b) as i32);
    }
    vec![vec![vi(acc as i64)]]
}
fn f_unique_count(i: &I) -> O {
    vec![vec![vi(uniq_keep_first(&ints(&i[0])).len() as i64)]]
}
fn f_cross_count(i: &I) -> O {
    vec![vec![vi((i[0].len() * i[1].len()) as i64)]]
}
fn f_keyed_fold(i: &I) -> O {
    vec![sorted(vpairs(keyed(&i[0]).into_iter().map(|(k, vs)| (k, ordfold(&vs)))))]
}
fn f_keyed_reduce(i: &I) -> O {
    vec![sorted(vpairs(keyed(&i[0]).into_iter().map(|(k, vs)| (k, ordreduce(&vs).unwrap()))))]
}
fn f_value_counts(i: &I) -> O {
    vec![sorted(vpairs(keyed(&i[0]).into_iter().map(|(k, vs)| (k, vs.len() as i64))))]
}
fn f_key_count(i: &I) -> O {
    vec![vec![vi(keyed(&i[0]).len() as i64)]]
}
fn f_keyed_vec(i: &I) -> O {
    vec![sorted(keyed(&i[0]).into_iter().map(|(k, vs)| vt2(vi(k), vl(vs))).collect())]
}
fn f_keyed_scan(i: &I) -> O {
    vec![sorted(keyed(&i[0]).into_iter().map(|(k, vs)| vt2(vi(k), vl(running(&vs)))).collect())]
}
fn f_keyed_enum_limit(i: &I) -> O {
    vec![sorted(
        keyed(&i[0])
            .into_iter()
            .map(|(k, vs)| vt2(vi(k), Val::L(vs.iter().take(2).enumerate().map(|(n, v)| vp(n as i64, *v)).collect())))
            .collect(),
    )]
}

use e4_gen::glue::*;

macro_rules! e {
    ($c:ident, $name:ident, $x:ident, $ins:expr, $kinds:expr, $spec:ident) => {
        pub const $c: Entry = Entry {
            name: stringify!($name),
            inputs: $ins,
            outs: $kinds,
            exec: $x,
            final_spec: Some($spec),
            tick_spec: None,
            hops: 0,
            locs: 1,
        };
    };
}
use OutKind::*;
use Shape::*;
e!(S_MAP_FILTER, s_map_filter, x_s_map_filter, &[Int], &[Seq], f_map_filter);
e!(S_ASYNC_SCAN, s_async_scan, x_s_async_scan, &[Int], &[Seq], f_async_scan);
e!(S_ENUMERATE, s_enumerate, x_s_enumerate, &[Int], &[Seq], f_enumerate);
e!(S_SCAN, s_scan, x_s_scan, &[Int], &[Seq], f_scan);
e!(S_UNIQUE, s_unique, x_s_unique, &[Int], &[Seq], f_unique);
e!(S_LIMIT, s_limit, x_s_limit, &[Int], &[Seq], f_limit);
e!(S_PARTITION, s_partition, x_s_partition, &[Int], &[Seq, Seq], f_partition);
e!(S_JOIN_STATIC, s_join_static, x_s_join_static, &[Kv], &[Seq], f_join_static);
e!(S_ANTI_JOIN_STATIC, s_anti_join_static, x_s_anti_join_static, &[KvUniqVal], &[Seq], f_anti_join_static);
e!(S_FILTER_NOT_IN_STATIC, s_filter_not_in_static, x_s_filter_not_in_static, &[UniqInt], &[Seq], f_filter_not_in_static);
e!(S_CROSS_SINGLETON_STATIC, s_cross_singleton_static, x_s_cross_singleton_static, &[Int], &[Seq], f_cross_singleton_static);
e!(S_THRESHOLD, s_threshold, x_s_threshold, &[Int], &[Seq], f_threshold);
e!(S_JOIN, s_join, x_s_join, &[Kv, Kv], &[Bag], f_join);
e!(S_CROSS_PRODUCT, s_cross_product, x_s_cross_product, &[Int, Int], &[Bag], f_cross_product);
e!(S_MERGE, s_merge, x_s_merge, &[Int, Int], &[Bag], f_merge);
e!(S_TEE, s_tee, x_s_tee, &[Int], &[Bag], f_tee);
e!(S_SELF_JOIN, s_self_join, x_s_self_join, &[Kv], &[Bag], f_self_join);
e!(S_KEYED_FIRST, s_keyed_first, x_s_keyed_first, &[Kv], &[Bag], f_keyed_first);
e!(S_FOLD, s_fold, x_s_fold, &[Int], &[SnapOne], f_fold);
e!(S_REDUCE, s_reduce, x_s_reduce, &[Int], &[SnapOpt], f_reduce);
e!(S_COUNT, s_count, x_s_count, &[Int], &[SnapOne], f_count);
e!(S_MAX, s_max, x_s_max, &[Int], &[SnapOpt], f_max);
e!(S_MIN, s_min, x_s_min, &[Int], &[SnapOpt], f_min);
e!(S_FIRST, s_first, x_s_first, &[Int], &[SnapOpt], f_first);
e!(S_LAST, s_last, x_s_last, &[Int], &[SnapOpt], f_last);
e!(S_COLLECT_VEC, s_collect_vec, x_s_collect_vec, &[Int], &[SnapOne], f_collect_vec);
e!(S_JOIN_SUM, s_join_sum, x_s_join_sum, &[Kv, Kv], &[SnapOne], f_join_sum);
e!(S_UNIQUE_COUNT, s_unique_count, x_s_unique_count, &[Int], &[SnapOne], f_unique_count);
e!(S_CROSS_COUNT, s_cross_count, x_s_cross_count, &[Int, Int], &[SnapOne], f_cross_count);
e!(S_KEYED_FOLD, s_keyed_fold, x_s_keyed_fold, &[Kv], &[SnapBag], f_keyed_fold);
e!(S_KEYED_REDUCE, s_keyed_reduce, x_s_keyed_reduce, &[Kv], &[SnapBag], f_keyed_reduce);
e!(S_VALUE_COUNTS, s_value_counts, x_s_value_counts, &[Kv], &[SnapBag], f_value_counts);
e!(S_KEY_COUNT, s_key_count, x_s_key_count, &[Kv], &[SnapOne], f_key_count);
e!(S_KEYED_VEC, s_keyed_vec, x_s_keyed_vec, &[Kv], &[SnapBag], f_keyed_vec);
e!(S_KEYED_SCAN, s_keyed_scan, x_s_keyed_scan, &[Kv], &[SnapBag], f_keyed_scan);
e!(S_KEYED_ENUM_LIMIT, s_keyed_enum_limit, x_s_keyed_enum_limit, &[Kv], &[SnapBag], f_keyed_enum_limit);

pub const ENTRIES: &[Entry] = &[
    S_MAP_FILTER,
    S_ENUMERATE,
    S_ASYNC_SCAN,
    S_SCAN,
    S_UNIQUE,
    S_LIMIT,
    S_PARTITION,
    S_JOIN_STATIC,
    S_ANTI_JOIN_STATIC,
    S_FILTER_NOT_IN_STATIC,
    S_CROSS_SINGLETON_STATIC,
    S_THRESHOLD,
    S_JOIN,
    S_CROSS_PRODUCT,
    S_MERGE,
    S_TEE,
    S_SELF_JOIN,
    S_KEYED_FIRST,
    S_FOLD,
    S_REDUCE,
    S_COUNT,
    S_MAX,
    S_MIN,
    S_FIRST,
    S_LAST,
    S_COLLECT_VEC,
    S_JOIN_SUM,
    S_UNIQUE_COUNT,
    S_CROSS_COUNT,
    S_KEYED_FOLD,
    S_KEYED_REDUCE,
    S_VALUE_COUNTS,
    S_KEY_COUNT,
    S_KEYED_VEC,
    S_KEYED_SCAN,
    S_KEYED_ENUM_LIMIT,
    crate::net::N_HOP,
    crate::net::N_HOP_FOLD,
    crate::net::N_LOSSY,
    crate::net::N_ROUNDTRIP,
    crate::net::N_FANIN,
    crate::net::N_M2O,
    crate::net::N_O2M,
    // hydro_std::quorum::collect_quorum_with_response(input, 2, 2): a safe API whose first output
    // is typed TotalOrder. No spec (schedule independence only). Exposes the known finding F1
    // (FINDINGS.md), class `sequence_differs/q_resp_22`.
    crate::p39p::Q_RESP_22,
];

/// The final observable contents of every output, in the canonical form of its kind, or the
/// reason why the observation shim's own contract is broken.
pub fn finals(entry: &Entry, ex: &Exec) -> Result<Vec<Vec<Val>>, (String, String)> {
    let mut out = vec![];
    for (o, kind) in entry.outs.iter().enumerate() {
        let v = match kind {
            OutKind::Seq => ex.all(o),
            OutKind::Bag => sorted(ex.all(o)),
            OutKind::SnapOne => {
                let l = ex.last_tick(o);
                if l.len() != 1 {
                    return Err(("snapshot_cardinality".into(), format!("singleton snapshot of the last tick holds {} values: {l:?}", l.len())));
                }
                l
            }
            OutKind::SnapOpt => {
                let l = ex.last_tick(o);
                if l.len() > 1 {
                    return Err(("snapshot_cardinality".into(), format!("optional snapshot of the last tick holds {} values: {l:?}", l.len())));
                }
                l
            }
            OutKind::SnapBag => {
                let l = sorted(ex.last_tick(o));
                let mut keys: Vec<&Val> = l.iter().map(|e| &e.tuple()[0]).collect();
                keys.dedup();
                if keys.len() != l.len() {
                    return Err(("snapshot_cardinality".into(), format!("keyed-singleton snapshot of the last tick holds a key twice: {l:?}")));
                }
                l
            }
        };
        out.push(v);
    }
    Ok(out)
}

/// ticks run after the liveness budget; nothing observable may change during them
pub const EXTRA: usize = 3;

/// Did anything observable still change during the last `extra` ticks of an output's location?
pub fn late_change(entry: &Entry, ex: &Exec, extra: usize) -> Option<String> {
    for (o, kind) in entry.outs.iter().enumerate() {
        let ticks = &ex.outs[o];
        let n = ticks.len();
        if n < extra + 1 {
            continue;
        }
        for t in (n - extra)..n {
            match kind {
                OutKind::Seq | OutKind::Bag => {
                    if !ticks[t].is_empty() {
                        return Some(format!("output {o} still emitted {:?} in tick {t} of {n}", ticks[t]));
                    }
                }
                _ => {
                    if sorted(ticks[t].clone()) != sorted(ticks[t - 1].clone()) {
                        return Some(format!("snapshot {o} still changed from {:?} to {:?} in tick {t} of {n}", ticks[t - 1], ticks[t]));
                    }
                }
            }
        }
    }
    None
}

pub fn liveness_bound(entry: &Entry, items: usize) -> usize {
    4 * (items + entry.hops) + 8
}

/// One simulated run of a C28 entry.
pub fn run(entry: &Entry, sim: &mut Sim) -> Outcome {
    let knobs = sched::draw_knobs(sim, 12 / entry.inputs.len().max(1));
    let lazy_net = entry.locs > 1 && sim.flip("k_lazy_net", 3, 4);
    let inputs: Vec<Vec<Val>> = entry.inputs.iter().map(|s| sched::gen_input(sim, *s, &knobs)).collect();
    let items: usize = inputs.iter().map(|i| i.len()).sum();
    let bound = liveness_bound(entry, items);
    let plan_a = Plan::canonical(&inputs, bound, EXTRA);
    let (mut plan_b, noncanon) = sched::partition(sim, &inputs, &knobs, bound, EXTRA);
    if entry.locs > 1 {
        // more seeded scheduler steps (location order, delayed deliveries) after the last release
        let more = sim.choose("net_steps", 0, 2 * items as u64 + 4) as usize;
        for r in plan_b.rel.iter_mut() {
            r.extend(std::iter::repeat_n(vec![], more));
        }
    }
    sim.event(0x2800 + items as u64, || format!("entry {} inputs {:?}", entry.name, inputs));
    sim.event(plan_b.steps() as u64, || format!("schedule B releases {:?}", plan_b.rel));
    if entry.name == "s_async_scan" {
        // how often every simulated future answers Pending before it completes
        plan_b.pends = (0..items).map(|_| sim.choose("pend", 0, 2) as u8).collect();
    }
    let ex_a = (entry.exec)(&plan_a, &mut EagerNet::default());
    let ex_b = (entry.exec)(&plan_b, &mut SimNet { sim, lazy: lazy_net });
    sim.event(crate::hash_vals(&ex_a.outs), || format!("A (canonical) per-step outputs {:?}", ex_a.outs));
    sim.event(crate::hash_vals(&ex_b.outs), || format!("B per-step outputs {:?} (location of each step {:?})", ex_b.outs, ex_b.loc_ticks));
    sim.state(crate::hash_vals(&ex_b.outs));
    if ex_b.suspensions > 0 {
        sim.fault("future_suspended_in_tick");
    }
    if ex_b.max_in_flight >= 2 {
        sim.probe("two_messages_in_flight");
    }
    let want = entry.final_spec.map(|spec| spec(&inputs));
    let mut violation = None;
    let mut viol = |class: &str, detail: String| {
        if violation.is_none() {
            violation = Some(Violation::new(format!("{class}/{}", entry.name), detail));
        }
    };
    // bounded liveness: after `bound` ticks (rounds) past the last release nothing observable
    // changes any more (no stream output, no snapshot change) during the `EXTRA` further ticks
    for (tag, ex, plan) in [("canonical", &ex_a, &plan_a), ("seeded", &ex_b, &plan_b)] {
        if entry.locs > 1 && ex.idle_after.is_none_or(|r| r > bound) {
            viol("liveness", format!("{tag} schedule (releases {:?}): messages still in flight after {bound} fair rounds", plan.rel));
        }
        if let Some(d) = late_change(entry, ex, EXTRA) {
            viol("liveness", format!("{tag} schedule (releases {:?}): {d} although {bound} ticks have passed since the last release", plan.rel));
        }
    }
    let fa = finals(entry, &ex_a);
    let fb = finals(entry, &ex_b);
    match (&fa, &fb) {
        (Err((c, d)), _) => viol(c, format!("canonical schedule: {d}")),
        (_, Err((c, d))) => viol(c, format!("schedule {:?}: {d}", plan_b.rel)),
        (Ok(a), Ok(b)) => {
            if a != b {
                viol(
                    // q_resp_22 has only totally ordered outputs: same class as the C29 oracle, which
                    // is the key of the known finding in known_findings.json
                    if entry.name == "q_resp_22" { "sequence_differs" } else { "final_differs" },
                    format!("inputs {inputs:?}: all-at-once gives {a:?}, releases {:?} give {b:?}", plan_b.rel),
                );
            } else if let Some(want) = want.as_ref().filter(|w| *w != a) {
                viol("final_vs_spec", format!("inputs {inputs:?}: got {a:?}, spec says {want:?}"));
            }
        }
    }
    let nontrivial = items > 0 && (noncanon || ex_b.msgs_delivered > 0);
    Outcome { violation, nontrivial, sim_time: (ex_a.total_ticks + ex_b.total_ticks) as u64, discarded: false }
}
