//! C30 — tick-scoped collections behave like finite batches; next-tick delivery.
//!
//! The simulator chose the partition, so it knows batch *i*; the oracle is a hand-written
//! `tick_spec(batches)`: output of tick *i* == operator applied to batch *i* alone (no leakage of
//! tick state), deferred values appear in tick *i+1* exactly once.

use simcore::{Outcome, Sim, Violation};

use crate::corpus::{Entry, OutKind};
use e4_gen::io::EagerNet;
use crate::sched::{self, Shape};
use e4_gen::val::{Val, ints, pairs, sorted, vi, vints, vp, vpairs, vt2};

type B = [Vec<Vec<Val>>];
type O = Vec<Vec<Vec<Val>>>;

fn ordfold(xs: &[i64]) -> i64 {
    let mut acc: i32 = 0;
    for x in xs {
        acc = acc.wrapping_mul(3).wrapping_add(*x as i32);
    }
    acc as i64
}
fn ordreduce(xs: &[i64]) -> Option<i64> {
    let mut it = xs.iter();
    let mut acc: i32 = *it.next()? as i32;
    for x in it {
        acc = acc.wrapping_mul(3).wrapping_add(*x as i32);
    }
    Some(acc as i64)
}
/// apply `f` to every batch of input 0 independently
fn per_batch(b: &B, f: impl Fn(&[Val]) -> Vec<Val>) -> O {
    vec![b[0].iter().map(|batch| f(batch)).collect()]
}
/// apply `f` to the batches of inputs 0 and 1 of the same tick
fn per_batch2(b: &B, f: impl Fn(&[Val], &[Val]) -> Vec<Val>) -> O {
    vec![b[0].iter().zip(b[1].iter()).map(|(l, r)| f(l, r)).collect()]
}
fn uniq_keep_first(xs: &[i64]) -> Vec<i64> {
    let mut seen = vec![];
    for x in xs {
        if !seen.contains(x) {
            seen.push(*x);
        }
    }
    seen
}

// ---- specs -----------------------------------------------------------------------------------
fn s_fold(b: &B) -> O {
    per_batch(b, |x| vec![vi(ordfold(&ints(x)))])
}
fn s_reduce(b: &B) -> O {
    per_batch(b, |x| ordreduce(&ints(x)).map(vi).into_iter().collect())
}
fn s_count(b: &B) -> O {
    per_batch(b, |x| vec![vi(x.len() as i64)])
}
fn s_max(b: &B) -> O {
    per_batch(b, |x| ints(x).into_iter().max().map(vi).into_iter().collect())
}
fn s_min(b: &B) -> O {
    per_batch(b, |x| ints(x).into_iter().min().map(vi).into_iter().collect())
}
fn s_first(b: &B) -> O {
    per_batch(b, |x| x.first().cloned().into_iter().collect())
}
fn s_last(b: &B) -> O {
    per_batch(b, |x| x.last().cloned().into_iter().collect())
}
fn s_limit(b: &B) -> O {
    per_batch(b, |x| x.iter().take(2).cloned().collect())
}
fn s_sort(b: &B) -> O {
    per_batch(b, |x| sorted(x.to_vec()))
}
fn s_enumerate(b: &B) -> O {
    per_batch(b, |x| x.iter().enumerate().map(|(i, v)| vt2(vi(i as i64), v.clone())).collect())
}
fn s_unique(b: &B) -> O {
    per_batch(b, |x| vints(uniq_keep_first(&ints(x))))
}
fn s_scan(b: &B) -> O {
    per_batch(b, |x| {
        let mut acc: i32 = 0;
        ints(x)
            .into_iter()
            .map(|v| {
                acc = acc.wrapping_add(v as i32);
                vi(acc as i64)
            })
            .collect()
    })
}
fn s_collect_vec(b: &B) -> O {
    per_batch(b, |x| vec![Val::L(x.to_vec())])
}
fn s_cross_singleton(b: &B) -> O {
    per_batch(b, |x| x.iter().map(|v| vt2(v.clone(), vi(x.len() as i64))).collect())
}
fn s_filter_if(b: &B) -> O {
    per_batch2(b, |x, gate| if gate.is_empty() { vec![] } else { x.to_vec() })
}
fn s_join(b: &B) -> O {
    // right side has at most one entry per key (input shape), so the probe order fixes the output
    per_batch2(b, |l, r| {
        let r = pairs(r);
        let mut out = vec![];
        for (k, v) in pairs(l) {
            for (k2, v2) in &r {
                if *k2 == k {
                    out.push(vt2(vi(k), vp(v, *v2)));
                }
            }
        }
        out
    })
}
fn s_anti_join(b: &B) -> O {
    per_batch2(b, |l, r| {
        let r = ints(r);
        l.iter().filter(|x| !r.contains(&x.tuple()[0].int())).cloned().collect()
    })
}
fn s_filter_not_in(b: &B) -> O {
    per_batch2(b, |l, r| l.iter().filter(|x| !r.contains(x)).cloned().collect())
}
fn s_cross_product(b: &B) -> O {
    per_batch2(b, |l, r| {
        let mut out = vec![];
        for x in l {
            for y in r {
                out.push(vt2(x.clone(), y.clone()));
            }
        }
        out
    })
}
fn s_chain(b: &B) -> O {
    per_batch2(b, |l, r| l.iter().chain(r.iter()).cloned().collect())
}
fn keyed(xs: &[Val]) -> Vec<(i64, Vec<i64>)> {
    let mut out: Vec<(i64, Vec<i64>)> = vec![];
    for (k, v) in pairs(xs) {
        match out.iter_mut().find(|e| e.0 == k) {
            Some(e) => e.1.push(v),
            None => out.push((k, vec![v])),
        }
    }
    out
}
fn s_keyed_fold(b: &B) -> O {
    per_batch(b, |x| sorted(vpairs(keyed(x).into_iter().map(|(k, vs)| (k, ordfold(&vs))))))
}
fn s_keyed_reduce(b: &B) -> O {
    per_batch(b, |x| sorted(vpairs(keyed(x).into_iter().map(|(k, vs)| (k, ordreduce(&vs).unwrap())))))
}
fn shifted(b: &[Vec<Val>], by: usize) -> Vec<Vec<Val>> {
    (0..b.len()).map(|t| if t >= by { b[t - by].clone() } else { vec![] }).collect()
}
fn s_defer(b: &B) -> O {
    vec![shifted(&b[0], 1)]
}
fn s_defer2(b: &B) -> O {
    vec![shifted(&b[0], 2)]
}
fn s_defer_chain(b: &B) -> O {
    let prev = shifted(&b[0], 1);
    vec![b[0].iter().zip(prev.iter()).map(|(c, p)| c.iter().chain(p.iter()).cloned().collect()).collect()]
}
fn s_defer_diff(b: &B) -> O {
    let prev = shifted(&b[0], 1);
    vec![b[0].iter().zip(prev.iter()).map(|(c, p)| c.iter().filter(|x| !p.contains(x)).cloned().collect()).collect()]
}
fn s_cycle_sum(b: &B) -> O {
    let mut tot: i32 = 0;
    vec![
        b[0].iter()
            .map(|batch| {
                for x in ints(batch) {
                    tot = tot.wrapping_add(x as i32);
                }
                vec![vi(tot as i64)]
            })
            .collect(),
    ]
}
fn s_cycle_stream(b: &B) -> O {
    let mut carried: Vec<i64> = vec![];
    vec![
        b[0].iter()
            .map(|batch| {
                let all: Vec<i64> = carried.iter().cloned().chain(ints(batch)).collect();
                carried = all.iter().filter(|x| **x % 2 == 0 && **x != 0).map(|x| x / 2).collect();
                vints(all)
            })
            .collect(),
    ]
}
fn s_cycle_max(b: &B) -> O {
    let mut best: Option<i64> = None;
    vec![
        b[0].iter()
            .map(|batch| {
                for x in ints(batch) {
                    best = Some(best.map_or(x, |b| b.max(x)));
                }
                best.map(vi).into_iter().collect()
            })
            .collect(),
    ]
}
fn s_across_count(b: &B) -> O {
    let mut n = 0i64;
    vec![
        b[0].iter()
            .map(|batch| {
                n += batch.len() as i64;
                vec![vi(n)]
            })
            .collect(),
    ]
}
fn s_across_fold(b: &B) -> O {
    let mut acc: i32 = 0;
    vec![
        b[0].iter()
            .map(|batch| {
                for x in ints(batch) {
                    acc = acc.wrapping_mul(3).wrapping_add(x as i32);
                }
                vec![vi(acc as i64)]
            })
            .collect(),
    ]
}

fn s_clone_into_tick(b: &B) -> O {
    per_batch(b, |x| vints(ints(x).into_iter().map(|v| v + 10)))
}
fn s_clone_into_tick_opt(b: &B) -> O {
    per_batch(b, |x| ints(x).into_iter().map(|v| vp(v, 5)).collect())
}

// ---- flows with simulated futures (really suspend inside a tick) --------------------------------
fn run3(xs: &[Val]) -> Vec<Val> {
    let mut acc: i32 = 0;
    ints(xs)
        .into_iter()
        .map(|v| {
            acc = acc.wrapping_mul(3).wrapping_add(v as i32);
            vi(acc as i64)
        })
        .collect()
}
fn s_chain_async(b: &B) -> O {
    per_batch2(b, |f, s| run3(f).into_iter().chain(s.iter().cloned()).collect())
}
fn s_chain_async_second(b: &B) -> O {
    per_batch2(b, |f, s| f.iter().cloned().chain(run3(s)).collect())
}
fn s_async_scan(b: &B) -> O {
    per_batch(b, run3)
}
fn s_resolve_blocking(b: &B) -> O {
    per_batch(b, |x| sorted(vints(ints(x).into_iter().map(|v| v + 1))))
}

use e4_gen::glue::*;

macro_rules! e {
    ($name:ident, $x:ident, $ins:expr, $kind:expr, $spec:ident) => {
        Entry {
            name: stringify!($name),
            inputs: $ins,
            outs: &[$kind],
            exec: $x,
            final_spec: None,
            tick_spec: Some($spec),
            hops: 0,
            locs: 1,
        }
    };
}

pub const TA_CHAIN_ASYNC: Entry = e!(ta_chain_async, x_ta_chain_async, &[Shape::Int, Shape::Int], OutKind::Seq, s_chain_async);
pub const TA_CHAIN_ASYNC_SECOND: Entry = e!(ta_chain_async_second, x_ta_chain_async_second, &[Shape::Int, Shape::Int], OutKind::Seq, s_chain_async_second);
pub const TA_ASYNC_SCAN: Entry = e!(ta_async_scan, x_ta_async_scan, &[Shape::Int], OutKind::Seq, s_async_scan);

pub const ENTRIES: &[Entry] = &[
    e!(t_fold, x_t_fold, &[Shape::Int], OutKind::Seq, s_fold),
    e!(t_reduce, x_t_reduce, &[Shape::Int], OutKind::Seq, s_reduce),
    e!(t_count, x_t_count, &[Shape::Int], OutKind::Seq, s_count),
    e!(t_max, x_t_max, &[Shape::Int], OutKind::Seq, s_max),
    e!(t_min, x_t_min, &[Shape::Int], OutKind::Seq, s_min),
    e!(t_first, x_t_first, &[Shape::Int], OutKind::Seq, s_first),
    e!(t_last, x_t_last, &[Shape::Int], OutKind::Seq, s_last),
    e!(t_limit, x_t_limit, &[Shape::Int], OutKind::Seq, s_limit),
    e!(t_sort, x_t_sort, &[Shape::Int], OutKind::Seq, s_sort),
    e!(t_enumerate, x_t_enumerate, &[Shape::Int], OutKind::Seq, s_enumerate),
    e!(t_unique, x_t_unique, &[Shape::Int], OutKind::Seq, s_unique),
    e!(t_scan, x_t_scan, &[Shape::Int], OutKind::Seq, s_scan),
    e!(t_collect_vec, x_t_collect_vec, &[Shape::Int], OutKind::Seq, s_collect_vec),
    e!(t_cross_singleton, x_t_cross_singleton, &[Shape::Int], OutKind::Seq, s_cross_singleton),
    e!(t_filter_if, x_t_filter_if, &[Shape::Int, Shape::Int], OutKind::Seq, s_filter_if),
    e!(t_join, x_t_join, &[Shape::Kv, Shape::KvUniqKey], OutKind::Seq, s_join),
    e!(t_anti_join, x_t_anti_join, &[Shape::KvUniqVal, Shape::Key], OutKind::Seq, s_anti_join),
    e!(t_filter_not_in, x_t_filter_not_in, &[Shape::UniqInt, Shape::Int], OutKind::Seq, s_filter_not_in),
    e!(t_cross_product, x_t_cross_product, &[Shape::Int, Shape::Int], OutKind::Seq, s_cross_product),
    e!(t_chain, x_t_chain, &[Shape::Int, Shape::Int], OutKind::Seq, s_chain),
    e!(t_keyed_fold, x_t_keyed_fold, &[Shape::Kv], OutKind::Bag, s_keyed_fold),
    e!(t_keyed_reduce, x_t_keyed_reduce, &[Shape::Kv], OutKind::Bag, s_keyed_reduce),
    e!(t_defer, x_t_defer, &[Shape::Int], OutKind::Seq, s_defer),
    e!(t_defer2, x_t_defer2, &[Shape::Int], OutKind::Seq, s_defer2),
    e!(t_defer_chain, x_t_defer_chain, &[Shape::Int], OutKind::Seq, s_defer_chain),
    e!(t_defer_diff, x_t_defer_diff, &[Shape::UniqInt], OutKind::Seq, s_defer_diff),
    e!(t_cycle_sum, x_t_cycle_sum, &[Shape::Int], OutKind::Seq, s_cycle_sum),
    e!(t_cycle_stream, x_t_cycle_stream, &[Shape::Int], OutKind::Seq, s_cycle_stream),
    e!(t_cycle_max, x_t_cycle_max, &[Shape::Int], OutKind::Seq, s_cycle_max),
    e!(t_across_count, x_t_across_count, &[Shape::Int], OutKind::Seq, s_across_count),
    e!(t_across_fold, x_t_across_fold, &[Shape::Int], OutKind::Seq, s_across_fold),
    e!(t_noorder_count, x_t_noorder_count, &[Shape::Int], OutKind::Seq, s_count),
    e!(t_clone_into_tick, x_t_clone_into_tick, &[Shape::Int], OutKind::Seq, s_clone_into_tick),
    e!(t_clone_into_tick_opt, x_t_clone_into_tick_opt, &[Shape::Int], OutKind::Seq, s_clone_into_tick_opt),
    TA_CHAIN_ASYNC,
    TA_CHAIN_ASYNC_SECOND,
    TA_ASYNC_SCAN,
    e!(ta_resolve_blocking, x_ta_resolve_blocking, &[Shape::Int], OutKind::Bag, s_resolve_blocking),
];

/// One simulated run of a C30 entry.
pub fn run(entry: &Entry, sim: &mut Sim) -> Outcome {
    let knobs = sched::draw_knobs(sim, 8);
    let inputs: Vec<Vec<Val>> = entry.inputs.iter().map(|s| sched::gen_input(sim, *s, &knobs)).collect();
    // no drain logic here: `extra` empty ticks after the last release observe deferred items
    // (and that they do not come out a second time)
    let extra = 2 + sim.choose("extra_ticks", 0, 2) as usize;
    let (mut plan, noncanon) = sched::partition(sim, &inputs, &knobs, 0, extra);
    let items = plan.items();
    if entry.name.starts_with("ta_") {
        // how often every simulated future of the flow answers Pending before it completes
        plan.pends = (0..items).map(|_| sim.choose("pend", 0, 2) as u8).collect();
    }
    sim.event(0x3000 + items as u64, || format!("entry {} inputs {:?}", entry.name, inputs));
    sim.event(plan.steps() as u64, || format!("batches {:?} (+{} empty ticks)", plan.rel, extra));
    let ex = (entry.exec)(&plan, &mut EagerNet::default());
    let batches = plan.batches(ex.total_ticks);
    let want = (entry.tick_spec.expect("C30 entry without tick_spec"))(&batches);
    sim.event(crate::hash_vals(&ex.outs), || format!("per-tick outputs {:?}", ex.outs));
    sim.state(crate::hash_vals(&ex.outs));
    let mut violation = None;
    'chk: for (o, kind) in entry.outs.iter().enumerate() {
        for t in 0..ex.total_ticks {
            let got = ex.outs[o][t].clone();
            let exp = want[o].get(t).cloned().unwrap_or_default();
            let (g, e) = if *kind == OutKind::Bag { (sorted(got), sorted(exp)) } else { (got, exp) };
            if g != e {
                let what = if t >= plan.steps() { "late_tick_output" } else { "tick_output" };
                violation = Some(Violation::new(
                    format!("{what}/{}", entry.name),
                    format!(
                        "tick {t}: output {g:?}, expected {e:?} for batch {:?} (all batches {:?}, all outputs {:?})",
                        batches.iter().map(|b| b[t].clone()).collect::<Vec<_>>(),
                        plan.rel,
                        ex.outs[o]
                    ),
                ));
                break 'chk;
            }
        }
    }
    if plan.rel.iter().any(|r| r.iter().filter(|b| !b.is_empty()).count() >= 2) {
        sim.probe("two_nonempty_batches");
    }
    if ex.suspensions > 0 {
        sim.fault("future_suspended_in_tick");
    }
    let nontrivial = items > 0 && noncanon;
    Outcome { violation, nontrivial, sim_time: ex.total_ticks as u64, discarded: false }
}
