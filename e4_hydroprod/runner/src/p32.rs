//! C32 — library-internal `assume_ordering_trusted` / `assume_retries_trusted` call sites are
//! justified: results are independent of every input permutation / duplication the (weak) input
//! type admits.
//!
//! Per run: draw an input, transform it by what its declared type admits (permutation for
//! `NoOrder`; duplication for `AtLeastOnce` — anywhere for unordered streams, directly after the
//! original for totally ordered ones; cross-key interleaving for keyed inputs whose per-key order
//! is fixed), partition it into ticks, and compare with the run on the untransformed input in
//! one tick and with a spec that is insensitive to exactly those transformations.

use e4_gen::glue::*;
use e4_gen::io::{EagerNet, Plan};
use e4_gen::val::{Val, ints, sorted, vi, vints, vp, vpairs, vt2};
use simcore::{Outcome, Sim, Violation};

use crate::corpus::{Entry, OutKind};
use crate::p28::{self, keyed, ordfold};
use crate::sched::{self, Shape};

/// What the declared input type admits.
#[derive(Clone, Copy, Debug, PartialEq)]
pub struct Adm {
    /// `NoOrder`: any permutation
    pub perm: bool,
    /// `AtLeastOnce`: duplicates
    pub dup: bool,
    /// keyed, per-key order fixed, no order across keys: cross-key interleavings
    pub ileave: bool,
}
const NONE: Adm = Adm { perm: false, dup: false, ileave: false };
const PERM: Adm = Adm { perm: true, dup: false, ileave: false };
const PERM_DUP: Adm = Adm { perm: true, dup: true, ileave: false };
const DUP: Adm = Adm { perm: false, dup: true, ileave: false };
const ILEAVE: Adm = Adm { perm: false, dup: false, ileave: true };
const ILEAVE_DUP: Adm = Adm { perm: false, dup: true, ileave: true };

pub fn admits(name: &str) -> &'static [Adm] {
    match name {
        "w_max_top" | "w_min_top" | "w_max_tick" | "w_min_tick" | "w_is_empty_tick" => &[PERM_DUP],
        "w_first_top" | "w_last_top" | "w_first_tick" | "w_last_tick" | "w_weaken_retries" => &[DUP],
        "w_count_top" | "w_count_tick" | "w_weaken_ordering" => &[PERM],
        "w_make_totally_ordered" | "w_make_exactly_once" => &[NONE],
        "w_repeat_with_keys_tick" => &[NONE, ILEAVE],
        "k_weaken_ordering" | "k_value_counts_top" | "k_value_counts_tick" => &[PERM],
        "k_weaken_retries" => &[ILEAVE_DUP],
        "k_make_totally_ordered" | "k_make_exactly_once" | "ks_into_singleton_bv" | "ks_into_singleton_unb" | "ks_into_singleton_tick"
        | "ks_get_max_key_top" | "ks_get_max_key_tick" => &[ILEAVE],
        other => panic!("harness: no admissibility registered for {other}"),
    }
}

// ---- specs (each is invariant under the transformations its entry admits) ---------------------
type I = [Vec<Val>];
type O = Vec<Vec<Val>>;
type B = [Vec<Vec<Val>>];
type OT = Vec<Vec<Vec<Val>>>;
fn opt(x: Option<i64>) -> Vec<Val> {
    x.map(vi).into_iter().collect()
}
fn per_batch(b: &B, f: impl Fn(&[Val]) -> Vec<Val>) -> OT {
    vec![b[0].iter().map(|batch| f(batch)).collect()]
}
fn sumsq(xs: &[i64]) -> i64 {
    let mut acc: i32 = 0;
    for x in xs {
        acc = acc.wrapping_add((*x as i32).wrapping_mul(*x as i32));
    }
    acc as i64
}
fn dedup_adjacent(xs: &[i64]) -> Vec<i64> {
    let mut out: Vec<i64> = vec![];
    for x in xs {
        if out.last() != Some(x) {
            out.push(*x);
        }
    }
    out
}
fn vmap(kvs: Vec<(i64, Val)>) -> Val {
    let mut m: Vec<(Val, Val)> = kvs.into_iter().map(|(k, v)| (vi(k), v)).collect();
    m.sort();
    Val::M(m)
}
fn f_max(i: &I) -> O {
    vec![opt(ints(&i[0]).into_iter().max())]
}
fn f_min(i: &I) -> O {
    vec![opt(ints(&i[0]).into_iter().min())]
}
fn t_max(b: &B) -> OT {
    per_batch(b, |x| opt(ints(x).into_iter().max()))
}
fn t_min(b: &B) -> OT {
    per_batch(b, |x| opt(ints(x).into_iter().min()))
}
fn f_first(i: &I) -> O {
    vec![opt(ints(&i[0]).first().cloned())]
}
fn f_last(i: &I) -> O {
    vec![opt(ints(&i[0]).last().cloned())]
}
fn t_first(b: &B) -> OT {
    per_batch(b, |x| opt(ints(x).first().cloned()))
}
fn t_last(b: &B) -> OT {
    per_batch(b, |x| opt(ints(x).last().cloned()))
}
fn f_count(i: &I) -> O {
    vec![vec![vi(i[0].len() as i64)]]
}
fn t_count(b: &B) -> OT {
    per_batch(b, |x| vec![vi(x.len() as i64)])
}
fn t_is_empty(b: &B) -> OT {
    per_batch(b, |x| vec![Val::B(x.is_empty())])
}
fn t_repeat_with_keys(b: &B) -> OT {
    vec![
        b[0].iter()
            .zip(b[1].iter())
            .map(|(vals, keys)| {
                let mut out = vec![];
                for (k, _) in keyed(keys) {
                    for v in vals {
                        out.push(vt2(vi(k), v.clone()));
                    }
                }
                sorted(out)
            })
            .collect(),
    ]
}
fn f_sumsq(i: &I) -> O {
    vec![vec![vi(sumsq(&ints(&i[0])))]]
}
fn f_ordfold(i: &I) -> O {
    vec![vec![vi(ordfold(&ints(&i[0])))]]
}
fn f_dedup_adjacent(i: &I) -> O {
    vec![vec![Val::L(vints(dedup_adjacent(&ints(&i[0]))))]]
}
fn fk_sumsq(i: &I) -> O {
    vec![sorted(vpairs(keyed(&i[0]).into_iter().map(|(k, vs)| (k, sumsq(&vs)))))]
}
fn fk_ordfold(i: &I) -> O {
    vec![sorted(vpairs(keyed(&i[0]).into_iter().map(|(k, vs)| (k, ordfold(&vs)))))]
}
fn fk_dedup_adjacent(i: &I) -> O {
    vec![sorted(keyed(&i[0]).into_iter().map(|(k, vs)| vt2(vi(k), Val::L(vints(dedup_adjacent(&vs))))).collect())]
}
fn fk_counts(i: &I) -> O {
    vec![sorted(vpairs(keyed(&i[0]).into_iter().map(|(k, vs)| (k, vs.len() as i64))))]
}
fn tk_counts(b: &B) -> OT {
    per_batch(b, |x| sorted(vpairs(keyed(x).into_iter().map(|(k, vs)| (k, vs.len() as i64)))))
}
fn f_map_first(i: &I) -> O {
    vec![vec![vmap(keyed(&i[0]).into_iter().map(|(k, vs)| (k, vi(vs[0]))).collect())]]
}
fn f_map_fold(i: &I) -> O {
    vec![vec![vmap(keyed(&i[0]).into_iter().map(|(k, vs)| (k, vi(ordfold(&vs)))).collect())]]
}
fn t_map_fold(b: &B) -> OT {
    per_batch(b, |x| vec![vmap(keyed(x).into_iter().map(|(k, vs)| (k, vi(ordfold(&vs)))).collect())])
}
fn f_max_key_first(i: &I) -> O {
    vec![keyed(&i[0]).into_iter().max_by_key(|e| e.0).map(|(k, vs)| vp(k, vs[0])).into_iter().collect()]
}
fn t_max_key_fold(b: &B) -> OT {
    per_batch(b, |x| keyed(x).into_iter().max_by_key(|e| e.0).map(|(k, vs)| vp(k, ordfold(&vs))).into_iter().collect())
}

macro_rules! e {
    ($c:ident, $name:ident, $x:ident, $ins:expr, $kind:expr, final $spec:ident) => {
        pub const $c: Entry = Entry { name: stringify!($name), inputs: $ins, outs: &[$kind], exec: $x, final_spec: Some($spec), tick_spec: None, hops: 0, locs: 1 };
    };
    ($c:ident, $name:ident, $x:ident, $ins:expr, $kind:expr, tick $spec:ident) => {
        pub const $c: Entry = Entry { name: stringify!($name), inputs: $ins, outs: &[$kind], exec: $x, final_spec: None, tick_spec: Some($spec), hops: 0, locs: 1 };
    };
}
use OutKind::*;
use Shape::*;
e!(W_MAX_TOP, w_max_top, x_w_max_top, &[Int], SnapOpt, final f_max);
e!(W_MIN_TOP, w_min_top, x_w_min_top, &[Int], SnapOpt, final f_min);
e!(W_MAX_TICK, w_max_tick, x_w_max_tick, &[Int], Seq, tick t_max);
e!(W_MIN_TICK, w_min_tick, x_w_min_tick, &[Int], Seq, tick t_min);
e!(W_FIRST_TOP, w_first_top, x_w_first_top, &[Int], SnapOpt, final f_first);
e!(W_LAST_TOP, w_last_top, x_w_last_top, &[Int], SnapOpt, final f_last);
e!(W_FIRST_TICK, w_first_tick, x_w_first_tick, &[Int], Seq, tick t_first);
e!(W_LAST_TICK, w_last_tick, x_w_last_tick, &[Int], Seq, tick t_last);
e!(W_COUNT_TOP, w_count_top, x_w_count_top, &[Int], SnapOne, final f_count);
e!(W_COUNT_TICK, w_count_tick, x_w_count_tick, &[Int], Seq, tick t_count);
e!(W_IS_EMPTY_TICK, w_is_empty_tick, x_w_is_empty_tick, &[Int], Seq, tick t_is_empty);
e!(W_REPEAT_WITH_KEYS_TICK, w_repeat_with_keys_tick, x_w_repeat_with_keys_tick, &[Int, Kv], Bag, tick t_repeat_with_keys);
e!(W_WEAKEN_ORDERING, w_weaken_ordering, x_w_weaken_ordering, &[Int], SnapOne, final f_sumsq);
e!(W_MAKE_TOTALLY_ORDERED, w_make_totally_ordered, x_w_make_totally_ordered, &[Int], SnapOne, final f_ordfold);
e!(W_WEAKEN_RETRIES, w_weaken_retries, x_w_weaken_retries, &[Int], SnapOne, final f_dedup_adjacent);
e!(W_MAKE_EXACTLY_ONCE, w_make_exactly_once, x_w_make_exactly_once, &[Int], SnapOne, final f_count);
e!(K_WEAKEN_ORDERING, k_weaken_ordering, x_k_weaken_ordering, &[Kv], SnapBag, final fk_sumsq);
e!(K_MAKE_TOTALLY_ORDERED, k_make_totally_ordered, x_k_make_totally_ordered, &[Kv], SnapBag, final fk_ordfold);
e!(K_WEAKEN_RETRIES, k_weaken_retries, x_k_weaken_retries, &[Kv], SnapBag, final fk_dedup_adjacent);
e!(K_MAKE_EXACTLY_ONCE, k_make_exactly_once, x_k_make_exactly_once, &[Kv], SnapBag, final fk_ordfold);
e!(K_VALUE_COUNTS_TOP, k_value_counts_top, x_k_value_counts_top, &[Kv], SnapBag, final fk_counts);
e!(K_VALUE_COUNTS_TICK, k_value_counts_tick, x_k_value_counts_tick, &[Kv], Bag, tick tk_counts);
e!(KS_INTO_SINGLETON_BV, ks_into_singleton_bv, x_ks_into_singleton_bv, &[Kv], SnapOne, final f_map_first);
e!(KS_INTO_SINGLETON_UNB, ks_into_singleton_unb, x_ks_into_singleton_unb, &[Kv], SnapOne, final f_map_fold);
e!(KS_INTO_SINGLETON_TICK, ks_into_singleton_tick, x_ks_into_singleton_tick, &[Kv], Seq, tick t_map_fold);
e!(KS_GET_MAX_KEY_TOP, ks_get_max_key_top, x_ks_get_max_key_top, &[Kv], SnapOpt, final f_max_key_first);
e!(KS_GET_MAX_KEY_TICK, ks_get_max_key_tick, x_ks_get_max_key_tick, &[Kv], Seq, tick t_max_key_fold);

pub const ENTRIES: &[Entry] = &[
    W_MAX_TOP,
    W_MIN_TOP,
    W_MAX_TICK,
    W_MIN_TICK,
    W_FIRST_TOP,
    W_LAST_TOP,
    W_FIRST_TICK,
    W_LAST_TICK,
    W_COUNT_TOP,
    W_COUNT_TICK,
    W_IS_EMPTY_TICK,
    W_REPEAT_WITH_KEYS_TICK,
    W_WEAKEN_ORDERING,
    W_MAKE_TOTALLY_ORDERED,
    W_WEAKEN_RETRIES,
    W_MAKE_EXACTLY_ONCE,
    K_WEAKEN_ORDERING,
    K_MAKE_TOTALLY_ORDERED,
    K_WEAKEN_RETRIES,
    K_MAKE_EXACTLY_ONCE,
    K_VALUE_COUNTS_TOP,
    K_VALUE_COUNTS_TICK,
    KS_INTO_SINGLETON_BV,
    KS_INTO_SINGLETON_UNB,
    KS_INTO_SINGLETON_TICK,
    KS_GET_MAX_KEY_TOP,
    KS_GET_MAX_KEY_TICK,
];

/// Apply what the input's declared type admits. Returns the transformed input and whether
/// anything changed.
pub fn transform(sim: &mut Sim, xs: &[Val], adm: Adm) -> (Vec<Val>, bool) {
    let mut cur = xs.to_vec();
    let mut changed = false;
    if adm.ileave {
        let groups = sched::per_key(&cur);
        let next = sched::interleave(sim, &groups);
        changed |= next != cur;
        cur = next;
    }
    if adm.perm {
        let (next, ch) = sched::permute(sim, &cur);
        changed |= ch;
        cur = next;
    }
    if adm.dup {
        // a totally ordered at-least-once stream only admits re-application right after the
        // original; an unordered one admits copies anywhere
        let (next, ch) = sched::duplicate(sim, &cur, !adm.perm);
        changed |= ch;
        cur = next;
    }
    (cur, changed)
}

pub fn run(entry: &Entry, sim: &mut Sim) -> Outcome {
    let knobs = sched::draw_knobs(sim, 6);
    let inputs: Vec<Vec<Val>> = entry.inputs.iter().map(|s| sched::gen_input(sim, *s, &knobs)).collect();
    let adm = admits(entry.name);
    let mut changed = false;
    let mut fed: Vec<Vec<Val>> = vec![];
    for (i, inp) in inputs.iter().enumerate() {
        let (t, ch) = transform(sim, inp, adm[i]);
        changed |= ch;
        fed.push(t);
    }
    let items: usize = fed.iter().map(|i| i.len()).sum();
    sim.event(0x3200 + items as u64, || format!("entry {} inputs {:?} fed as {:?}", entry.name, inputs, fed));
    let mut violation = None;
    let total_ticks;
    let noncanon;
    if let Some(spec) = entry.final_spec {
        let bound = p28::liveness_bound(entry, items).min(6);
        let plan_a = Plan::canonical(&inputs, bound, 1);
        let (plan_b, nc) = sched::partition(sim, &fed, &knobs, bound, 1);
        noncanon = nc;
        let ex_a = (entry.exec)(&plan_a, &mut EagerNet::default());
        let ex_b = (entry.exec)(&plan_b, &mut EagerNet::default());
        sim.event(crate::hash_vals(&ex_b.outs), || format!("untransformed, one tick: {:?}; transformed, releases {:?}: {:?}", ex_a.outs, plan_b.rel, ex_b.outs));
        sim.state(crate::hash_vals(&ex_b.outs));
        total_ticks = ex_a.total_ticks + ex_b.total_ticks;
        let want = spec(&inputs);
        match (p28::finals(entry, &ex_a), p28::finals(entry, &ex_b)) {
            (Err((c, d)), _) | (_, Err((c, d))) => violation = Some(Violation::new(format!("{c}/{}", entry.name), d)),
            (Ok(a), Ok(b)) => {
                if a != b {
                    violation = Some(Violation::new(
                        format!("order_or_dup_dependent/{}", entry.name),
                        format!("input {inputs:?} gives {a:?}, admissible variant {fed:?} (releases {:?}) gives {b:?}", plan_b.rel),
                    ));
                } else if a != want {
                    violation = Some(Violation::new(format!("final_vs_spec/{}", entry.name), format!("inputs {inputs:?}: got {a:?}, spec says {want:?}")));
                }
            }
        }
    } else {
        let spec = entry.tick_spec.expect("C32 entry without spec");
        let extra = 1 + sim.choose("extra_ticks", 0, 1) as usize;
        let (plan_b, nc) = sched::partition(sim, &fed, &knobs, 0, extra);
        noncanon = nc;
        let ex = (entry.exec)(&plan_b, &mut EagerNet::default());
        total_ticks = ex.total_ticks;
        let batches = plan_b.batches(ex.total_ticks);
        let want = spec(&batches);
        sim.event(crate::hash_vals(&ex.outs), || format!("batches {:?} per-tick outputs {:?}", plan_b.rel, ex.outs));
        sim.state(crate::hash_vals(&ex.outs));
        for t in 0..ex.total_ticks {
            let got = ex.outs[0][t].clone();
            let exp = want[0].get(t).cloned().unwrap_or_default();
            let (g, e) = if entry.outs[0] == OutKind::Bag { (sorted(got), sorted(exp)) } else { (got, exp) };
            if g != e {
                violation = Some(Violation::new(
                    format!("tick_output/{}", entry.name),
                    format!("tick {t}: output {g:?}, expected {e:?} for batch {:?} (all batches {:?})", batches.iter().map(|b| b[t].clone()).collect::<Vec<_>>(), plan_b.rel),
                ));
                break;
            }
        }
    }
    let nontrivial = items > 0 && (changed || noncanon);
    Outcome { violation, nontrivial, sim_time: total_ticks as u64, discarded: false }
}
