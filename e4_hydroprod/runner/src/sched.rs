//! What the simulator owns: input contents, the partition of every input into ticks, admissible
//! permutations / duplications, cross-key interleavings.

use simcore::Sim;

use e4_gen::io::Plan;
use e4_gen::val::{Val, vi, vp};

/// Shape of one embedded input (its Rust item type is fixed by the flow).
#[derive(Clone, Copy, Debug)]
pub enum Shape {
    /// `i32` from a small domain (duplicates likely)
    Int,
    /// `i32`, all distinct
    UniqInt,
    /// `(i32 key, i32 value)`, few keys, small value domain
    Kv,
    /// `(i32 key, i32 value)`, values all distinct
    KvUniqVal,
    /// `(i32 key, i32 value)`, every key at most once
    KvUniqKey,
    /// `i32` keys from the same key domain as `Kv`
    Key,
    /// `(i32 key, Result<i32, i32>)`: quorum responses, at most `.0` responses per key,
    /// payloads all distinct
    Resp(u8),
}

/// Per-run knobs drawn first (swarm testing).
#[derive(Clone, Debug)]
pub struct Knobs {
    pub max_len: usize,
    pub dom: i64,
    pub keys: i64,
    /// 0 = everything in one tick, 1 = one item per tick, 2 = random gaps, 3 = bursty
    pub part_mode: u64,
}

pub fn draw_knobs(sim: &mut Sim, max_len: usize) -> Knobs {
    let max_len = *sim.pick("k_maxlen", &[max_len, max_len / 2 + 1, 3, 1]);
    let dom = *sim.pick("k_dom", &[6i64, 3, 12, 2]);
    let keys = *sim.pick("k_keys", &[3i64, 2, 4, 1]);
    let part_mode = sim.weighted("k_part", &[1, 2, 5, 3]) as u64;
    Knobs { max_len, dom, keys, part_mode }
}

pub fn gen_input(sim: &mut Sim, shape: Shape, k: &Knobs) -> Vec<Val> {
    let n = sim.choose("len", 0, k.max_len as u64) as usize;
    let mut out = Vec::with_capacity(n);
    match shape {
        Shape::Int => {
            for _ in 0..n {
                out.push(vi(sim.choose("item", 0, k.dom as u64 - 1) as i64 - k.dom / 3));
            }
        }
        Shape::UniqInt => {
            // distinct values in a seeded order
            let mut pool: Vec<i64> = (0..(n as i64 + 3)).map(|x| x * 2 - 3).collect();
            for _ in 0..n {
                let i = sim.choose("uitem", 0, pool.len() as u64 - 1) as usize;
                out.push(vi(pool.remove(i)));
            }
        }
        Shape::Kv => {
            for _ in 0..n {
                let key = sim.choose("key", 0, k.keys as u64 - 1) as i64;
                let v = sim.choose("item", 0, k.dom as u64 - 1) as i64 - k.dom / 3;
                out.push(vp(key, v));
            }
        }
        Shape::KvUniqVal => {
            for i in 0..n {
                let key = sim.choose("key", 0, k.keys as u64 - 1) as i64;
                out.push(vp(key, 10 + i as i64));
            }
        }
        Shape::KvUniqKey => {
            let mut pool: Vec<i64> = (0..(k.keys.max(n as i64))).collect();
            for _ in 0..n.min(pool.len()) {
                let i = sim.choose("ukey", 0, pool.len() as u64 - 1) as usize;
                let v = sim.choose("item", 0, k.dom as u64 - 1) as i64;
                out.push(vp(pool.remove(i), v));
            }
        }
        Shape::Key => {
            for _ in 0..n {
                out.push(vi(sim.choose("key", 0, k.keys as u64 - 1) as i64));
            }
        }
        Shape::Resp(max) => {
            let keys = k.keys.min(3);
            let mut used = vec![0u8; keys as usize];
            let err_pct = *sim.pick("k_err_pct", &[20u64, 0, 50]);
            for i in 0..n {
                let live: Vec<i64> = (0..keys).filter(|c| used[*c as usize] < max).collect();
                if live.is_empty() {
                    break;
                }
                let key = live[sim.choose("key", 0, live.len() as u64 - 1) as usize];
                used[key as usize] += 1;
                let is_err = sim.flip("resp_err", err_pct, 100);
                out.push(Val::T(vec![vi(key), Val::T(vec![vi(is_err as i64), vi(100 + i as i64)])]));
            }
        }
    }
    out
}

/// Partition every input into release steps. Items of one input keep their order and are
/// released at non-decreasing steps; different inputs are partitioned independently (their
/// relative arrival is part of the schedule). Decision value 0 everywhere = everything before
/// step 0 (the canonical schedule). Returns the plan and whether it differs from the canonical one.
pub fn partition(sim: &mut Sim, inputs: &[Vec<Val>], k: &Knobs, max_drain: usize, extra: usize) -> (Plan, bool) {
    let mut steps_of: Vec<Vec<usize>> = vec![];
    let mut max_step = 0usize;
    let mut nonbenign = false;
    for inp in inputs {
        let mut cur = match k.part_mode {
            0 => 0,
            _ => sim.choose("lead", 0, 2) as usize, // leading empty ticks
        };
        let mut v = vec![];
        for (j, _) in inp.iter().enumerate() {
            let adv = match k.part_mode {
                0 => 0,
                1 => (j > 0) as usize,
                2 => sim.choose("adv", 0, 2) as usize,
                _ => {
                    if sim.flip("burst_gap", 1, 4) {
                        sim.choose("gap", 1, 3) as usize
                    } else {
                        0
                    }
                }
            };
            cur += adv;
            v.push(cur);
        }
        if cur > 0 {
            nonbenign = true;
        }
        max_step = max_step.max(cur);
        steps_of.push(v);
    }
    let trail = if k.part_mode == 0 { 0 } else { sim.choose("trail", 0, 2) as usize };
    let n_steps = max_step + 1 + trail;
    if trail > 0 {
        nonbenign = true;
    }
    let mut rel = vec![];
    for (inp, st) in inputs.iter().zip(&steps_of) {
        let mut r = vec![vec![]; n_steps];
        for (v, s) in inp.iter().zip(st) {
            r[*s].push(v.clone());
        }
        rel.push(r);
    }
    if nonbenign {
        sim.fault("partition_noncanonical");
    }
    let empties = rel.iter().any(|r| r.iter().any(|b| b.is_empty())) && rel.iter().any(|r| r.iter().any(|b| !b.is_empty()));
    if empties {
        sim.probe("empty_tick");
    }
    if rel.iter().any(|r| r.iter().any(|b| b.len() >= 2)) && n_steps > 1 {
        sim.probe("multi_item_batch_and_several_ticks");
    }
    (Plan { rel, max_drain, extra, pends: vec![] }, nonbenign)
}

/// A seeded permutation (Fisher-Yates over "which of the remaining items comes next";
/// 0 = keep the order).
pub fn permute(sim: &mut Sim, xs: &[Val]) -> (Vec<Val>, bool) {
    let mut rest: Vec<Val> = xs.to_vec();
    let mut out = Vec::with_capacity(xs.len());
    let mut changed = false;
    while !rest.is_empty() {
        let i = if rest.len() == 1 { 0 } else { sim.choose("perm", 0, rest.len() as u64 - 1) as usize };
        if i != 0 {
            changed = true;
        }
        out.push(rest.remove(i));
    }
    if changed {
        sim.fault("input_permuted");
    }
    (out, changed)
}

/// Duplicate a seeded subset of items. `adjacent`: copies directly follow the original (the
/// only duplication a totally ordered at-least-once stream is taken to admit: re-application of
/// an element, which is what the library's idempotence requirement covers); otherwise the copies
/// are inserted at seeded later positions.
pub fn duplicate(sim: &mut Sim, xs: &[Val], adjacent: bool) -> (Vec<Val>, bool) {
    let mut out: Vec<Val> = vec![];
    let mut late: Vec<Val> = vec![];
    let mut changed = false;
    for x in xs {
        out.push(x.clone());
        if sim.flip("dup", 1, 3) {
            let n = sim.choose("dup_n", 1, 2);
            changed = true;
            for _ in 0..n {
                if adjacent {
                    out.push(x.clone());
                } else {
                    late.push(x.clone());
                }
            }
        }
    }
    for x in late {
        let pos = sim.choose("dup_pos", 0, out.len() as u64) as usize;
        out.insert(pos, x);
    }
    if changed {
        sim.fault("input_duplicated");
    }
    (out, changed)
}

/// Split a keyed input into per-key subsequences (keys sorted).
pub fn per_key(xs: &[Val]) -> Vec<(i64, Vec<Val>)> {
    let mut out: Vec<(i64, Vec<Val>)> = vec![];
    for x in xs {
        let k = x.tuple()[0].int();
        match out.iter_mut().find(|e| e.0 == k) {
            Some(e) => e.1.push(x.clone()),
            None => out.push((k, vec![x.clone()])),
        }
    }
    out.sort_by_key(|e| e.0);
    out
}

/// A seeded interleaving of per-key subsequences that keeps every key's own order
/// (0 = take from the first non-exhausted key).
pub fn interleave(sim: &mut Sim, groups: &[(i64, Vec<Val>)]) -> Vec<Val> {
    let mut idx = vec![0usize; groups.len()];
    let mut out = vec![];
    loop {
        let live: Vec<usize> = (0..groups.len()).filter(|g| idx[*g] < groups[*g].1.len()).collect();
        if live.is_empty() {
            break;
        }
        let c = if live.len() == 1 { 0 } else { sim.choose("ileave", 0, live.len() as u64 - 1) as usize };
        if c != 0 {
            sim.fault("cross_key_interleaving");
        }
        let g = live[c];
        out.push(groups[g].1[idx[g]].clone());
        idx[g] += 1;
    }
    out
}
