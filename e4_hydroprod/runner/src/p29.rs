//! C29 — ordered and keyed streams keep their promised order.
//!
//! Totally ordered outputs: the output *sequence* is equal across tick partitions (and network
//! schedules) and equal to the spec. Keyed streams: the per-key result (made observable by an
//! ordered per-key fold) depends only on that key's own input subsequence — runs that differ in
//! the cross-key interleaving, in the tick partition, or in the presence of other keys' items
//! give identical per-key results.

use e4_gen::io::{EagerNet, Plan, SimNet};
use e4_gen::val::{Val, sorted};
use simcore::{Outcome, Sim, Violation};

use crate::corpus::{Entry, OutKind};
use crate::net;
use crate::p28::{self, EXTRA};
use crate::sched;

#[derive(Clone, Copy, PartialEq, Debug)]
enum Mode {
    /// totally ordered output(s): sequences equal across schedules
    Ordered,
    /// one `(key, value)` input; output = set of `(key, per-key result)`
    KeyedKv,
    /// input i *is* key i (cluster member i); output = set of `(key, per-key result)`
    KeyedByInput,
    /// one `(key, value)` input; output `key % outs` holds that key class's ordered result
    KeyedByOutput,
}

pub const ENTRIES: &[Entry] = &[
    p28::S_MAP_FILTER,
    p28::S_ENUMERATE,
    p28::S_ASYNC_SCAN,
    p28::S_SCAN,
    p28::S_UNIQUE,
    p28::S_LIMIT,
    p28::S_PARTITION,
    p28::S_JOIN_STATIC,
    p28::S_ANTI_JOIN_STATIC,
    p28::S_CROSS_SINGLETON_STATIC,
    net::N_HOP,
    net::N_ROUNDTRIP,
    p28::S_KEYED_VEC,
    p28::S_KEYED_SCAN,
    p28::S_KEYED_ENUM_LIMIT,
    p28::S_KEYED_FOLD,
    p28::S_KEYED_REDUCE,
    p28::S_KEYED_FIRST,
    net::N_M2O,
    net::N_O2M,
    // exposes the known finding F1 (FINDINGS.md): class `sequence_differs/q_resp_22`
    crate::p39p::Q_RESP_22,
];

fn mode(name: &str) -> Mode {
    match name {
        "s_keyed_vec" | "s_keyed_scan" | "s_keyed_enum_limit" | "s_keyed_fold" | "s_keyed_reduce" | "s_keyed_first" => Mode::KeyedKv,
        "n_m2o" => Mode::KeyedByInput,
        "n_o2m" => Mode::KeyedByOutput,
        _ => Mode::Ordered,
    }
}

fn extend_net(sim: &mut Sim, entry: &Entry, plan: &mut Plan, items: usize) {
    if entry.locs > 1 {
        let more = sim.choose("net_steps", 0, 2 * items as u64 + 4) as usize;
        for r in plan.rel.iter_mut() {
            r.extend(std::iter::repeat_n(vec![], more));
        }
    }
}

/// The units whose relative order the type leaves open: keys (`KeyedKv`) or destination members
/// (`KeyedByOutput`: several keys may map to the same member, whose stream is totally ordered).
fn groups_for(m: Mode, entry: &Entry, input: &[Val]) -> Vec<(i64, Vec<Val>)> {
    if m == Mode::KeyedKv {
        return sched::per_key(input);
    }
    let modulo = entry.outs.len() as i64;
    let mut out: Vec<(i64, Vec<Val>)> = (0..modulo).map(|c| (c, vec![])).collect();
    for x in input {
        out[(x.tuple()[0].int() % modulo) as usize].1.push(x.clone());
    }
    out.retain(|g| !g.1.is_empty());
    out
}

/// value of `key` in a final set of `(key, value)` entries
fn lookup(fin: &[Val], key: i64) -> Option<Val> {
    fin.iter().find(|e| e.tuple()[0].int() == key).map(|e| e.tuple()[1].clone())
}

pub fn run(entry: &Entry, sim: &mut Sim) -> Outcome {
    let m = mode(entry.name);
    let knobs = sched::draw_knobs(sim, 12 / entry.inputs.len().max(1));
    let lazy_net = entry.locs > 1 && sim.flip("k_lazy_net", 3, 4);
    let inputs: Vec<Vec<Val>> = entry.inputs.iter().map(|s| sched::gen_input(sim, *s, &knobs)).collect();
    let items: usize = inputs.iter().map(|i| i.len()).sum();
    let bound = p28::liveness_bound(entry, items).min(8);
    let spec = entry.final_spec;
    let mut violation: Option<Violation> = None;
    let mut viol = |class: &str, detail: String| {
        if violation.is_none() {
            violation = Some(Violation::new(format!("{class}/{}", entry.name), detail));
        }
    };
    // two independently seeded schedules of (an admissible rearrangement of) the same input
    let groups = if m == Mode::KeyedKv || m == Mode::KeyedByOutput { groups_for(m, entry, &inputs[0]) } else { vec![] };
    let (in1, in2) = if m == Mode::KeyedKv || m == Mode::KeyedByOutput {
        (vec![sched::interleave(sim, &groups)], vec![sched::interleave(sim, &groups)])
    } else {
        (inputs.clone(), inputs.clone())
    };
    let (mut plan1, nc1) = sched::partition(sim, &in1, &knobs, bound, EXTRA);
    extend_net(sim, entry, &mut plan1, items);
    let (mut plan2, nc2) = sched::partition(sim, &in2, &knobs, bound, EXTRA);
    extend_net(sim, entry, &mut plan2, items);
    sim.event(0x2900 + items as u64, || format!("entry {} inputs {:?}; run 1 releases {:?}; run 2 releases {:?}", entry.name, inputs, plan1.rel, plan2.rel));
    if entry.name == "s_async_scan" {
        plan1.pends = (0..items).map(|_| sim.choose("pend", 0, 2) as u8).collect();
        plan2.pends = (0..items).map(|_| sim.choose("pend", 0, 2) as u8).collect();
    }
    let ex1 = (entry.exec)(&plan1, &mut SimNet { sim, lazy: lazy_net });
    let ex2 = (entry.exec)(&plan2, &mut SimNet { sim, lazy: lazy_net });
    sim.event(crate::hash_vals(&ex1.outs), || format!("run 1 outputs {:?}", ex1.outs));
    sim.event(crate::hash_vals(&ex2.outs), || format!("run 2 outputs {:?}", ex2.outs));
    sim.state(crate::hash_vals(&ex1.outs));
    let mut total = ex1.total_ticks + ex2.total_ticks;
    let f1 = p28::finals(entry, &ex1);
    let f2 = p28::finals(entry, &ex2);
    match (&f1, &f2) {
        (Err((c, d)), _) | (_, Err((c, d))) => viol(c, d.clone()),
        (Ok(a), Ok(b)) => {
            let want = spec.map(|f| f(&in1));
            if a != b {
                let class = if m == Mode::Ordered { "sequence_differs" } else { "per_key_result_differs" };
                viol(class, format!("run 1 (input {in1:?}, releases {:?}) gives {a:?}; run 2 (input {in2:?}, releases {:?}) gives {b:?}", plan1.rel, plan2.rel));
            } else if let Some(want) = want.as_ref().filter(|w| *w != a) {
                viol("final_vs_spec", format!("input {in1:?}: got {a:?}, spec says {want:?}"));
            } else if m != Mode::Ordered && items > 0 {
                // run 3: only one key's items, everything else removed, canonical schedule
                let (key, in3): (i64, Vec<Vec<Val>>) = match m {
                    Mode::KeyedKv | Mode::KeyedByOutput => {
                        let g = sim.choose("solo_key", 0, groups.len() as u64 - 1) as usize;
                        (groups[g].0, vec![groups[g].1.clone()])
                    }
                    _ => {
                        let k = sim.choose("solo_key", 0, inputs.len() as u64 - 1) as usize;
                        (k as i64, inputs.iter().enumerate().map(|(i, x)| if i == k { x.clone() } else { vec![] }).collect())
                    }
                };
                let plan3 = Plan::canonical(&in3, bound, EXTRA);
                let ex3 = (entry.exec)(&plan3, &mut EagerNet::default());
                total += ex3.total_ticks;
                sim.event(crate::hash_vals(&ex3.outs), || format!("run 3 (only key {key}: {in3:?}) outputs {:?}", ex3.outs));
                match p28::finals(entry, &ex3) {
                    Err((c, d)) => viol(&c, d),
                    Ok(c) => {
                        let same = if m == Mode::KeyedByOutput {
                            let o = (key % entry.outs.len() as i64) as usize;
                            a[o] == c[o]
                        } else {
                            lookup(&a[0], key) == lookup(&c[0], key)
                        };
                        if !same {
                            viol("per_key_depends_on_other_keys", format!("key {key}: with all keys present (input {in1:?}) the result is {a:?}, alone (input {in3:?}) it is {c:?}"));
                        }
                        sim.probe("solo_key_run");
                    }
                }
            }
        }
    }
    for (ex, plan) in [(&ex1, &plan1), (&ex2, &plan2)] {
        if let Some(d) = p28::late_change(entry, ex, EXTRA) {
            viol("liveness", format!("releases {:?}: {d}", plan.rel));
        }
    }
    let _ = (OutKind::Seq, sorted(vec![]));
    let nontrivial = items > 0 && (nc1 || nc2 || in1 != in2 || ex1.msgs_delivered > 0);
    Outcome { violation, nontrivial, sim_time: total as u64, discarded: false }
}
