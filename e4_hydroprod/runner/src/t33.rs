//! C33, type-driven leg: flows built from a table of (producer, transformer) pairs
//! (`matrixdef::c33`), at top level and inside an atomic region. The flow's generic observer
//! reported, at build time, the bound that the observed collection's *type* claims
//! (`B::bound_kind()`); the oracle applies exactly that claim to the per-tick history:
//!   MonotonicKeys  -> keys never vanish
//!   MonotonicValue -> keys never vanish, values never decrease
//!   BoundedValue   -> a key's value never changes once present (observed as the stream of new
//!                     entries: no key is ever reported a second time)
//!   Monotonic      -> the singleton's value never decreases
//!   Unbounded      -> nothing is promised (only the shim's own cardinality is checked)

use std::sync::OnceLock;

use e4_gen::io::EagerNet;
use e4_gen::val::{Val, sorted};
use matrixdef::c33::TEntry;
use simcore::{Outcome, Sim, Violation};
use simio::ExecFn;

use crate::sched::{self, Shape};

pub struct T33 {
    pub e: TEntry,
    pub name: &'static str,
    pub exec: ExecFn,
    /// `format!("{:?}", B::bound_kind())` of the observed collection, recorded by genm/build.rs
    pub claim: &'static str,
}

pub fn all() -> &'static [T33] {
    static ALL: OnceLock<Vec<T33>> = OnceLock::new();
    ALL.get_or_init(|| {
        let mut table: Vec<(&str, ExecFn, &str)> = vec![];
        table.extend_from_slice(e4_genm0::glue::T33);
        table.extend_from_slice(e4_genm1::glue::T33);
        table.extend_from_slice(e4_genm2::glue::T33);
        table.extend_from_slice(e4_genm3::glue::T33);
        table.extend_from_slice(e4_genm4::glue::T33);
        table.extend_from_slice(e4_genm5::glue::T33);
        matrixdef::c33::entries()
            .into_iter()
            .map(|e| {
                let (name, exec, claim) = *table.iter().find(|t| t.0 == e.name).unwrap_or_else(|| panic!("harness: t33 entry {} has no generated code", e.name));
                T33 { e, name, exec, claim }
            })
            .collect()
    })
}

fn check(t: &T33, hist: &[Vec<Val>]) -> Option<(&'static str, String)> {
    if !t.e.keyed {
        let mut prev: Option<Val> = None;
        for (i, tick) in hist.iter().enumerate() {
            let [v] = tick.as_slice() else {
                return Some(("snapshot_cardinality", format!("tick {i}: singleton snapshot holds {} values: {tick:?}", tick.len())));
            };
            if t.claim == "Monotonic" {
                if let Some(p) = &prev {
                    if v < p {
                        return Some(("monotone_value_decreased", format!("tick {i}: value {v:?} after {p:?}")));
                    }
                }
            }
            prev = Some(v.clone());
        }
        return None;
    }
    if t.claim == "BoundedValue" {
        // the stream of new entries: a key that is reported again has changed (or was duplicated)
        let mut seen: Vec<(Val, Val, usize)> = vec![];
        for (i, tick) in hist.iter().enumerate() {
            for e in tick {
                let (k, v) = (e.tuple()[0].clone(), e.tuple()[1].clone());
                if let Some((_, pv, pt)) = seen.iter().find(|s| s.0 == k) {
                    return Some(("bounded_value_changed", format!("tick {i}: key {k:?} reported again with value {v:?}; it already had the value {pv:?} since tick {pt}")));
                }
                seen.push((k, v, i));
            }
        }
        return None;
    }
    let mut prev: Vec<(Val, Val)> = vec![];
    for (i, tick) in hist.iter().enumerate() {
        let cur: Vec<(Val, Val)> = sorted(tick.clone()).into_iter().map(|e| (e.tuple()[0].clone(), e.tuple()[1].clone())).collect();
        for w in cur.windows(2) {
            if w[0].0 == w[1].0 {
                return Some(("snapshot_cardinality", format!("tick {i}: key {:?} appears twice in one snapshot: {tick:?}", w[0].0)));
            }
        }
        if t.claim == "MonotonicKeys" || t.claim == "MonotonicValue" {
            for (k, pv) in &prev {
                match cur.iter().find(|e| e.0 == *k) {
                    None => return Some(("key_vanished", format!("tick {i}: key {k:?} present before is gone"))),
                    Some((_, cv)) => {
                        if t.claim == "MonotonicValue" && cv < pv {
                            return Some(("monotone_value_decreased", format!("tick {i}: key {k:?} went from {pv:?} to {cv:?}")));
                        }
                    }
                }
            }
        }
        prev = cur;
    }
    None
}

pub fn run(idx: usize, sim: &mut Sim) -> Outcome {
    let t = &all()[idx];
    let knobs = sched::draw_knobs(sim, 12);
    let input = sched::gen_input(sim, Shape::Int, &knobs);
    let extra = 3 + sim.choose("extra_ticks", 0, 2) as usize;
    let (plan, noncanon) = sched::partition(sim, &[input.clone()], &knobs, 0, extra);
    sim.event(0x3380 + input.len() as u64, || {
        format!("t33 entry {} (producer {}, transformer {}, {:?}); the type claims {}; input {:?} releases {:?}", t.name, t.e.producer, t.e.transformer, t.e.loc, t.claim, input, plan.rel)
    });
    let ex = (t.exec)(&plan, &mut EagerNet::default());
    let hist = &ex.outs[0];
    sim.event(crate::hash_vals(hist), || format!("per-tick observations {hist:?}"));
    sim.state(crate::hash_vals(hist));
    let violation = check(t, hist).map(|(c, d)| {
        Violation::new(format!("{c}/{}", t.name), format!("the type of `{}` -> `{}` ({:?}) claims {}: {d} (releases {:?}, observations {hist:?})", t.e.producer, t.e.transformer, t.e.loc, t.claim, plan.rel))
    });
    let mut distinct: Vec<&Vec<Val>> = hist.iter().filter(|h| !h.is_empty()).collect();
    distinct.dedup();
    if distinct.len() >= 3 {
        sim.probe("history_with_3_distinct_snapshots");
    }
    let nonempty: Vec<&Vec<Val>> = plan.rel[0].iter().filter(|b| !b.is_empty()).collect();
    if nonempty.iter().enumerate().any(|(i, b)| nonempty[..i].iter().any(|p| p.iter().any(|x| b.iter().any(|y| x.int().rem_euclid(3) == y.int().rem_euclid(3))))) {
        sim.probe("key_recurs_in_later_tick");
    }
    Outcome { violation, nontrivial: !input.is_empty() && noncanon && distinct.len() >= 2, sim_time: ex.total_ticks as u64, discarded: false }
}
