//! C31p — secondary leg of C31: slices (`sliced!`) in *production* code under random tick
//! partitions. Batches partition the stream (each element in exactly one batch, in order — per
//! key for keyed streams), snapshots never go back, all hooks of one slice are taken at the same
//! point (production: `snapshot(count(s))` next to `batch(s)` equals the number of items in the
//! batches up to and including this slice), slice-local state written in slice n is read in
//! slice n+1 unchanged.

use e4_gen::glue::*;
use e4_gen::io::EagerNet;
use e4_gen::val::{Val, sorted};
use simcore::{Outcome, Sim, Violation};

use crate::corpus::{Entry, OutKind};
use crate::sched::{self, Shape};

macro_rules! e {
    ($c:ident, $name:ident, $x:ident, $ins:expr, $kinds:expr) => {
        pub const $c: Entry = Entry { name: stringify!($name), inputs: $ins, outs: $kinds, exec: $x, final_spec: None, tick_spec: None, hops: 0, locs: 1 };
    };
}
e!(SL_BATCH_SNAP_STATE, sl_batch_snap_state, x_sl_batch_snap_state, &[Shape::Int], &[OutKind::Seq]);
e!(SL_KEYED, sl_keyed, x_sl_keyed, &[Shape::Kv], &[OutKind::Bag, OutKind::SnapBag]);
e!(SL_BOUNDED_VALUE_BATCH, sl_bounded_value_batch, x_sl_bounded_value_batch, &[Shape::Kv], &[OutKind::Bag]);
e!(SL_STATE_NULL, sl_state_null, x_sl_state_null, &[Shape::Int], &[OutKind::Seq]);

pub const ENTRIES: &[Entry] = &[SL_BATCH_SNAP_STATE, SL_KEYED, SL_BOUNDED_VALUE_BATCH, SL_STATE_NULL];

fn opt_int(v: &Val) -> Option<i64> {
    match v {
        Val::N => None,
        Val::S(x) => Some(x.int()),
        other => panic!("harness: expected option, got {other:?}"),
    }
}

fn check(name: &str, input: &[Val], outs: &[Vec<Vec<Val>>]) -> Option<(&'static str, String)> {
    match name {
        "sl_batch_snap_state" => {
            let mut concat: Vec<Val> = vec![];
            let mut prev_snap = 0i64;
            let mut prev_written: i64 = 0;
            for (t, tick) in outs[0].iter().enumerate() {
                let [row] = tick.as_slice() else {
                    return Some(("slice_cardinality", format!("slice {t} emitted {} rows: {tick:?}", tick.len())));
                };
                let r = row.tuple();
                let Val::L(batch) = &r[0] else { return Some(("slice_cardinality", format!("slice {t}: malformed row {row:?}"))) };
                let (snap, read, written) = (r[1].int(), r[2].int(), r[3].int());
                concat.extend(batch.iter().cloned());
                if snap < prev_snap {
                    return Some(("snapshot_went_back", format!("slice {t}: snapshot {snap} after {prev_snap}")));
                }
                if snap != concat.len() as i64 {
                    return Some(("hooks_not_same_point", format!("slice {t}: snapshot(count) = {snap} but the batches so far hold {} items", concat.len())));
                }
                if read != prev_written {
                    return Some(("state_not_carried", format!("slice {t}: state read {read}, previous slice wrote {prev_written}")));
                }
                if written != read + batch.len() as i64 + 1 {
                    return Some(("state_not_carried", format!("slice {t}: state written {written} from read {read} and batch of {}", batch.len())));
                }
                prev_snap = snap;
                prev_written = written;
            }
            if concat != input {
                return Some(("batches_do_not_partition", format!("concatenated batches {concat:?} != input {input:?}")));
            }
            None
        }
        "sl_keyed" => {
            let want = sched::per_key(input);
            let mut got: Vec<(i64, Vec<Val>)> = vec![];
            let mut prev: Vec<(i64, i64)> = vec![];
            for (t, (batch, snap)) in outs[0].iter().zip(outs[1].iter()).enumerate() {
                for x in batch {
                    // (key, values of that key in this slice, in order)
                    let k = x.tuple()[0].int();
                    let Val::L(vs) = &x.tuple()[1] else { return Some(("slice_cardinality", format!("slice {t}: malformed row {x:?}"))) };
                    let rows = vs.iter().map(|v| e4_gen::val::vt2(e4_gen::val::vi(k), v.clone()));
                    match got.iter_mut().find(|e| e.0 == k) {
                        Some(e) => e.1.extend(rows),
                        None => got.push((k, rows.collect())),
                    }
                }
                let cur: Vec<(i64, i64)> = sorted(snap.clone()).iter().map(|e| e.pair()).collect();
                for (k, c) in &prev {
                    match cur.iter().find(|e| e.0 == *k) {
                        None => return Some(("snapshot_went_back", format!("slice {t}: key {k} vanished from the snapshot"))),
                        Some((_, c2)) if c2 < c => return Some(("snapshot_went_back", format!("slice {t}: key {k} count {c2} after {c}"))),
                        _ => {}
                    }
                }
                for (k, c) in &cur {
                    let seen = got.iter().find(|e| e.0 == *k).map(|e| e.1.len()).unwrap_or(0) as i64;
                    if *c != seen {
                        return Some(("hooks_not_same_point", format!("slice {t}: snapshot says key {k} has {c} values, batches so far hold {seen}")));
                    }
                }
                for (k, vs) in &got {
                    if !cur.iter().any(|e| e.0 == *k) {
                        return Some(("hooks_not_same_point", format!("slice {t}: key {k} has {} batched values but is missing from the snapshot", vs.len())));
                    }
                }
                prev = cur;
            }
            got.sort_by_key(|e| e.0);
            if got != want {
                return Some(("batches_do_not_partition", format!("per-key concatenated batches {got:?} != per-key input {want:?}")));
            }
            None
        }
        "sl_bounded_value_batch" => {
            let want: Vec<Val> = sched::per_key(input).into_iter().map(|(_, vs)| vs[0].clone()).collect();
            let got: Vec<Val> = outs[0].iter().flatten().cloned().collect();
            if sorted(got.clone()) != sorted(want.clone()) {
                return Some(("batches_do_not_partition", format!("new entries over all slices {got:?} != first value of every key {want:?}")));
            }
            None
        }
        "sl_state_null" => {
            let mut prev_cur: Option<i64> = None;
            for (t, tick) in outs[0].iter().enumerate() {
                let [row] = tick.as_slice() else {
                    return Some(("slice_cardinality", format!("slice {t} emitted {} rows: {tick:?}", tick.len())));
                };
                let (read, cur) = (opt_int(&row.tuple()[0]), opt_int(&row.tuple()[1]));
                if read != prev_cur {
                    return Some(("state_not_carried", format!("slice {t}: state read {read:?}, previous slice wrote {prev_cur:?}")));
                }
                prev_cur = cur;
            }
            let want = input.iter().map(|v| v.int()).max();
            if prev_cur != want {
                return Some(("state_not_carried", format!("last state {prev_cur:?}, maximum of the input is {want:?}")));
            }
            None
        }
        other => panic!("harness: no C31p oracle for {other}"),
    }
}

pub fn run(entry: &Entry, sim: &mut Sim) -> Outcome {
    let knobs = sched::draw_knobs(sim, 10);
    let inputs: Vec<Vec<Val>> = entry.inputs.iter().map(|s| sched::gen_input(sim, *s, &knobs)).collect();
    let extra = 1 + sim.choose("extra_ticks", 0, 2) as usize;
    let (plan, noncanon) = sched::partition(sim, &inputs, &knobs, 0, extra);
    let items = plan.items();
    sim.event(0x3100 + items as u64, || format!("entry {} input {:?} releases {:?}", entry.name, inputs, plan.rel));
    let ex = (entry.exec)(&plan, &mut EagerNet::default());
    sim.event(crate::hash_vals(&ex.outs), || format!("per-slice outputs {:?}", ex.outs));
    sim.state(crate::hash_vals(&ex.outs));
    let violation = check(entry.name, &inputs[0], &ex.outs).map(|(c, d)| Violation::new(format!("{c}/{}", entry.name), format!("{d} (releases {:?}, outputs {:?})", plan.rel, ex.outs)));
    if plan.rel[0].iter().filter(|b| !b.is_empty()).count() >= 2 {
        sim.probe("two_nonempty_slices");
    }
    Outcome { violation, nontrivial: items > 0 && noncanon, sim_time: ex.total_ticks as u64, discarded: false }
}
