//! Simulated I/O around production-generated Hydro code (shared by the `gen*` crates and the
//! runner): canonical values, simulated input streams / recording outputs / tick drivers, and the
//! glue macros that instantiate a generated flow function.
pub mod io;
pub mod val;

pub type ExecFn = fn(&crate::io::Plan, &mut dyn crate::io::NetSched) -> crate::io::Exec;

/// Glue for a single-location flow: inputs `in0..`, outputs `out0..`.
#[macro_export]
macro_rules! exec_local {
    ($fname:ident, $m:ident, [$($in:ident : $inty:ty),*], [$($out:ident),*]) => {
        pub fn $fname(plan: &$crate::io::Plan, _net: &mut dyn $crate::io::NetSched) -> $crate::io::Exec {
            use $crate::io::{Feed, OutLog, Queue};
            let tick = std::rc::Rc::new(std::cell::Cell::new(0usize));
            $( let $in = Queue::<$inty>::new(); )*
            $( let $out = OutLog::new(&tick); )*
            let (total, idle) = {
                let mut outs = crate::genmods::$m::$m::EmbeddedOutputs {
                    $( $out: |x| $out.push(x), )*
                };
                let mut flow = crate::genmods::$m::$m($( $in.stream(), )* &mut outs);
                let feeds: Vec<&dyn Feed> = vec![$( &$in ),*];
                let r = $crate::io::drive_local(plan, &feeds, &tick, &mut || flow.run_tick_sync());
                drop(flow);
                r
            };
            $crate::io::Exec::collect(total, idle, vec![$( $out.take() ),*])
        }
    };
}

/// Glue for a single-location flow that additionally takes embedded *singleton* inputs
/// (plain values, given first in the generated signature).
#[macro_export]
macro_rules! exec_local_s {
    ($fname:ident, $m:ident, ($($sv:expr),*), [$($in:ident : $inty:ty),*], [$($out:ident),*]) => {
        pub fn $fname(plan: &$crate::io::Plan, _net: &mut dyn $crate::io::NetSched) -> $crate::io::Exec {
            use $crate::io::{Feed, OutLog, Queue};
            let tick = std::rc::Rc::new(std::cell::Cell::new(0usize));
            $( let $in = Queue::<$inty>::new(); )*
            $( let $out = OutLog::new(&tick); )*
            let (total, idle) = {
                let mut outs = crate::genmods::$m::$m::EmbeddedOutputs {
                    $( $out: |x| $out.push(x), )*
                };
                let mut flow = crate::genmods::$m::$m($( $sv, )* $( $in.stream(), )* &mut outs);
                let feeds: Vec<&dyn Feed> = vec![$( &$in ),*];
                let r = $crate::io::drive_local(plan, &feeds, &tick, &mut || flow.run_tick_sync());
                drop(flow);
                r
            };
            $crate::io::Exec::collect(total, idle, vec![$( $out.take() ),*])
        }
    };
}


/// Glue for a single-location flow that contains simulated futures (`e4_flows::asyncf`): the tick is
/// driven through the *async* `Dfir::run_tick` and polled to completion by a trivial executor (a
/// suspended tick is re-polled immediately: the simulated futures wake themselves).
#[macro_export]
macro_rules! exec_local_async {
    ($fname:ident, $m:ident, [$($in:ident : $inty:ty),*], [$($out:ident),*]) => {
        pub fn $fname(plan: &$crate::io::Plan, _net: &mut dyn $crate::io::NetSched) -> $crate::io::Exec {
            use $crate::io::{Feed, OutLog, Queue};
            let tick = std::rc::Rc::new(std::cell::Cell::new(0usize));
            e4_flows::asyncf::set_script(plan.pends.clone());
            $( let $in = Queue::<$inty>::new(); )*
            $( let $out = OutLog::new(&tick); )*
            let (total, idle) = {
                let mut outs = crate::genmods::$m::$m::EmbeddedOutputs {
                    $( $out: |x| $out.push(x), )*
                };
                let mut flow = crate::genmods::$m::$m($( $in.stream(), )* &mut outs);
                let feeds: Vec<&dyn Feed> = vec![$( &$in ),*];
                let r = $crate::io::drive_local(plan, &feeds, &tick, &mut || {
                    let mut fut = std::pin::pin!(flow.run_tick());
                    let mut cx = std::task::Context::from_waker(std::task::Waker::noop());
                    let mut polls = 0u32;
                    loop {
                        match std::future::Future::poll(fut.as_mut(), &mut cx) {
                            std::task::Poll::Ready(r) => break r,
                            std::task::Poll::Pending => {
                                polls += 1;
                                assert!(polls < 100_000, "harness: a tick did not complete after 100000 polls");
                            }
                        }
                    }
                });
                drop(flow);
                r
            };
            let mut ex = $crate::io::Exec::collect(total, idle, vec![$( $out.take() ),*]);
            ex.suspensions = e4_flows::asyncf::suspensions();
            ex
        }
    };
}
