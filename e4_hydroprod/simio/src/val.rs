//! Canonical value representation used at the harness boundary: inputs are generated as `Val`s
//! and converted into the flow's item type when released; outputs are converted back.
//! Only `Vec`/sorted vectors are used (never `HashMap` iteration order) so that logs and oracles
//! are deterministic.

use std::collections::HashMap;
use std::fmt;

#[derive(Clone, PartialEq, Eq, PartialOrd, Ord, Hash)]
pub enum Val {
    I(i64),
    B(bool),
    Str(String),
    /// tuple
    T(Vec<Val>),
    /// list (`Vec`)
    L(Vec<Val>),
    /// `None`
    N,
    /// `Some`
    S(Box<Val>),
    /// map, sorted by key
    M(Vec<(Val, Val)>),
}

impl fmt::Debug for Val {
    fn fmt(&self, f: &mut fmt::Formatter<'_>) -> fmt::Result {
        match self {
            Val::I(x) => write!(f, "{x}"),
            Val::B(x) => write!(f, "{x}"),
            Val::Str(x) => write!(f, "{x:?}"),
            Val::T(xs) => {
                write!(f, "(")?;
                for (i, x) in xs.iter().enumerate() {
                    if i > 0 {
                        write!(f, ",")?;
                    }
                    write!(f, "{x:?}")?;
                }
                write!(f, ")")
            }
            Val::L(xs) => f.debug_list().entries(xs.iter()).finish(),
            Val::N => write!(f, "None"),
            Val::S(x) => write!(f, "Some({x:?})"),
            Val::M(kvs) => f.debug_map().entries(kvs.iter().map(|(k, v)| (k, v))).finish(),
        }
    }
}

pub fn vi(x: i64) -> Val {
    Val::I(x)
}
pub fn vt2(a: Val, b: Val) -> Val {
    Val::T(vec![a, b])
}
pub fn vp(a: i64, b: i64) -> Val {
    Val::T(vec![Val::I(a), Val::I(b)])
}

impl Val {
    pub fn int(&self) -> i64 {
        match self {
            Val::I(x) => *x,
            other => panic!("spec/harness: expected int, got {other:?}"),
        }
    }
    pub fn pair(&self) -> (i64, i64) {
        match self {
            Val::T(xs) if xs.len() == 2 => (xs[0].int(), xs[1].int()),
            other => panic!("spec/harness: expected pair, got {other:?}"),
        }
    }
    pub fn tuple(&self) -> &[Val] {
        match self {
            Val::T(xs) => xs,
            other => panic!("spec/harness: expected tuple, got {other:?}"),
        }
    }
}

pub fn ints(xs: &[Val]) -> Vec<i64> {
    xs.iter().map(|v| v.int()).collect()
}
pub fn pairs(xs: &[Val]) -> Vec<(i64, i64)> {
    xs.iter().map(|v| v.pair()).collect()
}
pub fn vints(xs: impl IntoIterator<Item = i64>) -> Vec<Val> {
    xs.into_iter().map(Val::I).collect()
}
pub fn vpairs(xs: impl IntoIterator<Item = (i64, i64)>) -> Vec<Val> {
    xs.into_iter().map(|(a, b)| vp(a, b)).collect()
}
pub fn sorted(mut xs: Vec<Val>) -> Vec<Val> {
    xs.sort();
    xs
}

pub trait ToVal {
    fn to_val(&self) -> Val;
}
pub trait FromVal: Sized {
    fn from_val(v: &Val) -> Self;
}

macro_rules! int_val {
    ($($t:ty),*) => {$(
        impl ToVal for $t { fn to_val(&self) -> Val { Val::I(*self as i64) } }
        impl FromVal for $t { fn from_val(v: &Val) -> Self { v.int() as $t } }
    )*};
}
int_val!(i8, i16, i32, i64, u8, u16, u32, u64, usize, isize);

impl ToVal for bool {
    fn to_val(&self) -> Val {
        Val::B(*self)
    }
}
impl FromVal for bool {
    fn from_val(v: &Val) -> Self {
        match v {
            Val::B(b) => *b,
            other => panic!("harness: expected bool, got {other:?}"),
        }
    }
}
impl ToVal for () {
    fn to_val(&self) -> Val {
        Val::T(vec![])
    }
}
impl FromVal for () {
    fn from_val(_: &Val) -> Self {}
}
impl ToVal for String {
    fn to_val(&self) -> Val {
        Val::Str(self.clone())
    }
}
impl<A: ToVal, B: ToVal> ToVal for (A, B) {
    fn to_val(&self) -> Val {
        Val::T(vec![self.0.to_val(), self.1.to_val()])
    }
}
impl<A: ToVal, B: ToVal, C: ToVal> ToVal for (A, B, C) {
    fn to_val(&self) -> Val {
        Val::T(vec![self.0.to_val(), self.1.to_val(), self.2.to_val()])
    }
}
impl<A: ToVal, B: ToVal, C: ToVal, D: ToVal> ToVal for (A, B, C, D) {
    fn to_val(&self) -> Val {
        Val::T(vec![self.0.to_val(), self.1.to_val(), self.2.to_val(), self.3.to_val()])
    }
}
impl<A: FromVal, B: FromVal> FromVal for (A, B) {
    fn from_val(v: &Val) -> Self {
        let t = v.tuple();
        (A::from_val(&t[0]), B::from_val(&t[1]))
    }
}
impl<A: FromVal, B: FromVal, C: FromVal> FromVal for (A, B, C) {
    fn from_val(v: &Val) -> Self {
        let t = v.tuple();
        (A::from_val(&t[0]), B::from_val(&t[1]), C::from_val(&t[2]))
    }
}
impl<T: ToVal> ToVal for Vec<T> {
    fn to_val(&self) -> Val {
        Val::L(self.iter().map(|x| x.to_val()).collect())
    }
}
impl<T: ToVal> ToVal for Option<T> {
    fn to_val(&self) -> Val {
        match self {
            None => Val::N,
            Some(x) => Val::S(Box::new(x.to_val())),
        }
    }
}
impl<T: FromVal> FromVal for Option<T> {
    fn from_val(v: &Val) -> Self {
        match v {
            Val::N => None,
            Val::S(x) => Some(T::from_val(x)),
            other => panic!("harness: expected option, got {other:?}"),
        }
    }
}
/// `Ok(x)` = `(0, x)`, `Err(e)` = `(1, e)`
impl<T: ToVal, E: ToVal> ToVal for Result<T, E> {
    fn to_val(&self) -> Val {
        match self {
            Ok(x) => Val::T(vec![Val::I(0), x.to_val()]),
            Err(e) => Val::T(vec![Val::I(1), e.to_val()]),
        }
    }
}
impl<T: FromVal, E: FromVal> FromVal for Result<T, E> {
    fn from_val(v: &Val) -> Self {
        let t = v.tuple();
        if t[0].int() == 0 { Ok(T::from_val(&t[1])) } else { Err(E::from_val(&t[1])) }
    }
}
impl<K: ToVal, V: ToVal, S> ToVal for HashMap<K, V, S> {
    fn to_val(&self) -> Val {
        // sorted: the iteration order of the map never reaches a log or an oracle
        let mut kvs: Vec<(Val, Val)> = self.iter().map(|(k, v)| (k.to_val(), v.to_val())).collect();
        kvs.sort();
        Val::M(kvs)
    }
}
