//! The seam around the production-generated code: simulated input streams, recording output
//! closures, the simulated network, and the tick drivers.

use std::cell::{Cell, RefCell};
use std::collections::VecDeque;
use std::pin::Pin;
use std::rc::Rc;
use std::task::{Context, Poll};

use crate::val::{FromVal, ToVal, Val};

/// An embedded input: yields the items released for the current tick, then `Pending`
/// (`source_stream` turns `Pending` into "end of this tick's batch").
pub struct SimStream<T>(pub Rc<RefCell<VecDeque<T>>>);
impl<T> futures::Stream for SimStream<T> {
    type Item = T;
    fn poll_next(self: Pin<&mut Self>, _cx: &mut Context<'_>) -> Poll<Option<T>> {
        match self.0.borrow_mut().pop_front() {
            Some(x) => Poll::Ready(Some(x)),
            None => Poll::Pending,
        }
    }
}
impl<T> Unpin for SimStream<T> {}

/// Simulator-owned queue behind a `SimStream`.
pub struct Queue<T>(pub Rc<RefCell<VecDeque<T>>>);
impl<T> Queue<T> {
    pub fn new() -> Self {
        Queue(Rc::new(RefCell::new(VecDeque::new())))
    }
    pub fn stream(&self) -> SimStream<T> {
        SimStream(self.0.clone())
    }
    pub fn push(&self, x: T) {
        self.0.borrow_mut().push_back(x);
    }
    pub fn len(&self) -> usize {
        self.0.borrow().len()
    }
}
pub trait Feed {
    fn push_val(&self, v: &Val);
    fn pending(&self) -> usize;
}
impl<T: FromVal> Feed for Queue<T> {
    fn push_val(&self, v: &Val) {
        self.push(T::from_val(v));
    }
    fn pending(&self) -> usize {
        self.len()
    }
}

/// Recording embedded output: `(tick index, item)`.
pub struct OutLog {
    pub tick: Rc<Cell<usize>>,
    pub items: Rc<RefCell<Vec<(usize, Val)>>>,
}
impl OutLog {
    pub fn new(tick: &Rc<Cell<usize>>) -> Self {
        OutLog { tick: tick.clone(), items: Rc::new(RefCell::new(Vec::new())) }
    }
    pub fn push<T: ToVal>(&self, x: T) {
        self.items.borrow_mut().push((self.tick.get(), x.to_val()));
    }
    pub fn take(&self) -> Vec<(usize, Val)> {
        std::mem::take(&mut *self.items.borrow_mut())
    }
}

/// What the simulator decided for one execution of a flow.
#[derive(Clone, Debug, Default)]
pub struct Plan {
    /// `rel[input][tick]` = items released to that input right before that (global) step.
    /// For single-location flows a step is a tick; for multi-location flows a step is one
    /// scheduler step (one location ticks).
    pub rel: Vec<Vec<Vec<Val>>>,
    /// ticks (steps) the driver may spend after the last release waiting for idleness
    pub max_drain: usize,
    /// ticks run after idleness was reached (they observe final snapshots / deferred items)
    pub extra: usize,
    /// for flows with simulated futures: how often the k-th future created by the flow answers
    /// `Pending` before it completes (missing entries: 0 = immediately ready)
    pub pends: Vec<u8>,
}
impl Plan {
    pub fn steps(&self) -> usize {
        self.rel.first().map(|r| r.len()).unwrap_or(0)
    }
    pub fn items(&self) -> usize {
        self.rel.iter().map(|i| i.iter().map(|t| t.len()).sum::<usize>()).sum()
    }
    /// same inputs, everything released before the first tick
    pub fn canonical(inputs: &[Vec<Val>], max_drain: usize, extra: usize) -> Plan {
        Plan { rel: inputs.iter().map(|i| vec![i.clone()]).collect(), max_drain, extra, pends: vec![] }
    }
    /// the batches every tick saw (padded with empty batches up to `ticks`)
    pub fn batches(&self, ticks: usize) -> Vec<Vec<Vec<Val>>> {
        self.rel
            .iter()
            .map(|r| {
                let mut r = r.clone();
                while r.len() < ticks {
                    r.push(vec![]);
                }
                r
            })
            .collect()
    }
}

/// What was observed.
#[derive(Clone, Debug, Default)]
pub struct Exec {
    /// `outs[output][tick]`: items emitted by that output during that tick (step)
    pub outs: Vec<Vec<Vec<Val>>>,
    pub total_ticks: usize,
    /// unused by local flows; multi-location flows: fair drain rounds until no message was in
    /// flight or undelivered (`None`: still messages after `max_drain` rounds)
    pub idle_after: Option<usize>,
    /// tick index of each location's ticks (multi-location flows); empty for local flows
    pub loc_ticks: Vec<usize>,
    pub msgs_delivered: usize,
    pub max_in_flight: usize,
    /// how many times a simulated future answered `Pending` inside a tick
    pub suspensions: usize,
}
impl Exec {
    pub fn collect(total_ticks: usize, idle_after: Option<usize>, logs: Vec<Vec<(usize, Val)>>) -> Exec {
        let mut outs = vec![];
        for log in logs {
            let mut per_tick = vec![vec![]; total_ticks];
            for (t, v) in log {
                if t < total_ticks {
                    per_tick[t].push(v);
                }
            }
            outs.push(per_tick);
        }
        Exec { outs, total_ticks, idle_after, ..Default::default() }
    }
    pub fn all(&self, o: usize) -> Vec<Val> {
        self.outs[o].iter().flatten().cloned().collect()
    }
    pub fn last_tick(&self, o: usize) -> Vec<Val> {
        self.outs[o].last().cloned().unwrap_or_default()
    }
}

/// Drive a single-location flow: release, tick, ..., then `max_drain` empty ticks (the liveness
/// budget) and `extra` more empty ticks (during which nothing observable may change any more).
/// Returns (total ticks, whether the last tick before `extra` still reported pending work).
pub fn drive_local(plan: &Plan, feeds: &[&dyn Feed], tick: &Rc<Cell<usize>>, run_tick: &mut dyn FnMut() -> bool) -> (usize, Option<usize>) {
    let n = plan.steps();
    let mut t = 0usize;
    while t < n {
        tick.set(t);
        for (i, f) in feeds.iter().enumerate() {
            for v in &plan.rel[i][t] {
                f.push_val(v);
            }
        }
        run_tick();
        t += 1;
    }
    for _ in 0..(plan.max_drain + plan.extra) {
        tick.set(t);
        run_tick();
        t += 1;
    }
    (t, None)
}

/// Decisions of the multi-location scheduler / simulated network.
pub trait NetSched {
    /// which of `n` locations performs the next tick
    fn pick_loc(&mut self, n: usize) -> usize;
    /// how many of the `in_flight` messages at the head of a channel (FIFO) are delivered to the
    /// receiver before its tick
    fn deliver(&mut self, in_flight: usize) -> usize;
    /// for channels whose declared guarantee admits reordering: which of the `in_flight`
    /// messages arrives next (0 = the oldest)
    fn pick_msg(&mut self, _in_flight: usize) -> usize {
        0
    }
}

/// Benign network: round-robin locations, deliver everything immediately.
#[derive(Default)]
pub struct EagerNet {
    rr: usize,
}
impl NetSched for EagerNet {
    fn pick_loc(&mut self, n: usize) -> usize {
        let r = self.rr % n;
        self.rr += 1;
        r
    }
    fn deliver(&mut self, in_flight: usize) -> usize {
        in_flight
    }
}

pub struct SimNet<'s> {
    pub sim: &'s mut simcore::Sim,
    /// 0: deliver everything; otherwise random 0..=in_flight
    pub lazy: bool,
}
impl NetSched for SimNet<'_> {
    fn pick_loc(&mut self, n: usize) -> usize {
        let v = self.sim.choose("loc", 0, n as u64 - 1) as usize;
        v
    }
    fn deliver(&mut self, in_flight: usize) -> usize {
        if in_flight == 0 {
            return 0;
        }
        if !self.lazy {
            return in_flight;
        }
        // recorded as "how many are held back" so that 0 (benign) = deliver everything
        let held = self.sim.choose("hold", 0, in_flight as u64) as usize;
        if held > 0 {
            self.sim.fault("net_delay");
        }
        in_flight - held
    }
    fn pick_msg(&mut self, in_flight: usize) -> usize {
        if in_flight <= 1 {
            return 0;
        }
        let i = self.sim.choose("overtake", 0, in_flight as u64 - 1) as usize;
        if i > 0 {
            self.sim.fault("net_reorder");
        }
        i
    }
}

/// One FIFO channel of the simulated network (per sender/receiver pair).
pub struct Chan<T> {
    pub in_flight: Rc<RefCell<VecDeque<T>>>,
    pub delivered: Queue<T>,
}
impl<T> Chan<T> {
    pub fn new() -> Self {
        Chan { in_flight: Rc::new(RefCell::new(VecDeque::new())), delivered: Queue::new() }
    }
    pub fn in_flight(&self) -> usize {
        self.in_flight.borrow().len()
    }
    /// move the first `n` in-flight messages to the receiver's stream (FIFO, no loss)
    pub fn deliver(&self, n: usize) -> usize {
        let mut moved = 0;
        for _ in 0..n {
            let Some(m) = self.in_flight.borrow_mut().pop_front() else { break };
            self.delivered.push(m);
            moved += 1;
        }
        moved
    }
    pub fn empty(&self) -> bool {
        self.in_flight() == 0 && self.delivered.len() == 0
    }
}
