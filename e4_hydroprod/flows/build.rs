fn main() {
    // The matrix composer (crate `matrixdef`) writes the Hydro source of its entries into
    // `src/matrix.rs` *before* stageleft scans the crate. Only rewritten when the content changes.
    println!("cargo::rerun-if-env-changed=E4_MATRIX_SEED");
    let src = matrixdef::flows_source(matrixdef::seed_from_env());
    let path = std::path::Path::new(&std::env::var("CARGO_MANIFEST_DIR").unwrap()).join("src/matrix.rs");
    if std::fs::read_to_string(&path).ok().as_deref() != Some(src.as_str()) {
        std::fs::write(&path, src).unwrap();
    }
    let src = matrixdef::c33::flows_source();
    let path = std::path::Path::new(&std::env::var("CARGO_MANIFEST_DIR").unwrap()).join("src/t33.rs");
    if std::fs::read_to_string(&path).ok().as_deref() != Some(src.as_str()) {
        std::fs::write(&path, src).unwrap();
    }
    stageleft_tool::gen_final!();
}
