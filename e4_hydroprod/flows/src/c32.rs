//! C32 corpus: one flow per library-internal `assume_ordering_trusted` / `assume_retries_trusted`
//! call site (hydro_lang/src/live_collections/{stream/mod.rs, keyed_stream/mod.rs,
//! keyed_singleton.rs}), with the input typed as weakly as the public signature allows.
//! The embedded input itself is `TotalOrder`/`ExactlyOnce`; the *safe* `weaken_ordering` /
//! `weaken_retries` casts produce the weak type, and the simulator then feeds every order /
//! duplication that weak type admits.

use hydro_lang::live_collections::stream::{AtLeastOnce, ExactlyOnce, NoOrder, TotalOrder};
use hydro_lang::prelude::*;

type P<'a> = Process<'a, ()>;
type In<'a, T> = Stream<T, P<'a>>;

// ---- Stream::max / min (assume_retries_trusted + assume_ordering_trusted_bounded) -------------
pub fn w_max_top<'a>(input: In<'a, i32>) {
    let tick = input.location().tick();
    input
        .weaken_ordering::<NoOrder>()
        .weaken_retries::<AtLeastOnce>()
        .max()
        .snapshot(&tick, nondet!(/** harness observation shim: per-tick snapshot */))
        .all_ticks()
        .embedded_output("out0");
}
pub fn w_min_top<'a>(input: In<'a, i32>) {
    let tick = input.location().tick();
    input
        .weaken_ordering::<NoOrder>()
        .weaken_retries::<AtLeastOnce>()
        .min()
        .snapshot(&tick, nondet!(/** harness observation shim: per-tick snapshot */))
        .all_ticks()
        .embedded_output("out0");
}
pub fn w_max_tick<'a>(input: In<'a, i32>) {
    let tick = input.location().tick();
    input
        .weaken_ordering::<NoOrder>()
        .weaken_retries::<AtLeastOnce>()
        .batch(&tick, nondet!(/** simulator owns the batch boundaries */))
        .max()
        .all_ticks()
        .embedded_output("out0");
}
pub fn w_min_tick<'a>(input: In<'a, i32>) {
    let tick = input.location().tick();
    input
        .weaken_ordering::<NoOrder>()
        .weaken_retries::<AtLeastOnce>()
        .batch(&tick, nondet!(/** simulator owns the batch boundaries */))
        .min()
        .all_ticks()
        .embedded_output("out0");
}

// ---- Stream::first / last (make_totally_ordered + assume_retries_trusted) ---------------------
pub fn w_first_top<'a>(input: In<'a, i32>) {
    let tick = input.location().tick();
    input
        .weaken_retries::<AtLeastOnce>()
        .first()
        .snapshot(&tick, nondet!(/** harness observation shim: per-tick snapshot */))
        .all_ticks()
        .embedded_output("out0");
}
pub fn w_last_top<'a>(input: In<'a, i32>) {
    let tick = input.location().tick();
    input
        .weaken_retries::<AtLeastOnce>()
        .last()
        .snapshot(&tick, nondet!(/** harness observation shim: per-tick snapshot */))
        .all_ticks()
        .embedded_output("out0");
}
pub fn w_first_tick<'a>(input: In<'a, i32>) {
    let tick = input.location().tick();
    input
        .weaken_retries::<AtLeastOnce>()
        .batch(&tick, nondet!(/** simulator owns the batch boundaries */))
        .first()
        .all_ticks()
        .embedded_output("out0");
}
pub fn w_last_tick<'a>(input: In<'a, i32>) {
    let tick = input.location().tick();
    input
        .weaken_retries::<AtLeastOnce>()
        .batch(&tick, nondet!(/** simulator owns the batch boundaries */))
        .last()
        .all_ticks()
        .embedded_output("out0");
}

// ---- Stream::count (assume_ordering_trusted) ---------------------------------------------------
pub fn w_count_top<'a>(input: In<'a, i32>) {
    let tick = input.location().tick();
    input
        .weaken_ordering::<NoOrder>()
        .count()
        .snapshot(&tick, nondet!(/** harness observation shim: per-tick snapshot */))
        .all_ticks()
        .embedded_output("out0");
}
pub fn w_count_tick<'a>(input: In<'a, i32>) {
    let tick = input.location().tick();
    input
        .weaken_ordering::<NoOrder>()
        .batch(&tick, nondet!(/** simulator owns the batch boundaries */))
        .count()
        .all_ticks()
        .embedded_output("out0");
}

// ---- Stream::is_empty (assume_ordering_trusted + first) -----------------------------------------
pub fn w_is_empty_tick<'a>(input: In<'a, i32>) {
    let tick = input.location().tick();
    input
        .weaken_ordering::<NoOrder>()
        .weaken_retries::<AtLeastOnce>()
        .batch(&tick, nondet!(/** simulator owns the batch boundaries */))
        .is_empty()
        .all_ticks()
        .embedded_output("out0");
}

// ---- Stream::repeat_with_keys (keys().assume_ordering_trusted) ---------------------------------
pub fn w_repeat_with_keys_tick<'a>(values: In<'a, i32>, keys: In<'a, (i32, i32)>) {
    let tick = values.location().tick();
    let ks = keys
        .batch(&tick, nondet!(/** simulator owns the batch boundaries */))
        .into_keyed()
        .first();
    values
        .batch(&tick, nondet!(/** simulator owns the batch boundaries */))
        .repeat_with_keys(ks)
        .entries()
        .all_ticks()
        .assume_ordering::<TotalOrder>(nondet!(/** harness observation shim: compared as a multiset */))
        .embedded_output("out0");
}

// ---- Stream::{weaken_ordering, make_totally_ordered, weaken_retries, make_exactly_once} --------
pub fn w_weaken_ordering<'a>(input: In<'a, i32>) {
    let tick = input.location().tick();
    input
        .weaken_ordering::<NoOrder>()
        .fold(
            q!(|| 0i32),
            q!(
                |acc, x| *acc = acc.wrapping_add(x.wrapping_mul(x)),
                commutative = manual_proof!(/** sum of squares */)
            ),
        )
        .snapshot(&tick, nondet!(/** harness observation shim: per-tick snapshot */))
        .all_ticks()
        .embedded_output("out0");
}
pub fn w_make_totally_ordered<'a>(input: In<'a, i32>) {
    let tick = input.location().tick();
    input
        .make_totally_ordered()
        .fold(
            q!(|| 0i32),
            q!(|acc, x| *acc = acc.wrapping_mul(3).wrapping_add(x)),
        )
        .snapshot(&tick, nondet!(/** harness observation shim: per-tick snapshot */))
        .all_ticks()
        .embedded_output("out0");
}
pub fn w_weaken_retries<'a>(input: In<'a, i32>) {
    let tick = input.location().tick();
    input
        .weaken_retries::<AtLeastOnce>()
        .fold(
            q!(|| Vec::<i32>::new()),
            q!(
                |acc, x| {
                    if acc.last() != Some(&x) {
                        acc.push(x);
                    }
                },
                idempotent = manual_proof!(/** re-applying the same element leaves the state unchanged */)
            ),
        )
        .snapshot(&tick, nondet!(/** harness observation shim: per-tick snapshot */))
        .all_ticks()
        .embedded_output("out0");
}
pub fn w_make_exactly_once<'a>(input: In<'a, i32>) {
    let tick = input.location().tick();
    input
        .make_exactly_once()
        .count()
        .snapshot(&tick, nondet!(/** harness observation shim: per-tick snapshot */))
        .all_ticks()
        .embedded_output("out0");
}

// ---- KeyedStream::{weaken_ordering, make_totally_ordered, weaken_retries, make_exactly_once} ---
pub fn k_weaken_ordering<'a>(input: In<'a, (i32, i32)>) {
    let tick = input.location().tick();
    input
        .into_keyed()
        .weaken_ordering::<NoOrder>()
        .fold(
            q!(|| 0i32),
            q!(
                |acc, x| *acc = acc.wrapping_add(x.wrapping_mul(x)),
                commutative = manual_proof!(/** sum of squares */)
            ),
        )
        .snapshot(&tick, nondet!(/** harness observation shim: per-tick snapshot */))
        .entries()
        .all_ticks()
        .assume_ordering::<TotalOrder>(nondet!(/** harness observation shim: compared as a set */))
        .embedded_output("out0");
}
pub fn k_make_totally_ordered<'a>(input: In<'a, (i32, i32)>) {
    let tick = input.location().tick();
    input
        .into_keyed()
        .make_totally_ordered()
        .fold(
            q!(|| 0i32),
            q!(|acc, x| *acc = acc.wrapping_mul(3).wrapping_add(x)),
        )
        .snapshot(&tick, nondet!(/** harness observation shim: per-tick snapshot */))
        .entries()
        .all_ticks()
        .assume_ordering::<TotalOrder>(nondet!(/** harness observation shim: compared as a set */))
        .embedded_output("out0");
}
pub fn k_weaken_retries<'a>(input: In<'a, (i32, i32)>) {
    let tick = input.location().tick();
    input
        .into_keyed()
        .weaken_retries::<AtLeastOnce>()
        .fold(
            q!(|| Vec::<i32>::new()),
            q!(
                |acc, x| {
                    if acc.last() != Some(&x) {
                        acc.push(x);
                    }
                },
                idempotent = manual_proof!(/** re-applying the same element leaves the state unchanged */)
            ),
        )
        .snapshot(&tick, nondet!(/** harness observation shim: per-tick snapshot */))
        .entries()
        .all_ticks()
        .assume_ordering::<TotalOrder>(nondet!(/** harness observation shim: compared as a set */))
        .embedded_output("out0");
}
pub fn k_make_exactly_once<'a>(input: In<'a, (i32, i32)>) {
    let tick = input.location().tick();
    input
        .into_keyed()
        .make_exactly_once()
        .fold(
            q!(|| 0i32),
            q!(|acc, x| *acc = acc.wrapping_mul(3).wrapping_add(x)),
        )
        .snapshot(&tick, nondet!(/** harness observation shim: per-tick snapshot */))
        .entries()
        .all_ticks()
        .assume_ordering::<TotalOrder>(nondet!(/** harness observation shim: compared as a set */))
        .embedded_output("out0");
}

// ---- KeyedStream::value_counts (assume_ordering_trusted) ---------------------------------------
pub fn k_value_counts_top<'a>(input: In<'a, (i32, i32)>) {
    let tick = input.location().tick();
    input
        .into_keyed()
        .weaken_ordering::<NoOrder>()
        .value_counts()
        .snapshot(&tick, nondet!(/** harness observation shim: per-tick snapshot */))
        .entries()
        .all_ticks()
        .assume_ordering::<TotalOrder>(nondet!(/** harness observation shim: compared as a set */))
        .embedded_output("out0");
}
pub fn k_value_counts_tick<'a>(input: In<'a, (i32, i32)>) {
    let tick = input.location().tick();
    input
        .into_keyed()
        .weaken_ordering::<NoOrder>()
        .batch(&tick, nondet!(/** simulator owns the batch boundaries */))
        .value_counts()
        .entries()
        .all_ticks()
        .assume_ordering::<TotalOrder>(nondet!(/** harness observation shim: compared as a multiset */))
        .embedded_output("out0");
}

// ---- KeyedSingleton::into_singleton (three code paths) ------------------------------------------
/// bounded-value keyed singleton at top level: entries().assume_ordering_trusted().fold(insert)
pub fn ks_into_singleton_bv<'a>(input: In<'a, (i32, i32)>) {
    let tick = input.location().tick();
    input
        .into_keyed()
        .first()
        .into_singleton()
        .snapshot(&tick, nondet!(/** harness observation shim: per-tick snapshot */))
        .all_ticks()
        .embedded_output("out0");
}
/// unbounded-value keyed singleton at top level: snapshot -> into_singleton_inside_tick -> latest
pub fn ks_into_singleton_unb<'a>(input: In<'a, (i32, i32)>) {
    let tick = input.location().tick();
    input
        .into_keyed()
        .fold(
            q!(|| 0i32),
            q!(|acc, x| *acc = acc.wrapping_mul(3).wrapping_add(x)),
        )
        .into_singleton()
        .snapshot(&tick, nondet!(/** harness observation shim: per-tick snapshot */))
        .all_ticks()
        .embedded_output("out0");
}
/// bounded keyed singleton inside a tick
pub fn ks_into_singleton_tick<'a>(input: In<'a, (i32, i32)>) {
    let tick = input.location().tick();
    input
        .batch(&tick, nondet!(/** simulator owns the batch boundaries */))
        .into_keyed()
        .fold(
            q!(|| 0i32),
            q!(|acc, x| *acc = acc.wrapping_mul(3).wrapping_add(x)),
        )
        .into_singleton()
        .all_ticks()
        .embedded_output("out0");
}

// ---- KeyedSingleton::get_max_key (entries().assume_ordering_trusted().reduce) -------------------
pub fn ks_get_max_key_top<'a>(input: In<'a, (i32, i32)>) {
    let tick = input.location().tick();
    input
        .into_keyed()
        .first()
        .get_max_key()
        .snapshot(&tick, nondet!(/** harness observation shim: per-tick snapshot */))
        .all_ticks()
        .embedded_output("out0");
}
pub fn ks_get_max_key_tick<'a>(input: In<'a, (i32, i32)>) {
    let tick = input.location().tick();
    input
        .batch(&tick, nondet!(/** simulator owns the batch boundaries */))
        .into_keyed()
        .fold(
            q!(|| 0i32),
            q!(|acc, x| *acc = acc.wrapping_mul(3).wrapping_add(x)),
        )
        .get_max_key()
        .all_ticks()
        .embedded_output("out0");
}

#[allow(dead_code)]
fn _types(_: Option<ExactlyOnce>) {}
