//! Flows with *simulated futures*: async operators whose future really suspends inside a tick.
//! `sim_future(v)` creates a future that answers `Pending` as often as the simulator scripted
//! (thread-local script set by the glue before the run; every `Pending` wakes the task again)
//! and then completes with `v`. The generated DFIR is driven through the async `Dfir::run_tick`.

use std::cell::{Cell, RefCell};
use std::collections::VecDeque;
use std::future::Future;
use std::pin::Pin;
use std::task::{Context, Poll};

use hydro_lang::live_collections::stream::TotalOrder;
use hydro_lang::prelude::*;

thread_local! {
    static SCRIPT: RefCell<VecDeque<u8>> = const { RefCell::new(VecDeque::new()) };
    static SUSPENSIONS: Cell<usize> = const { Cell::new(0) };
}

/// the k-th future created from now on answers `Pending` `script[k]` times (missing: 0)
pub fn set_script(script: Vec<u8>) {
    SCRIPT.with(|s| *s.borrow_mut() = script.into());
    SUSPENSIONS.with(|c| c.set(0));
}
pub fn suspensions() -> usize {
    SUSPENSIONS.with(|c| c.get())
}

pub struct SimFuture<T> {
    val: Option<T>,
    pend: u8,
}
impl<T: Unpin> Future for SimFuture<T> {
    type Output = T;
    fn poll(mut self: Pin<&mut Self>, cx: &mut Context<'_>) -> Poll<T> {
        if self.pend > 0 {
            self.pend -= 1;
            SUSPENSIONS.with(|c| c.set(c.get() + 1));
            cx.waker().wake_by_ref();
            Poll::Pending
        } else {
            Poll::Ready(self.val.take().expect("SimFuture polled after completion"))
        }
    }
}
pub fn sim_future<T>(v: T) -> SimFuture<T> {
    let pend = SCRIPT.with(|s| s.borrow_mut().pop_front().unwrap_or(0));
    SimFuture { val: Some(v), pend }
}

type P<'a> = Process<'a, ()>;
type In<'a, T> = Stream<T, P<'a>>;

/// async first input chained with a synchronous second one: first-then-second per tick
pub fn ta_chain_async<'a>(first: In<'a, i32>, second: In<'a, i32>) {
    let tick = first.location().tick();
    first
        .batch(&tick, nondet!(/** simulator owns the batch boundaries */))
        .scan_async_blocking(
            q!(|| 0i32),
            q!(|acc, x| {
                *acc = acc.wrapping_mul(3).wrapping_add(x);
                crate::asyncf::sim_future(Some(*acc))
            }),
        )
        .chain(second.batch(&tick, nondet!(/** simulator owns the batch boundaries */)))
        .all_ticks()
        .embedded_output("out0");
}

/// synchronous first input, async second input
pub fn ta_chain_async_second<'a>(first: In<'a, i32>, second: In<'a, i32>) {
    let tick = first.location().tick();
    let s = second
        .batch(&tick, nondet!(/** simulator owns the batch boundaries */))
        .scan_async_blocking(
            q!(|| 0i32),
            q!(|acc, x| {
                *acc = acc.wrapping_mul(3).wrapping_add(x);
                crate::asyncf::sim_future(Some(*acc))
            }),
        );
    first
        .batch(&tick, nondet!(/** simulator owns the batch boundaries */))
        .chain(s)
        .all_ticks()
        .embedded_output("out0");
}

/// async scan inside a tick: state restarts every tick, order kept
pub fn ta_async_scan<'a>(input: In<'a, i32>) {
    let tick = input.location().tick();
    input
        .batch(&tick, nondet!(/** simulator owns the batch boundaries */))
        .scan_async_blocking(
            q!(|| 0i32),
            q!(|acc, x| {
                *acc = acc.wrapping_mul(3).wrapping_add(x);
                crate::asyncf::sim_future(Some(*acc))
            }),
        )
        .all_ticks()
        .embedded_output("out0");
}

/// top-level async scan: one running state over the whole stream, order kept
pub fn s_async_scan<'a>(input: In<'a, i32>) {
    input
        .scan_async_blocking(
            q!(|| 0i32),
            q!(|acc, x| {
                *acc = acc.wrapping_mul(3).wrapping_add(x);
                crate::asyncf::sim_future(Some(*acc))
            }),
        )
        .embedded_output("out0");
}

/// futures resolved (blocking) inside a tick: every element comes out in its own tick, any order
pub fn ta_resolve_blocking<'a>(input: In<'a, i32>) {
    let tick = input.location().tick();
    input
        .batch(&tick, nondet!(/** simulator owns the batch boundaries */))
        .map(q!(|x| crate::asyncf::sim_future(x.wrapping_add(1))))
        .resolve_futures_blocking()
        .all_ticks()
        .assume_ordering::<TotalOrder>(nondet!(/** harness observation shim: compared as a multiset */))
        .embedded_output("out0");
}
