//! C28/C29/C33 corpus: flows whose top-level (unbounded) operators use only safe APIs.
//!
//! `nondet!` appears only in the harness's observation shims at the very end of each flow:
//! `assume_ordering` before `embedded_output` for `NoOrder` streams (compared as multisets) and a
//! per-tick `snapshot` for singletons / optionals / keyed singletons (compared by final value).

use hydro_lang::live_collections::stream::TotalOrder;
use hydro_lang::prelude::*;

type P<'a> = Process<'a, ()>;
type In<'a, T> = Stream<T, P<'a>>;

// ------------------------------------------------------------------------- ordered streams
pub fn s_map_filter<'a>(input: In<'a, i32>) {
    input
        .map(q!(|x| x * 2 + 1))
        .filter(q!(|x| *x % 3 != 0))
        .flat_map_ordered(q!(|x| vec![x, x + 100]))
        .filter_map(q!(|x| if x == 101 { None } else { Some(x - 1) }))
        .embedded_output("out0");
}

pub fn s_enumerate<'a>(input: In<'a, i32>) {
    input.enumerate().embedded_output("out0");
}

pub fn s_scan<'a>(input: In<'a, i32>) {
    input
        .scan(
            q!(|| 0i32),
            q!(|acc, x| {
                *acc = acc.wrapping_mul(3).wrapping_add(x);
                Some(*acc)
            }),
        )
        .embedded_output("out0");
}

pub fn s_unique<'a>(input: In<'a, i32>) {
    input.unique().embedded_output("out0");
}

pub fn s_limit<'a>(input: In<'a, i32>) {
    input.limit(q!(3)).embedded_output("out0");
}

pub fn s_partition<'a>(input: In<'a, i32>) {
    let (even, odd) = input.partition(q!(|x| *x % 2 == 0));
    even.embedded_output("out0");
    odd.embedded_output("out1");
}

/// top-level stream against a bounded (static) build side: order of the probe side is kept
pub fn s_join_static<'a>(input: In<'a, (i32, i32)>) {
    let table = input
        .location()
        .source_iter(q!(vec![(0i32, 100i32), (1, 101), (2, 102)]));
    input.join(table).embedded_output("out0");
}

pub fn s_anti_join_static<'a>(input: In<'a, (i32, i32)>) {
    let banned = input.location().source_iter(q!(vec![1i32]));
    input.anti_join(banned).embedded_output("out0");
}

pub fn s_filter_not_in_static<'a>(input: In<'a, i32>) {
    let banned = input.location().source_iter(q!(vec![0i32, 2]));
    input.filter_not_in(banned).embedded_output("out0");
}

pub fn s_cross_singleton_static<'a>(input: In<'a, i32>) {
    let seven = input.location().singleton(q!(7i32));
    input.cross_singleton(seven).embedded_output("out0");
}

/// monotone count -> threshold event (safe API, internally a slice with state)
pub fn s_threshold<'a>(input: In<'a, i32>) {
    let three = input.location().singleton(q!(3usize));
    input
        .count()
        .threshold_greater_or_equal(three)
        .embedded_output("out0");
}

// ------------------------------------------------------------------------- unordered streams
pub fn s_join<'a>(left: In<'a, (i32, i32)>, right: In<'a, (i32, i32)>) {
    left.join(right)
        .assume_ordering::<TotalOrder>(nondet!(/** harness observation shim: compared as a multiset */))
        .embedded_output("out0");
}

pub fn s_cross_product<'a>(left: In<'a, i32>, right: In<'a, i32>) {
    left.cross_product(right)
        .assume_ordering::<TotalOrder>(nondet!(/** harness observation shim: compared as a multiset */))
        .embedded_output("out0");
}

pub fn s_merge<'a>(left: In<'a, i32>, right: In<'a, i32>) {
    left.map(q!(|x| x + 1000))
        .merge_unordered(right)
        .assume_ordering::<TotalOrder>(nondet!(/** harness observation shim: compared as a multiset */))
        .embedded_output("out0");
}

/// one input used twice (tee) and re-merged
pub fn s_tee<'a>(input: In<'a, i32>) {
    let a = input.clone().map(q!(|x| x * 10));
    let b = input.filter(q!(|x| *x > 0));
    a.merge_unordered(b)
        .assume_ordering::<TotalOrder>(nondet!(/** harness observation shim: compared as a multiset */))
        .embedded_output("out0");
}

/// self join of a stream with itself through a tee
pub fn s_self_join<'a>(input: In<'a, (i32, i32)>) {
    let other = input.clone().map(q!(|(k, v)| (k, v + 50)));
    input
        .join(other)
        .assume_ordering::<TotalOrder>(nondet!(/** harness observation shim: compared as a multiset */))
        .embedded_output("out0");
}

/// bounded-value keyed singleton (per-key first): every key is reported exactly once
pub fn s_keyed_first<'a>(input: In<'a, (i32, i32)>) {
    input
        .into_keyed()
        .first()
        .entries()
        .assume_ordering::<TotalOrder>(nondet!(/** harness observation shim: compared as a multiset */))
        .embedded_output("out0");
}

// ------------------------------------------------------------------------- singletons / optionals
pub fn s_fold<'a>(input: In<'a, i32>) {
    let tick = input.location().tick();
    input
        .fold(
            q!(|| 0i32),
            q!(|acc, x| *acc = acc.wrapping_mul(3).wrapping_add(x)),
        )
        .snapshot(&tick, nondet!(/** harness observation shim: per-tick snapshot */))
        .all_ticks()
        .embedded_output("out0");
}

pub fn s_reduce<'a>(input: In<'a, i32>) {
    let tick = input.location().tick();
    input
        .reduce(q!(|acc, x| *acc = acc.wrapping_mul(3).wrapping_add(x)))
        .snapshot(&tick, nondet!(/** harness observation shim: per-tick snapshot */))
        .all_ticks()
        .embedded_output("out0");
}

pub fn s_count<'a>(input: In<'a, i32>) {
    let tick = input.location().tick();
    input
        .count()
        .snapshot(&tick, nondet!(/** harness observation shim: per-tick snapshot */))
        .all_ticks()
        .embedded_output("out0");
}

pub fn s_max<'a>(input: In<'a, i32>) {
    let tick = input.location().tick();
    input
        .max()
        .snapshot(&tick, nondet!(/** harness observation shim: per-tick snapshot */))
        .all_ticks()
        .embedded_output("out0");
}

pub fn s_min<'a>(input: In<'a, i32>) {
    let tick = input.location().tick();
    input
        .min()
        .snapshot(&tick, nondet!(/** harness observation shim: per-tick snapshot */))
        .all_ticks()
        .embedded_output("out0");
}

pub fn s_first<'a>(input: In<'a, i32>) {
    let tick = input.location().tick();
    input
        .first()
        .snapshot(&tick, nondet!(/** harness observation shim: per-tick snapshot */))
        .all_ticks()
        .embedded_output("out0");
}

pub fn s_last<'a>(input: In<'a, i32>) {
    let tick = input.location().tick();
    input
        .last()
        .snapshot(&tick, nondet!(/** harness observation shim: per-tick snapshot */))
        .all_ticks()
        .embedded_output("out0");
}

pub fn s_collect_vec<'a>(input: In<'a, i32>) {
    let tick = input.location().tick();
    input
        .collect_vec()
        .snapshot(&tick, nondet!(/** harness observation shim: per-tick snapshot */))
        .all_ticks()
        .embedded_output("out0");
}

/// join feeding a commutative fold: a replayed join result would be counted twice
pub fn s_join_sum<'a>(left: In<'a, (i32, i32)>, right: In<'a, (i32, i32)>) {
    let tick = left.location().tick();
    left.join(right)
        .map(q!(|(k, (a, b))| k * 100 + a * 10 + b))
        .fold(
            q!(|| 0i32),
            q!(
                |acc, x| *acc = acc.wrapping_add(x),
                commutative = manual_proof!(/** integer addition is commutative */)
            ),
        )
        .snapshot(&tick, nondet!(/** harness observation shim: per-tick snapshot */))
        .all_ticks()
        .embedded_output("out0");
}

pub fn s_unique_count<'a>(input: In<'a, i32>) {
    let tick = input.location().tick();
    input
        .unique()
        .count()
        .snapshot(&tick, nondet!(/** harness observation shim: per-tick snapshot */))
        .all_ticks()
        .embedded_output("out0");
}

pub fn s_cross_count<'a>(left: In<'a, i32>, right: In<'a, i32>) {
    let tick = left.location().tick();
    left.cross_product(right)
        .count()
        .snapshot(&tick, nondet!(/** harness observation shim: per-tick snapshot */))
        .all_ticks()
        .embedded_output("out0");
}

// ------------------------------------------------------------------------- keyed singletons
pub fn s_keyed_fold<'a>(input: In<'a, (i32, i32)>) {
    let tick = input.location().tick();
    input
        .into_keyed()
        .fold(
            q!(|| 0i32),
            q!(|acc, x| *acc = acc.wrapping_mul(3).wrapping_add(x)),
        )
        .snapshot(&tick, nondet!(/** harness observation shim: per-tick snapshot */))
        .entries()
        .all_ticks()
        .assume_ordering::<TotalOrder>(nondet!(/** harness observation shim: compared as a set */))
        .embedded_output("out0");
}

pub fn s_keyed_reduce<'a>(input: In<'a, (i32, i32)>) {
    let tick = input.location().tick();
    input
        .into_keyed()
        .reduce(q!(|acc, x| *acc = acc.wrapping_mul(3).wrapping_add(x)))
        .snapshot(&tick, nondet!(/** harness observation shim: per-tick snapshot */))
        .entries()
        .all_ticks()
        .assume_ordering::<TotalOrder>(nondet!(/** harness observation shim: compared as a set */))
        .embedded_output("out0");
}

pub fn s_value_counts<'a>(input: In<'a, (i32, i32)>) {
    let tick = input.location().tick();
    input
        .into_keyed()
        .value_counts()
        .snapshot(&tick, nondet!(/** harness observation shim: per-tick snapshot */))
        .entries()
        .all_ticks()
        .assume_ordering::<TotalOrder>(nondet!(/** harness observation shim: compared as a set */))
        .embedded_output("out0");
}

/// number of keys of an unbounded keyed singleton (safe API, internally snapshot + latest)
pub fn s_key_count<'a>(input: In<'a, (i32, i32)>) {
    let tick = input.location().tick();
    input
        .into_keyed()
        .fold(
            q!(|| 0i32),
            q!(|acc, x| *acc = acc.wrapping_mul(3).wrapping_add(x)),
        )
        .key_count()
        .snapshot(&tick, nondet!(/** harness observation shim: per-tick snapshot */))
        .all_ticks()
        .embedded_output("out0");
}

/// per-key ordered collection: the per-key order of a keyed stream, made observable
pub fn s_keyed_vec<'a>(input: In<'a, (i32, i32)>) {
    let tick = input.location().tick();
    input
        .into_keyed()
        .fold(q!(|| Vec::<i32>::new()), q!(|acc, x| acc.push(x)))
        .snapshot(&tick, nondet!(/** harness observation shim: per-tick snapshot */))
        .entries()
        .all_ticks()
        .assume_ordering::<TotalOrder>(nondet!(/** harness observation shim: compared as a set */))
        .embedded_output("out0");
}

/// per-key scan (running per-key state), then the per-key output order made observable
pub fn s_keyed_scan<'a>(input: In<'a, (i32, i32)>) {
    let tick = input.location().tick();
    input
        .into_keyed()
        .scan(
            q!(|| 0i32),
            q!(|acc, x| {
                *acc = acc.wrapping_mul(3).wrapping_add(x);
                Some(*acc)
            }),
        )
        .fold(q!(|| Vec::<i32>::new()), q!(|acc, x| acc.push(x)))
        .snapshot(&tick, nondet!(/** harness observation shim: per-tick snapshot */))
        .entries()
        .all_ticks()
        .assume_ordering::<TotalOrder>(nondet!(/** harness observation shim: compared as a set */))
        .embedded_output("out0");
}

/// per-key enumerate + limit
pub fn s_keyed_enum_limit<'a>(input: In<'a, (i32, i32)>) {
    let tick = input.location().tick();
    input
        .into_keyed()
        .limit(q!(2))
        .enumerate()
        .fold(q!(|| Vec::<(usize, i32)>::new()), q!(|acc, x| acc.push(x)))
        .snapshot(&tick, nondet!(/** harness observation shim: per-tick snapshot */))
        .entries()
        .all_ticks()
        .assume_ordering::<TotalOrder>(nondet!(/** harness observation shim: compared as a set */))
        .embedded_output("out0");
}
