//! E4 corpus: small Hydro flows compiled by the production code generator (embedded back end).
#[cfg(stageleft_runtime)]
hydro_lang::setup!();

pub mod c28;
pub mod c30;
pub mod asyncf;
pub mod c32;
pub mod matrix;
pub mod compose;
pub mod net;
pub mod obs33;
pub mod sec;
pub mod t33;
