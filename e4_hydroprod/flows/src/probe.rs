use hydro_lang::prelude::*;

/// C30: per-tick fold over the batch.
pub fn t_fold<'a>(input: Stream<i32, Process<'a, ()>>) {
    let tick = input.location().tick();
    input
        .batch(&tick, nondet!(/** harness: the simulator owns the batch boundaries */))
        .fold(q!(|| 0i32), q!(|acc, x| *acc += x))
        .all_ticks()
        .embedded_output("out0");
}

/// C28/C33: top-level count observed through a per-tick snapshot shim.
pub fn top_count<'a>(input: Stream<i32, Process<'a, ()>>) {
    let tick = input.location().tick();
    input
        .count()
        .snapshot(&tick, nondet!(/** harness observation shim */))
        .all_ticks()
        .embedded_output("out0");
}
