//! Generic per-tick observer for C33 (type-driven): `observe33()` sends a per-tick snapshot of the
//! collection (for bounded-value keyed singletons, which cannot be snapshotted: the stream of new
//! entries) to the embedded output `out0` and returns the bound that the collection's *type*
//! claims, `B::bound_kind()`. The runner checks the observed history against that claim.
//!
//! `nondet!` only appears in the snapshot shims; no `q!` closures are used here. The impls are
//! written out one by one (no `macro_rules!`: stageleft's staged copy of the crate would expand
//! them a second time).

use hydro_lang::live_collections::batch_atomic::BatchAtomic;
use hydro_lang::live_collections::keyed_singleton::{BoundedValue, KeyedSingletonBound, MonotonicValue};
use hydro_lang::live_collections::singleton::{Monotonic, SingletonBound};
use hydro_lang::live_collections::stream::TotalOrder;
use hydro_lang::location::Atomic;
use hydro_lang::prelude::*;

type P<'a> = Process<'a, ()>;

pub trait Observe33 {
    /// returns `format!("{:?}", B::bound_kind())`
    fn observe33(self) -> String;
}

impl<'a, V: Clone + 'a> Observe33 for KeyedSingleton<i32, V, P<'a>, Unbounded> {
    fn observe33(self) -> String {
        let tick = self.location().tick();
        self.snapshot(&tick, nondet!(/** harness observation shim: per-tick snapshot */))
            .entries()
            .all_ticks()
            .assume_ordering::<TotalOrder>(nondet!(/** harness observation shim: compared as a set */))
            .embedded_output("out0");
        format!("{:?}", <Unbounded as KeyedSingletonBound>::bound_kind())
    }
}
impl<'a, V: Clone + 'a> Observe33 for KeyedSingleton<i32, V, Atomic<P<'a>>, Unbounded> {
    fn observe33(self) -> String {
        self.batched_atomic()
            .entries()
            .all_ticks()
            .assume_ordering::<TotalOrder>(nondet!(/** harness observation shim: compared as a set */))
            .embedded_output("out0");
        format!("{:?}", <Unbounded as KeyedSingletonBound>::bound_kind())
    }
}
impl<'a, V: Clone + 'a> Observe33 for KeyedSingleton<i32, V, P<'a>, MonotonicKeys> {
    fn observe33(self) -> String {
        let tick = self.location().tick();
        self.snapshot(&tick, nondet!(/** harness observation shim: per-tick snapshot */))
            .entries()
            .all_ticks()
            .assume_ordering::<TotalOrder>(nondet!(/** harness observation shim: compared as a set */))
            .embedded_output("out0");
        format!("{:?}", <MonotonicKeys as KeyedSingletonBound>::bound_kind())
    }
}
impl<'a, V: Clone + 'a> Observe33 for KeyedSingleton<i32, V, Atomic<P<'a>>, MonotonicKeys> {
    fn observe33(self) -> String {
        self.batched_atomic()
            .entries()
            .all_ticks()
            .assume_ordering::<TotalOrder>(nondet!(/** harness observation shim: compared as a set */))
            .embedded_output("out0");
        format!("{:?}", <MonotonicKeys as KeyedSingletonBound>::bound_kind())
    }
}
impl<'a, V: Clone + 'a> Observe33 for KeyedSingleton<i32, V, P<'a>, MonotonicValue> {
    fn observe33(self) -> String {
        let tick = self.location().tick();
        self.snapshot(&tick, nondet!(/** harness observation shim: per-tick snapshot */))
            .entries()
            .all_ticks()
            .assume_ordering::<TotalOrder>(nondet!(/** harness observation shim: compared as a set */))
            .embedded_output("out0");
        format!("{:?}", <MonotonicValue as KeyedSingletonBound>::bound_kind())
    }
}
impl<'a, V: Clone + 'a> Observe33 for KeyedSingleton<i32, V, Atomic<P<'a>>, MonotonicValue> {
    fn observe33(self) -> String {
        self.batched_atomic()
            .entries()
            .all_ticks()
            .assume_ordering::<TotalOrder>(nondet!(/** harness observation shim: compared as a set */))
            .embedded_output("out0");
        format!("{:?}", <MonotonicValue as KeyedSingletonBound>::bound_kind())
    }
}
// bounded values: only the stream of *new* entries can be observed
impl<'a, V: Clone + 'a> Observe33 for KeyedSingleton<i32, V, P<'a>, BoundedValue> {
    fn observe33(self) -> String {
        self.entries()
            .assume_ordering::<TotalOrder>(nondet!(/** harness observation shim: compared as a set */))
            .embedded_output("out0");
        format!("{:?}", <BoundedValue as KeyedSingletonBound>::bound_kind())
    }
}
impl<'a, V: Clone + 'a> Observe33 for KeyedSingleton<i32, V, Atomic<P<'a>>, BoundedValue> {
    fn observe33(self) -> String {
        self.entries()
            .end_atomic()
            .assume_ordering::<TotalOrder>(nondet!(/** harness observation shim: compared as a set */))
            .embedded_output("out0");
        format!("{:?}", <BoundedValue as KeyedSingletonBound>::bound_kind())
    }
}
impl<'a, V: Clone + 'a> Observe33 for Singleton<V, P<'a>, Unbounded> {
    fn observe33(self) -> String {
        let tick = self.location().tick();
        self.snapshot(&tick, nondet!(/** harness observation shim: per-tick snapshot */))
            .all_ticks()
            .embedded_output("out0");
        format!("{:?}", <Unbounded as SingletonBound>::bound_kind())
    }
}
impl<'a, V: Clone + 'a> Observe33 for Singleton<V, Atomic<P<'a>>, Unbounded> {
    fn observe33(self) -> String {
        self.batched_atomic().all_ticks().embedded_output("out0");
        format!("{:?}", <Unbounded as SingletonBound>::bound_kind())
    }
}
impl<'a, V: Clone + 'a> Observe33 for Singleton<V, P<'a>, Monotonic> {
    fn observe33(self) -> String {
        let tick = self.location().tick();
        self.snapshot(&tick, nondet!(/** harness observation shim: per-tick snapshot */))
            .all_ticks()
            .embedded_output("out0");
        format!("{:?}", <Monotonic as SingletonBound>::bound_kind())
    }
}
impl<'a, V: Clone + 'a> Observe33 for Singleton<V, Atomic<P<'a>>, Monotonic> {
    fn observe33(self) -> String {
        self.batched_atomic().all_ticks().embedded_output("out0");
        format!("{:?}", <Monotonic as SingletonBound>::bound_kind())
    }
}
