//! Seeded *composer*: flows obtained by chaining safe top-level operators from a table. The
//! program (a byte string drawn by `gen/build.rs` from a fixed seed) is interpreted at *flow
//! construction* time, i.e. it decides which Hydro API calls are made; the result is compiled by
//! the production code generator like every other corpus entry. All intermediate streams carry
//! `i32` so that stages compose freely. Oracle for composed flows: schedule independence only.

use hydro_lang::live_collections::stream::{NoOrder, TotalOrder};
use hydro_lang::prelude::*;

type P<'a> = Process<'a, ()>;
type A<'a> = Stream<i32, P<'a>, Unbounded, TotalOrder>;
type B<'a> = Stream<i32, P<'a>, Unbounded, NoOrder>;

pub const N_A_OPS: u8 = 14;
pub const N_AB_OPS: u8 = 4;
pub const N_B_OPS: u8 = 5;
pub const N_A_TERMS: u8 = 8;
pub const N_B_TERMS: u8 = 5;

/// Output kinds of a composed flow (mirrors the runner's `OutKind`).
#[derive(Clone, Copy, Debug, PartialEq, Eq)]
pub enum Kind {
    Seq,
    Bag,
    SnapOne,
    SnapOpt,
}

/// totally ordered stage
fn a_stage<'a>(op: u8, s: A<'a>) -> A<'a> {
    match op % N_A_OPS {
        0 => s.map(q!(|x| x.wrapping_mul(2).wrapping_add(1))),
        1 => s.map(q!(|x| x.wrapping_sub(3))),
        2 => s.filter(q!(|x| *x % 2 == 0)),
        3 => s.filter(q!(|x| *x > 0)),
        4 => s.flat_map_ordered(q!(|x| vec![x, x.wrapping_add(10)])),
        5 => s.filter_map(q!(|x| if x % 3 == 0 { None } else { Some(x.wrapping_add(1)) })),
        6 => s.unique(),
        7 => s.enumerate().map(q!(|(i, x)| x.wrapping_add(i as i32))),
        8 => s.scan(
            q!(|| 0i32),
            q!(|acc, x| {
                *acc = acc.wrapping_mul(3).wrapping_add(x);
                Some(*acc % 1000)
            }),
        ),
        9 => s.limit(q!(4)),
        10 => {
            let table = s
                .location()
                .source_iter(q!(vec![(0i32, 5i32), (1, 7), (2, 11)]));
            s.map(q!(|x| (x.rem_euclid(4), x)))
                .join(table)
                .map(q!(|(_, (x, t))| x.wrapping_add(t)))
        }
        11 => {
            let banned = s.location().source_iter(q!(vec![1i32, 4]));
            s.filter_not_in(banned)
        }
        12 => {
            let c = s.location().singleton(q!(100i32));
            s.cross_singleton(c).map(q!(|(x, c)| x.wrapping_add(c)))
        }
        _ => {
            // (dropping one side of `partition` unused makes the generated DFIR fail to compile:
            // "`partition` must have at least 2 output(s)", so the odd side gets a null sink)
            let (even, odd) = s.partition(q!(|x| *x % 2 == 0));
            odd.for_each(q!(|_| {}));
            even
        }
    }
}

/// ordered -> unordered
fn a_to_b<'a>(op: u8, s: A<'a>) -> B<'a> {
    match op % N_AB_OPS {
        0 => s.weaken_ordering::<NoOrder>(),
        1 => {
            let t = s.clone().map(q!(|x| x.wrapping_add(500)));
            s.merge_unordered(t)
        }
        2 => {
            let l = s.clone().map(q!(|x| (x.rem_euclid(3), x)));
            let r = s.map(q!(|x| (x.rem_euclid(3), x.wrapping_mul(2))));
            l.join(r).map(q!(|(_, (a, b))| a.wrapping_add(b)))
        }
        _ => {
            let r = s.clone().filter(q!(|x| *x % 2 != 0));
            s.cross_product(r).map(q!(|(a, b)| a.wrapping_mul(7).wrapping_add(b)))
        }
    }
}

/// unordered stage
fn b_stage<'a>(op: u8, s: B<'a>) -> B<'a> {
    match op % N_B_OPS {
        0 => s.map(q!(|x| x.wrapping_mul(3))),
        1 => s.filter(q!(|x| *x % 3 != 0)),
        2 => s.unique(),
        3 => s.flat_map_ordered(q!(|x| vec![x, x.wrapping_neg()])),
        _ => {
            let t = s.clone().map(q!(|x| x.wrapping_add(1)));
            s.merge_unordered(t)
        }
    }
}

fn a_term<'a>(t: u8, s: A<'a>) -> Kind {
    let tick = s.location().tick();
    match t % N_A_TERMS {
        0 => {
            s.embedded_output("out0");
            Kind::Seq
        }
        1 => {
            s.fold(
                q!(|| 0i32),
                q!(|acc, x| *acc = acc.wrapping_mul(3).wrapping_add(x)),
            )
            .snapshot(&tick, nondet!(/** harness observation shim: per-tick snapshot */))
            .all_ticks()
            .embedded_output("out0");
            Kind::SnapOne
        }
        2 => {
            s.reduce(q!(|acc, x| *acc = acc.wrapping_mul(3).wrapping_add(x)))
                .snapshot(&tick, nondet!(/** harness observation shim: per-tick snapshot */))
                .all_ticks()
                .embedded_output("out0");
            Kind::SnapOpt
        }
        3 => {
            s.count()
                .snapshot(&tick, nondet!(/** harness observation shim: per-tick snapshot */))
                .all_ticks()
                .map(q!(|c| c as i32))
                .embedded_output("out0");
            Kind::SnapOne
        }
        4 => {
            s.max()
                .snapshot(&tick, nondet!(/** harness observation shim: per-tick snapshot */))
                .all_ticks()
                .embedded_output("out0");
            Kind::SnapOpt
        }
        5 => {
            s.first()
                .snapshot(&tick, nondet!(/** harness observation shim: per-tick snapshot */))
                .all_ticks()
                .embedded_output("out0");
            Kind::SnapOpt
        }
        6 => {
            s.last()
                .snapshot(&tick, nondet!(/** harness observation shim: per-tick snapshot */))
                .all_ticks()
                .embedded_output("out0");
            Kind::SnapOpt
        }
        _ => {
            let three = s.location().singleton(q!(3usize));
            s.count()
                .threshold_greater_or_equal(three)
                .map(q!(|c| c as i32))
                .embedded_output("out0");
            Kind::Seq
        }
    }
}

fn b_term<'a>(t: u8, s: B<'a>) -> Kind {
    let tick = s.location().tick();
    match t % N_B_TERMS {
        0 => {
            s.assume_ordering::<TotalOrder>(nondet!(/** harness observation shim: compared as a multiset */))
                .embedded_output("out0");
            Kind::Bag
        }
        1 => {
            s.count()
                .snapshot(&tick, nondet!(/** harness observation shim: per-tick snapshot */))
                .all_ticks()
                .map(q!(|c| c as i32))
                .embedded_output("out0");
            Kind::SnapOne
        }
        2 => {
            s.max()
                .snapshot(&tick, nondet!(/** harness observation shim: per-tick snapshot */))
                .all_ticks()
                .embedded_output("out0");
            Kind::SnapOpt
        }
        3 => {
            s.fold(
                q!(|| 0i32),
                q!(
                    |acc, x| *acc = acc.wrapping_add(x),
                    commutative = manual_proof!(/** integer addition */)
                ),
            )
            .snapshot(&tick, nondet!(/** harness observation shim: per-tick snapshot */))
            .all_ticks()
            .embedded_output("out0");
            Kind::SnapOne
        }
        _ => {
            s.map(q!(|x| (x.rem_euclid(3), x)))
                .into_keyed()
                .value_counts()
                .key_count()
                .snapshot(&tick, nondet!(/** harness observation shim: per-tick snapshot */))
                .all_ticks()
                .map(q!(|c| c as i32))
                .embedded_output("out0");
            Kind::SnapOne
        }
    }
}

/// Build the flow described by `prog`:
/// `[n_a, a_op.., unordered?, ab_op, n_b, b_op.., term]` (missing bytes read as 0).
/// Returns the output kind and a human-readable description.
pub fn composed<'a>(input: Stream<i32, P<'a>>, prog: &[u8]) -> (Kind, String) {
    let mut it = prog.iter().cloned();
    let mut next = move || it.next().unwrap_or(0);
    let mut desc = String::from("in");
    let n_a = next() % 4;
    let mut a: A<'a> = input;
    for _ in 0..n_a {
        let op = next() % N_A_OPS;
        desc.push_str(&format!(" -> a{op}"));
        a = a_stage(op, a);
    }
    if next() % 2 == 0 {
        let t = next() % N_A_TERMS;
        desc.push_str(&format!(" -> A{t}"));
        (a_term(t, a), desc)
    } else {
        let ab = next() % N_AB_OPS;
        desc.push_str(&format!(" -> ab{ab}"));
        let mut b = a_to_b(ab, a);
        let n_b = next() % 3;
        for _ in 0..n_b {
            let op = next() % N_B_OPS;
            desc.push_str(&format!(" -> b{op}"));
            b = b_stage(op, b);
        }
        let t = next() % N_B_TERMS;
        desc.push_str(&format!(" -> B{t}"));
        (b_term(t, b), desc)
    }
}
