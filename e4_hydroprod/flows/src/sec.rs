//! Secondary legs under production tick partitions: C31p (slices), C34p (atomic
//! acknowledgements), C39p (quorum helpers of `hydro_std`).

use hydro_lang::live_collections::stream::{NoOrder, TotalOrder};
use hydro_lang::prelude::*;

type P<'a> = Process<'a, ()>;
type In<'a, T> = Stream<T, P<'a>>;

// =========================================================================== C31p: slices
/// per slice: (batch as Vec, snapshot of count(stream), slice-local counter read, counter written)
pub fn sl_batch_snap_state<'a>(input: In<'a, i32>) {
    let cnt = input.clone().count();
    sliced! {
        let batch = use::batch(input, nondet!(/** the simulator owns the slice boundaries */));
        let snap = use::snapshot(cnt, nondet!(/** the simulator owns the slice boundaries */));
        let mut seen = use::state(|l| l.singleton(q!(0usize)));

        let read = seen.clone();
        let written = seen.zip(batch.clone().count()).map(q!(|(old, n)| old + n + 1));
        seen = written.clone();
        batch
            .collect_vec()
            .zip(snap)
            .zip(read.zip(written))
            .map(q!(|((b, s), (r, w))| (b, s, r, w)))
            .into_stream()
    }
    .embedded_output("out0");
}

/// keyed stream batch + snapshot of a keyed singleton (per-key counts) in the same slice
pub fn sl_keyed<'a>(input: In<'a, (i32, i32)>) {
    let keyed = input.into_keyed();
    let counts = keyed.clone().value_counts();
    let (batch_out, snap_out) = sliced! {
        let batch = use::batch(keyed, nondet!(/** the simulator owns the slice boundaries */));
        let snap = use::snapshot(counts, nondet!(/** the simulator owns the slice boundaries */));
        // the per-key order of the batch is made observable the way the type promises it:
        // an ordered per-key fold
        (
            batch
                .fold(q!(|| Vec::<i32>::new()), q!(|acc, x| acc.push(x)))
                .entries(),
            snap.entries(),
        )
    };
    batch_out
        .assume_ordering::<TotalOrder>(nondet!(/** harness observation shim: compared as a set per slice */))
        .embedded_output("out0");
    snap_out
        .assume_ordering::<TotalOrder>(nondet!(/** harness observation shim: compared as a set per slice */))
        .embedded_output("out1");
}

/// `use::batch` on a bounded-value keyed singleton: every key shows up in exactly one slice
pub fn sl_bounded_value_batch<'a>(input: In<'a, (i32, i32)>) {
    let firsts = input.into_keyed().first();
    sliced! {
        let new_entries = use::batch(firsts, nondet!(/** the simulator owns the slice boundaries */));
        new_entries.entries()
    }
    .assume_ordering::<TotalOrder>(nondet!(/** harness observation shim: compared as a set per slice */))
    .embedded_output("out0");
}

/// `use::state_null`: remembers the largest element of earlier slices
pub fn sl_state_null<'a>(input: In<'a, i32>) {
    sliced! {
        let batch = use::batch(input, nondet!(/** the simulator owns the slice boundaries */));
        let mut best = use::state_null::<Optional<i32, _, _>>();

        let read = best.clone().into_singleton();
        let cur = batch.max().into_stream().chain(best.into_stream()).max();
        best = cur.clone();
        read.zip(cur.into_singleton()).into_stream()
    }
    .embedded_output("out0");
}

// =========================================================================== C34p: atomic ack => read-after-write
/// the single-counter pattern of the documentation: increments are acknowledged through
/// `end_atomic()`, reads take an atomic snapshot of the same count
pub fn at_counter<'a>(incs: In<'a, i32>, gets: In<'a, i32>) {
    let processing = incs.atomic();
    let count = processing.clone().count();
    let acks = processing.end_atomic();
    let responses = sliced! {
        let reqs = use::batch(gets, nondet!(/** the simulator owns the slice boundaries */));
        let snap = use::atomic(count, nondet!(/** atomicity guarantees consistency wrt increments */));
        reqs.cross_singleton(snap)
    };
    acks.embedded_output("out0");
    responses.embedded_output("out1");
}

/// keyed variant (the keyed-counter tutorial): increments per key, reads per key
pub fn at_keyed_counter<'a>(incs: In<'a, (i32, i32)>, gets: In<'a, (i32, i32)>) {
    // (key, request id)
    let processing = incs.into_keyed().atomic();
    let counts = processing.clone().value_counts();
    let acks = processing.end_atomic();
    let responses = sliced! {
        let reqs = use::batch(gets.into_keyed(), nondet!(/** the simulator owns the slice boundaries */));
        let snap = use::atomic(counts, nondet!(/** atomicity guarantees consistency wrt increments */));
        reqs.join_keyed_singleton(snap)
    };
    acks.entries()
        .assume_ordering::<TotalOrder>(nondet!(/** harness observation shim */))
        .embedded_output("out0");
    responses
        .entries()
        .assume_ordering::<TotalOrder>(nondet!(/** harness observation shim */))
        .embedded_output("out1");
}

/// the documented non-atomic variant (negative control): ack and snapshot are not tied together
pub fn at_counter_nonatomic<'a>(incs: In<'a, i32>, gets: In<'a, i32>) {
    let count = incs.clone().count();
    let responses = sliced! {
        let reqs = use::batch(gets, nondet!(/** the simulator owns the slice boundaries */));
        let snap = use::snapshot(count, nondet!(/** not atomic wrt the acknowledgement */));
        reqs.cross_singleton(snap)
    };
    incs.embedded_output("out0");
    responses.embedded_output("out1");
}

// =========================================================================== C39p: quorum helpers
type Resp = (i32, Result<i32, i32>);

pub fn q_collect<'a>(input: In<'a, Resp>, min: usize, max: usize) {
    let (keys, errs) = hydro_std::quorum::collect_quorum(
        input.map(q!(|(k, r)| (k, r.map(|_| ())))),
        min,
        max,
    );
    keys.assume_ordering::<TotalOrder>(nondet!(/** harness observation shim: compared as a multiset */))
        .embedded_output("out0");
    errs.embedded_output("out1");
}

pub fn q_collect_with_response<'a>(input: In<'a, Resp>, min: usize, max: usize) {
    let (oks, errs) = hydro_std::quorum::collect_quorum_with_response(input, min, max);
    oks.embedded_output("out0");
    errs.embedded_output("out1");
}

pub fn q_collect_unordered<'a>(input: In<'a, Resp>, min: usize, max: usize) {
    let (keys, errs) = hydro_std::quorum::collect_quorum(
        input
            .weaken_ordering::<NoOrder>()
            .map(q!(|(k, r)| (k, r.map(|_| ())))),
        min,
        max,
    );
    keys.assume_ordering::<TotalOrder>(nondet!(/** harness observation shim: compared as a multiset */))
        .embedded_output("out0");
    errs.assume_ordering::<TotalOrder>(nondet!(/** harness observation shim: compared as a multiset */))
        .embedded_output("out1");
}

/// `join_responses`: metadata registered atomically per tick, responses joined when they arrive
pub fn q_join_responses<'a>(responses: In<'a, (i32, i32)>, metadata: In<'a, (i32, i32)>) {
    let tick = responses.location().tick();
    let meta = metadata
        .atomic()
        .batch_atomic(&tick, nondet!(/** the simulator owns the batch boundaries */))
        .weaken_ordering::<NoOrder>();
    hydro_std::request_response::join_responses(responses.weaken_ordering::<NoOrder>(), meta)
        .assume_ordering::<TotalOrder>(nondet!(/** harness observation shim: compared as a multiset */))
        .embedded_output("out0");
}
