//! Multi-location corpus: network hops over `TCP.fail_stop()` (per-pair FIFO, no loss, arbitrary
//! delay and cross-pair interleaving). All top-level operators are safe APIs; `nondet!` only in
//! the observation shims.

use hydro_lang::live_collections::stream::TotalOrder;
use hydro_lang::location::MemberId;
use hydro_lang::prelude::*;

pub struct A {}
pub struct B {}
pub struct C {}
pub struct Workers {}

/// one ordered hop, then order-sensitive processing on the receiver
pub fn n_hop<'a>(input: Stream<i32, Process<'a, A>>, to: &Process<'a, B>) {
    input
        .map(q!(|x| x + 1))
        .send(to, TCP.fail_stop().bincode().name("ab"))
        .enumerate()
        .embedded_output("out0");
}

/// hop, then an ordered top-level fold on the receiver
pub fn n_hop_fold<'a>(input: Stream<i32, Process<'a, A>>, to: &Process<'a, B>) {
    let tick = to.tick();
    input
        .send(to, TCP.fail_stop().bincode().name("ab"))
        .fold(
            q!(|| 0i32),
            q!(|acc, x| *acc = acc.wrapping_mul(3).wrapping_add(x)),
        )
        .snapshot(&tick, nondet!(/** harness observation shim: per-tick snapshot */))
        .all_ticks()
        .embedded_output("out0");
}

/// hop, then a (monotone) count on the receiver
pub fn n_hop_count<'a>(input: Stream<i32, Process<'a, A>>, to: &Process<'a, B>) {
    let tick = to.tick();
    input
        .send(to, TCP.fail_stop().bincode().name("ab"))
        .count()
        .snapshot(&tick, nondet!(/** harness observation shim: per-tick snapshot */))
        .all_ticks()
        .embedded_output("out0");
}

/// one hop over `TCP.lossy_delayed_forever()`: a safe configuration whose output is `NoOrder`
/// (dropped messages are modelled as indefinitely delayed, so anything may overtake anything)
pub fn n_lossy<'a>(input: Stream<i32, Process<'a, A>>, to: &Process<'a, B>) {
    let tick = to.tick();
    let received = input.send(to, TCP.lossy_delayed_forever().bincode().name("ab"));
    received
        .clone()
        .fold(
            q!(|| 0i32),
            q!(
                |acc, x| *acc = acc.wrapping_add(x.wrapping_mul(x)),
                commutative = manual_proof!(/** sum of squares */)
            ),
        )
        .snapshot(&tick, nondet!(/** harness observation shim: per-tick snapshot */))
        .all_ticks()
        .embedded_output("out1");
    received
        .assume_ordering::<TotalOrder>(nondet!(/** harness observation shim: compared as a multiset */))
        .embedded_output("out0");
}

/// A -> B -> A round trip (two hops), order preserved end to end
pub fn n_roundtrip<'a>(input: Stream<i32, Process<'a, A>>, b: &Process<'a, B>) {
    let a = input.location().clone();
    input
        .send(b, TCP.fail_stop().bincode().name("ab"))
        .scan(
            q!(|| 0i32),
            q!(|acc, x| {
                *acc = acc.wrapping_mul(3).wrapping_add(x);
                Some(*acc)
            }),
        )
        .send(&a, TCP.fail_stop().bincode().name("ba"))
        .embedded_output("out0");
}

/// two senders into one receiver: each pair is FIFO, the merge is unordered
pub fn n_fanin<'a>(
    from_a: Stream<i32, Process<'a, A>>,
    from_b: Stream<i32, Process<'a, B>>,
    to: &Process<'a, C>,
) {
    let a = from_a.send(to, TCP.fail_stop().bincode().name("ac"));
    let b = from_b.send(to, TCP.fail_stop().bincode().name("bc"));
    a.map(q!(|x| (0i32, x)))
        .merge_unordered(b.map(q!(|x| (1i32, x))))
        .assume_ordering::<TotalOrder>(nondet!(/** harness observation shim: compared as a multiset */))
        .embedded_output("out0");
}

/// cluster -> process: keyed by sending member, each member's order is kept
pub fn n_m2o<'a>(input: Stream<i32, Cluster<'a, Workers>>, to: &Process<'a, C>) {
    let tick = to.tick();
    input
        .send(to, TCP.fail_stop().bincode().name("wc"))
        .fold(q!(|| Vec::<i32>::new()), q!(|acc, x| acc.push(x)))
        .snapshot(&tick, nondet!(/** harness observation shim: per-tick snapshot */))
        .entries()
        .map(q!(|(m, v)| (m.get_raw_id() as i32, v)))
        .all_ticks()
        .assume_ordering::<TotalOrder>(nondet!(/** harness observation shim: compared as a set */))
        .embedded_output("out0");
}

/// process -> cluster members chosen per element (demux): each member sees its elements in order
pub fn n_o2m<'a>(input: Stream<(i32, i32), Process<'a, A>>, to: &Cluster<'a, Workers>) {
    input
        .map(q!(|(m, v)| (MemberId::<Workers>::from_raw_id((m % 2) as u32), v)))
        .demux(to, TCP.fail_stop().bincode().name("aw"))
        .enumerate()
        .embedded_output("out0");
}
