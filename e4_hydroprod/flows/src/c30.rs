//! C30 corpus: tick-scoped collections behave like finite batches.
//!
//! Every flow has the form `input.batch(&tick, nondet!) -> <tick operators> -> all_ticks()`.
//! The `batch(.., nondet!)` is the harness's observation seam: the simulator owns the batch
//! boundaries, so it knows which items form batch *i* and can compare the output of tick *i* with
//! the operator applied to batch *i* alone.

use hydro_lang::live_collections::stream::{NoOrder, TotalOrder};
use hydro_lang::prelude::*;

type P<'a> = Process<'a, ()>;
type In<'a, T> = Stream<T, P<'a>>;

/// per-tick ordered (non-commutative) fold
pub fn t_fold<'a>(input: In<'a, i32>) {
    let tick = input.location().tick();
    input
        .batch(&tick, nondet!(/** simulator owns the batch boundaries */))
        .fold(
            q!(|| 0i32),
            q!(|acc, x| *acc = acc.wrapping_mul(3).wrapping_add(x)),
        )
        .all_ticks()
        .embedded_output("out0");
}

/// per-tick ordered reduce
pub fn t_reduce<'a>(input: In<'a, i32>) {
    let tick = input.location().tick();
    input
        .batch(&tick, nondet!(/** simulator owns the batch boundaries */))
        .reduce(q!(|acc, x| *acc = acc.wrapping_mul(3).wrapping_add(x)))
        .all_ticks()
        .embedded_output("out0");
}

pub fn t_count<'a>(input: In<'a, i32>) {
    let tick = input.location().tick();
    input
        .batch(&tick, nondet!(/** simulator owns the batch boundaries */))
        .count()
        .all_ticks()
        .embedded_output("out0");
}

pub fn t_max<'a>(input: In<'a, i32>) {
    let tick = input.location().tick();
    input
        .batch(&tick, nondet!(/** simulator owns the batch boundaries */))
        .max()
        .all_ticks()
        .embedded_output("out0");
}

pub fn t_min<'a>(input: In<'a, i32>) {
    let tick = input.location().tick();
    input
        .batch(&tick, nondet!(/** simulator owns the batch boundaries */))
        .min()
        .all_ticks()
        .embedded_output("out0");
}

pub fn t_first<'a>(input: In<'a, i32>) {
    let tick = input.location().tick();
    input
        .batch(&tick, nondet!(/** simulator owns the batch boundaries */))
        .first()
        .all_ticks()
        .embedded_output("out0");
}

pub fn t_last<'a>(input: In<'a, i32>) {
    let tick = input.location().tick();
    input
        .batch(&tick, nondet!(/** simulator owns the batch boundaries */))
        .last()
        .all_ticks()
        .embedded_output("out0");
}

pub fn t_limit<'a>(input: In<'a, i32>) {
    let tick = input.location().tick();
    input
        .batch(&tick, nondet!(/** simulator owns the batch boundaries */))
        .limit(q!(2))
        .all_ticks()
        .embedded_output("out0");
}

pub fn t_sort<'a>(input: In<'a, i32>) {
    let tick = input.location().tick();
    input
        .batch(&tick, nondet!(/** simulator owns the batch boundaries */))
        .sort()
        .all_ticks()
        .embedded_output("out0");
}

pub fn t_enumerate<'a>(input: In<'a, i32>) {
    let tick = input.location().tick();
    input
        .batch(&tick, nondet!(/** simulator owns the batch boundaries */))
        .enumerate()
        .all_ticks()
        .embedded_output("out0");
}

pub fn t_unique<'a>(input: In<'a, i32>) {
    let tick = input.location().tick();
    input
        .batch(&tick, nondet!(/** simulator owns the batch boundaries */))
        .unique()
        .all_ticks()
        .embedded_output("out0");
}

/// running sum inside the tick: must restart from 0 in every tick
pub fn t_scan<'a>(input: In<'a, i32>) {
    let tick = input.location().tick();
    input
        .batch(&tick, nondet!(/** simulator owns the batch boundaries */))
        .scan(
            q!(|| 0i32),
            q!(|acc, x| {
                *acc = acc.wrapping_add(x);
                Some(*acc)
            }),
        )
        .all_ticks()
        .embedded_output("out0");
}

pub fn t_collect_vec<'a>(input: In<'a, i32>) {
    let tick = input.location().tick();
    input
        .batch(&tick, nondet!(/** simulator owns the batch boundaries */))
        .collect_vec()
        .all_ticks()
        .embedded_output("out0");
}

/// every element paired with the size of its own batch
pub fn t_cross_singleton<'a>(input: In<'a, i32>) {
    let tick = input.location().tick();
    let batch = input.batch(&tick, nondet!(/** simulator owns the batch boundaries */));
    let n = batch.clone().count();
    batch
        .cross_singleton(n)
        .all_ticks()
        .embedded_output("out0");
}

/// is_empty / filter_if gate: elements pass only in ticks whose *other* batch is non-empty
pub fn t_filter_if<'a>(input: In<'a, i32>, gate: In<'a, i32>) {
    let tick = input.location().tick();
    let batch = input.batch(&tick, nondet!(/** simulator owns the batch boundaries */));
    let gate_empty = gate
        .batch(&tick, nondet!(/** simulator owns the batch boundaries */))
        .is_empty();
    batch
        .filter_if(!gate_empty)
        .all_ticks()
        .embedded_output("out0");
}

/// join with a bounded (same tick) build side: the probe side's order is preserved
pub fn t_join<'a>(left: In<'a, (i32, i32)>, right: In<'a, (i32, i32)>) {
    let tick = left.location().tick();
    let l = left.batch(&tick, nondet!(/** simulator owns the batch boundaries */));
    let r = right.batch(&tick, nondet!(/** simulator owns the batch boundaries */));
    l.join(r).all_ticks().embedded_output("out0");
}

/// anti join against the keys that arrived in the same tick
pub fn t_anti_join<'a>(left: In<'a, (i32, i32)>, right: In<'a, i32>) {
    let tick = left.location().tick();
    let l = left.batch(&tick, nondet!(/** simulator owns the batch boundaries */));
    let r = right.batch(&tick, nondet!(/** simulator owns the batch boundaries */));
    l.anti_join(r).all_ticks().embedded_output("out0");
}

pub fn t_filter_not_in<'a>(left: In<'a, i32>, right: In<'a, i32>) {
    let tick = left.location().tick();
    let l = left.batch(&tick, nondet!(/** simulator owns the batch boundaries */));
    let r = right.batch(&tick, nondet!(/** simulator owns the batch boundaries */));
    l.filter_not_in(r).all_ticks().embedded_output("out0");
}

/// nested-loop cross product of two same-tick batches (totally ordered)
pub fn t_cross_product<'a>(left: In<'a, i32>, right: In<'a, i32>) {
    let tick = left.location().tick();
    let l = left.batch(&tick, nondet!(/** simulator owns the batch boundaries */));
    let r = right.batch(&tick, nondet!(/** simulator owns the batch boundaries */));
    l.cross_product_nested_loop(r)
        .all_ticks()
        .embedded_output("out0");
}

/// first-then-second concatenation inside the tick
pub fn t_chain<'a>(left: In<'a, i32>, right: In<'a, i32>) {
    let tick = left.location().tick();
    let l = left.batch(&tick, nondet!(/** simulator owns the batch boundaries */));
    let r = right.batch(&tick, nondet!(/** simulator owns the batch boundaries */));
    l.chain(r).all_ticks().embedded_output("out0");
}

/// per-key fold inside the tick (order of keys unspecified -> observed as a multiset)
pub fn t_keyed_fold<'a>(input: In<'a, (i32, i32)>) {
    let tick = input.location().tick();
    input
        .batch(&tick, nondet!(/** simulator owns the batch boundaries */))
        .into_keyed()
        .fold(
            q!(|| 0i32),
            q!(|acc, x| *acc = acc.wrapping_mul(3).wrapping_add(x)),
        )
        .entries()
        .all_ticks()
        .assume_ordering::<TotalOrder>(nondet!(/** harness observation shim: compared as a multiset */))
        .embedded_output("out0");
}

/// per-key reduce inside the tick
pub fn t_keyed_reduce<'a>(input: In<'a, (i32, i32)>) {
    let tick = input.location().tick();
    input
        .batch(&tick, nondet!(/** simulator owns the batch boundaries */))
        .into_keyed()
        .reduce(q!(|acc, x| *acc = acc.wrapping_mul(3).wrapping_add(x)))
        .entries()
        .all_ticks()
        .assume_ordering::<TotalOrder>(nondet!(/** harness observation shim: compared as a multiset */))
        .embedded_output("out0");
}

/// `defer_tick`: what tick i saw comes out in tick i+1, exactly once
pub fn t_defer<'a>(input: In<'a, i32>) {
    let tick = input.location().tick();
    input
        .batch(&tick, nondet!(/** simulator owns the batch boundaries */))
        .defer_tick()
        .all_ticks()
        .embedded_output("out0");
}

/// two hops of `defer_tick`
pub fn t_defer2<'a>(input: In<'a, i32>) {
    let tick = input.location().tick();
    input
        .batch(&tick, nondet!(/** simulator owns the batch boundaries */))
        .defer_tick()
        .defer_tick()
        .all_ticks()
        .embedded_output("out0");
}

/// current batch followed by the previous tick's batch
pub fn t_defer_chain<'a>(input: In<'a, i32>) {
    let tick = input.location().tick();
    let batch = input.batch(&tick, nondet!(/** simulator owns the batch boundaries */));
    batch
        .clone()
        .chain(batch.defer_tick())
        .all_ticks()
        .embedded_output("out0");
}

/// new-since-previous-tick: the documentation example of `defer_tick`
pub fn t_defer_diff<'a>(input: In<'a, i32>) {
    let tick = input.location().tick();
    let batch = input.batch(&tick, nondet!(/** simulator owns the batch boundaries */));
    batch
        .clone()
        .filter_not_in(batch.defer_tick())
        .all_ticks()
        .embedded_output("out0");
}

/// singleton tick cycle with an initial value: running total across ticks
pub fn t_cycle_sum<'a>(input: In<'a, i32>) {
    let tick = input.location().tick();
    let batch_sum = input
        .batch(&tick, nondet!(/** simulator owns the batch boundaries */))
        .fold(q!(|| 0i32), q!(|acc, x| *acc = acc.wrapping_add(x)));
    let (handle, prev) = tick.cycle_with_initial(tick.singleton(q!(0i32)));
    let next = prev.zip(batch_sum).map(q!(|(a, b)| a.wrapping_add(b)));
    handle.complete_next_tick(next.clone());
    next.all_ticks().embedded_output("out0");
}

/// stream tick cycle: even elements are carried into the next tick (and on, while they stay
/// even after halving)
pub fn t_cycle_stream<'a>(input: In<'a, i32>) {
    let tick = input.location().tick();
    let batch = input.batch(&tick, nondet!(/** simulator owns the batch boundaries */));
    let (handle, carried) = tick.cycle::<Stream<i32, Tick<P<'a>>, Bounded>, _>();
    let all = carried.chain(batch);
    handle.complete_next_tick(
        all.clone()
            .filter(q!(|x| *x % 2 == 0 && *x != 0))
            .map(q!(|x| x / 2)),
    );
    all.all_ticks().embedded_output("out0");
}

/// optional tick cycle: remembers the maximum seen so far (carried tick to tick)
pub fn t_cycle_max<'a>(input: In<'a, i32>) {
    let tick = input.location().tick();
    let batch_max = input
        .batch(&tick, nondet!(/** simulator owns the batch boundaries */))
        .max();
    let (handle, prev) = tick.cycle::<Optional<i32, Tick<P<'a>>, Bounded>, _>();
    let cur = batch_max
        .into_stream()
        .chain(prev.into_stream())
        .max();
    handle.complete_next_tick(cur.clone());
    cur.all_ticks().embedded_output("out0");
}

/// `across_ticks`: the count keeps its memory across ticks
pub fn t_across_count<'a>(input: In<'a, i32>) {
    let tick = input.location().tick();
    input
        .batch(&tick, nondet!(/** simulator owns the batch boundaries */))
        .across_ticks(|s| s.count())
        .all_ticks()
        .embedded_output("out0");
}

/// `across_ticks` with an ordered fold
pub fn t_across_fold<'a>(input: In<'a, i32>) {
    let tick = input.location().tick();
    input
        .batch(&tick, nondet!(/** simulator owns the batch boundaries */))
        .across_ticks(|s| {
            s.fold(
                q!(|| 0i32),
                q!(|acc, x| *acc = acc.wrapping_mul(3).wrapping_add(x)),
            )
        })
        .all_ticks()
        .embedded_output("out0");
}

/// unordered batch: count per tick of a `NoOrder` stream
pub fn t_noorder_count<'a>(input: In<'a, i32>) {
    let tick = input.location().tick();
    input
        .weaken_ordering::<NoOrder>()
        .batch(&tick, nondet!(/** simulator owns the batch boundaries */))
        .count()
        .all_ticks()
        .embedded_output("out0");
}

/// a *bounded top-level* singleton cloned into the tick: it must be there in every tick, not
/// only in the first one (production emits `persist::<'static>()` for it)
pub fn t_clone_into_tick<'a>(input: In<'a, i32>) {
    let tick = input.location().tick();
    let k = input.location().singleton(q!(10i32));
    input
        .batch(&tick, nondet!(/** simulator owns the batch boundaries */))
        .cross_singleton(k.clone_into_tick(&tick))
        .map(q!(|(x, k)| x.wrapping_add(k)))
        .all_ticks()
        .embedded_output("out0");
}

/// the same for a bounded top-level optional (maximum of a static collection)
pub fn t_clone_into_tick_opt<'a>(input: In<'a, i32>) {
    let tick = input.location().tick();
    let m = input.location().source_iter(q!(vec![3i32, 5, 4])).max();
    input
        .batch(&tick, nondet!(/** simulator owns the batch boundaries */))
        .cross_singleton(m.clone_into_tick(&tick))
        .all_ticks()
        .embedded_output("out0");
}
