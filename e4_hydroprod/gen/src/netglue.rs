//! Multi-location corpus entries: hand-written glue that wires the production-generated
//! per-location functions to the simulated network, and the multi-location step driver.
//!
//! Network model (`TCP.fail_stop()`): one FIFO wire per (sender, receiver) pair, no loss, no
//! duplication, arbitrary delay, arbitrary interleaving between different pairs. The simulator
//! decides at every step which location ticks and how many of the in-flight messages at the head
//! of each inbound wire are delivered before that tick.

use std::cell::{Cell, RefCell};
use std::collections::VecDeque;
use std::rc::Rc;

use dfir_rs::bytes::{Bytes, BytesMut};
use hydro_lang::location::member_id::TaglessMemberId;

use crate::io::{Exec, Feed, NetSched, OutLog, Plan, Queue};
use crate::val::Val;

pub trait WireCtl {
    fn in_flight(&self) -> usize;
    /// deliver the first `n` in-flight messages (FIFO), returns how many were moved
    fn deliver(&self, n: usize) -> usize;
    /// delivered to the receiver's stream but not yet consumed by a tick
    fn unconsumed(&self) -> usize;
    /// the channel's declared guarantee admits reordering (`lossy_delayed_forever`: `NoOrder`)
    fn reorders(&self) -> bool {
        false
    }
    /// deliver the in-flight message at position `i` (only for reordering wires)
    fn deliver_at(&self, _i: usize) -> usize {
        0
    }
}

/// One FIFO wire. `M` = what the sender's closure produced; `push` hands it to the receiver.
pub struct Wire<M> {
    pub q: Rc<RefCell<VecDeque<M>>>,
    /// `false`: FIFO (`TCP.fail_stop()`); `true`: any in-flight message may overtake
    /// (`lossy_delayed_forever()`: dropped messages are indefinitely delayed, output `NoOrder`)
    pub reorder: bool,
    push: Box<dyn Fn(M)>,
    unconsumed: Box<dyn Fn() -> usize>,
}
impl<M: 'static> Wire<M> {
    pub fn new<T: 'static>(to: &Queue<T>, conv: impl Fn(M) -> T + 'static) -> Self {
        let q2 = Queue(to.0.clone());
        let q3 = Queue(to.0.clone());
        Wire {
            reorder: false,
            q: Rc::new(RefCell::new(VecDeque::new())),
            push: Box::new(move |m| q2.push(conv(m))),
            unconsumed: Box::new(move || q3.len()),
        }
    }
    pub fn reordering(mut self) -> Self {
        self.reorder = true;
        self
    }
    pub fn sender(&self) -> impl FnMut(M) + 'static {
        let q = self.q.clone();
        move |m| q.borrow_mut().push_back(m)
    }
}
impl<M> WireCtl for Wire<M> {
    fn in_flight(&self) -> usize {
        self.q.borrow().len()
    }
    fn deliver(&self, n: usize) -> usize {
        let mut moved = 0;
        for _ in 0..n {
            let m = self.q.borrow_mut().pop_front();
            let Some(m) = m else { break };
            (self.push)(m);
            moved += 1;
        }
        moved
    }
    fn unconsumed(&self) -> usize {
        (self.unconsumed)()
    }
    fn reorders(&self) -> bool {
        self.reorder
    }
    fn deliver_at(&self, i: usize) -> usize {
        let m = self.q.borrow_mut().remove(i);
        match m {
            Some(m) => {
                (self.push)(m);
                1
            }
            None => 0,
        }
    }
}

pub struct LocCtl<'a> {
    pub run_tick: Box<dyn FnMut() -> bool + 'a>,
    /// local tick counter (stamps this location's outputs)
    pub ticks: Rc<Cell<usize>>,
    /// wires that deliver to this location
    pub inbound: Vec<usize>,
    /// (plan input index, queue)
    pub feeds: Vec<(usize, &'a dyn Feed)>,
}

#[derive(Default)]
pub struct NetStats {
    pub steps: usize,
    pub idle_after: Option<usize>,
    pub loc_of_step: Vec<usize>,
    pub delivered: usize,
    pub max_in_flight: usize,
}

/// Step driver for multi-location flows. Release phase: `plan.steps()` scheduler steps, each
/// releases that step's items, lets the simulator pick a location and its deliveries, and ticks
/// it. Drain phase: `max_drain + extra` fair rounds (every location ticks once, immediate
/// delivery).
pub fn drive_net(plan: &Plan, locs: &mut [LocCtl<'_>], wires: &[&dyn WireCtl], net: &mut dyn NetSched) -> NetStats {
    let n = locs.len();
    let mut st = NetStats::default();
    let mut work = vec![true; n];
    let step_one = |l: usize, locs: &mut [LocCtl<'_>], st: &mut NetStats, work: &mut Vec<bool>, counts: &[usize]| {
        for (k, w) in locs[l].inbound.clone().iter().enumerate() {
            let moved = wires[*w].deliver(counts[k]);
            st.delivered += moved;
        }
        let t = locs[l].ticks.get();
        work[l] = (locs[l].run_tick)();
        locs[l].ticks.set(t + 1);
        st.loc_of_step.push(l);
        st.steps += 1;
    };
    for s in 0..plan.steps() {
        for loc in locs.iter() {
            for (i, f) in &loc.feeds {
                for v in &plan.rel[*i][s] {
                    f.push_val(v);
                }
            }
        }
        let in_flight: usize = wires.iter().map(|w| w.in_flight()).sum();
        st.max_in_flight = st.max_in_flight.max(in_flight);
        let l = net.pick_loc(n);
        let mut counts: Vec<usize> = locs[l].inbound.iter().map(|w| net.deliver(wires[*w].in_flight())).collect();
        for (k, w) in locs[l].inbound.iter().enumerate() {
            if wires[*w].reorders() {
                // the simulator picks *which* in-flight messages arrive, in which order
                for _ in 0..counts[k] {
                    let i = net.pick_msg(wires[*w].in_flight());
                    st.delivered += wires[*w].deliver_at(i);
                }
                counts[k] = 0;
            }
        }
        step_one(l, locs, &mut st, &mut work, &counts);
    }
    // drain, fairly: `max_drain` rounds in which every location ticks once with immediate
    // delivery; `idle_after` = first round at whose start no message was in flight / undelivered
    for round in 0..(plan.max_drain + plan.extra) {
        let quiet = wires.iter().all(|w| w.in_flight() == 0 && w.unconsumed() == 0)
            && locs.iter().all(|l| l.feeds.iter().all(|(_, f)| f.pending() == 0));
        if quiet && st.idle_after.is_none() {
            st.idle_after = Some(round);
        }
        for l in 0..n {
            let counts: Vec<usize> = locs[l].inbound.iter().map(|w| wires[*w].in_flight()).collect();
            step_one(l, locs, &mut st, &mut work, &counts);
        }
    }
    st
}

fn collect(st: NetStats, logs: Vec<(usize, Vec<(usize, Val)>)>) -> Exec {
    let mut outs = vec![];
    for (ticks, log) in logs {
        let mut per_tick = vec![vec![]; ticks];
        for (t, v) in log {
            if t < ticks {
                per_tick[t].push(v);
            }
        }
        outs.push(per_tick);
    }
    Exec {
        outs,
        total_ticks: st.steps,
        idle_after: st.idle_after,
        loc_ticks: st.loc_of_step,
        msgs_delivered: st.delivered,
        max_in_flight: st.max_in_flight,
        suspensions: 0,
    }
}

type RecvItem = Result<BytesMut, std::io::Error>;
type RecvTagged = Result<(TaglessMemberId, BytesMut), std::io::Error>;
fn to_recv(b: Bytes) -> RecvItem {
    Ok(BytesMut::from(&b[..]))
}

use crate::genmods::{n_lossy as g_lossy, n_fanin as g_fanin, n_hop as g_hop, n_hop_count as g_hop_count, n_hop_fold as g_hop_fold, n_m2o as g_m2o, n_o2m as g_o2m, n_roundtrip as g_rt};

/// A --ab--> B, output on B
macro_rules! exec_one_hop {
    ($fname:ident, $g:ident, $fa:ident, $fb:ident) => {
        pub fn $fname(plan: &Plan, net: &mut dyn NetSched) -> Exec {
            let ta = Rc::new(Cell::new(0usize));
            let tb = Rc::new(Cell::new(0usize));
            let in0 = Queue::<i32>::new();
            let rx = Queue::<RecvItem>::new();
            let wire = Wire::<Bytes>::new(&rx, to_recv);
            let out0 = OutLog::new(&tb);
            let st = {
                let mut net_out = $g::$fa::EmbeddedNetworkOut { ab: wire.sender() };
                let mut flow_a = $g::$fa(in0.stream(), &mut net_out);
                let mut outs = $g::$fb::EmbeddedOutputs { out0: |x| out0.push(x) };
                let mut flow_b = $g::$fb(&mut outs, $g::$fb::EmbeddedNetworkIn { ab: rx.stream() });
                let mut locs = vec![
                    LocCtl { run_tick: Box::new(|| flow_a.run_tick_sync()), ticks: ta.clone(), inbound: vec![], feeds: vec![(0, &in0)] },
                    LocCtl { run_tick: Box::new(|| flow_b.run_tick_sync()), ticks: tb.clone(), inbound: vec![0], feeds: vec![] },
                ];
                drive_net(plan, &mut locs, &[&wire], net)
            };
            collect(st, vec![(tb.get(), out0.take())])
        }
    };
}
exec_one_hop!(x_n_hop, g_hop, n_hop_a, n_hop_b);
exec_one_hop!(x_n_hop_fold, g_hop_fold, n_hop_fold_a, n_hop_fold_b);
exec_one_hop!(x_n_hop_count, g_hop_count, n_hop_count_a, n_hop_count_b);

/// A --ab (lossy_delayed_forever: reordering wire)--> B, two outputs on B
pub fn x_n_lossy(plan: &Plan, net: &mut dyn NetSched) -> Exec {
    let ta = Rc::new(Cell::new(0usize));
    let tb = Rc::new(Cell::new(0usize));
    let in0 = Queue::<i32>::new();
    let rx = Queue::<RecvItem>::new();
    let wire = Wire::<Bytes>::new(&rx, to_recv).reordering();
    let out0 = OutLog::new(&tb);
    let out1 = OutLog::new(&tb);
    let st = {
        let mut net_out = g_lossy::n_lossy_a::EmbeddedNetworkOut { ab: wire.sender() };
        let mut flow_a = g_lossy::n_lossy_a(in0.stream(), &mut net_out);
        let mut outs = g_lossy::n_lossy_b::EmbeddedOutputs { out0: |x| out0.push(x), out1: |x| out1.push(x) };
        let mut flow_b = g_lossy::n_lossy_b(&mut outs, g_lossy::n_lossy_b::EmbeddedNetworkIn { ab: rx.stream() });
        let mut locs = vec![
            LocCtl { run_tick: Box::new(|| flow_a.run_tick_sync()), ticks: ta.clone(), inbound: vec![], feeds: vec![(0, &in0)] },
            LocCtl { run_tick: Box::new(|| flow_b.run_tick_sync()), ticks: tb.clone(), inbound: vec![0], feeds: vec![] },
        ];
        drive_net(plan, &mut locs, &[&wire], net)
    };
    collect(st, vec![(tb.get(), out0.take()), (tb.get(), out1.take())])
}

/// A --ab--> B --ba--> A, output on A
pub fn x_n_roundtrip(plan: &Plan, net: &mut dyn NetSched) -> Exec {
    let ta = Rc::new(Cell::new(0usize));
    let tb = Rc::new(Cell::new(0usize));
    let in0 = Queue::<i32>::new();
    let rx_b = Queue::<RecvItem>::new();
    let rx_a = Queue::<RecvItem>::new();
    let ab = Wire::<Bytes>::new(&rx_b, to_recv);
    let ba = Wire::<Bytes>::new(&rx_a, to_recv);
    let out0 = OutLog::new(&ta);
    let st = {
        let mut a_out = g_rt::n_roundtrip_a::EmbeddedNetworkOut { ab: ab.sender() };
        let mut a_outs = g_rt::n_roundtrip_a::EmbeddedOutputs { out0: |x| out0.push(x) };
        let mut flow_a = g_rt::n_roundtrip_a(in0.stream(), &mut a_outs, g_rt::n_roundtrip_a::EmbeddedNetworkIn { ba: rx_a.stream() }, &mut a_out);
        let mut b_out = g_rt::n_roundtrip_b::EmbeddedNetworkOut { ba: ba.sender() };
        let mut flow_b = g_rt::n_roundtrip_b(g_rt::n_roundtrip_b::EmbeddedNetworkIn { ab: rx_b.stream() }, &mut b_out);
        let mut locs = vec![
            LocCtl { run_tick: Box::new(|| flow_a.run_tick_sync()), ticks: ta.clone(), inbound: vec![1], feeds: vec![(0, &in0)] },
            LocCtl { run_tick: Box::new(|| flow_b.run_tick_sync()), ticks: tb.clone(), inbound: vec![0], feeds: vec![] },
        ];
        drive_net(plan, &mut locs, &[&ab, &ba], net)
    };
    collect(st, vec![(ta.get(), out0.take())])
}

/// A --ac--> C <--bc-- B, output on C
pub fn x_n_fanin(plan: &Plan, net: &mut dyn NetSched) -> Exec {
    let ta = Rc::new(Cell::new(0usize));
    let tb = Rc::new(Cell::new(0usize));
    let tc = Rc::new(Cell::new(0usize));
    let in_a = Queue::<i32>::new();
    let in_b = Queue::<i32>::new();
    let rx_ac = Queue::<RecvItem>::new();
    let rx_bc = Queue::<RecvItem>::new();
    let ac = Wire::<Bytes>::new(&rx_ac, to_recv);
    let bc = Wire::<Bytes>::new(&rx_bc, to_recv);
    let out0 = OutLog::new(&tc);
    let st = {
        let mut a_out = g_fanin::n_fanin_a::EmbeddedNetworkOut { ac: ac.sender() };
        let mut flow_a = g_fanin::n_fanin_a(in_a.stream(), &mut a_out);
        let mut b_out = g_fanin::n_fanin_b::EmbeddedNetworkOut { bc: bc.sender() };
        let mut flow_b = g_fanin::n_fanin_b(in_b.stream(), &mut b_out);
        let mut c_outs = g_fanin::n_fanin_c::EmbeddedOutputs { out0: |x| out0.push(x) };
        let mut flow_c = g_fanin::n_fanin_c(&mut c_outs, g_fanin::n_fanin_c::EmbeddedNetworkIn { ac: rx_ac.stream(), bc: rx_bc.stream() });
        let mut locs = vec![
            LocCtl { run_tick: Box::new(|| flow_a.run_tick_sync()), ticks: ta.clone(), inbound: vec![], feeds: vec![(0, &in_a)] },
            LocCtl { run_tick: Box::new(|| flow_b.run_tick_sync()), ticks: tb.clone(), inbound: vec![], feeds: vec![(1, &in_b)] },
            LocCtl { run_tick: Box::new(|| flow_c.run_tick_sync()), ticks: tc.clone(), inbound: vec![0, 1], feeds: vec![] },
        ];
        drive_net(plan, &mut locs, &[&ac, &bc], net)
    };
    collect(st, vec![(tc.get(), out0.take())])
}

/// cluster members W0, W1 --wc--> C (one FIFO wire per member, one tagged stream at C)
pub fn x_n_m2o(plan: &Plan, net: &mut dyn NetSched) -> Exec {
    let t0 = Rc::new(Cell::new(0usize));
    let t1 = Rc::new(Cell::new(0usize));
    let tc = Rc::new(Cell::new(0usize));
    let id0 = TaglessMemberId::from_raw_id(0);
    let id1 = TaglessMemberId::from_raw_id(1);
    let in_0 = Queue::<i32>::new();
    let in_1 = Queue::<i32>::new();
    let rx = Queue::<RecvTagged>::new();
    let (i0, i1) = (id0.clone(), id1.clone());
    let w0 = Wire::<Bytes>::new(&rx, move |b: Bytes| Ok((i0.clone(), BytesMut::from(&b[..]))));
    let w1 = Wire::<Bytes>::new(&rx, move |b: Bytes| Ok((i1.clone(), BytesMut::from(&b[..]))));
    let out0 = OutLog::new(&tc);
    let st = {
        let mut o0 = g_m2o::n_m2o_w::EmbeddedNetworkOut { wc: w0.sender() };
        let mut flow_0 = g_m2o::n_m2o_w(&id0, in_0.stream(), &mut o0);
        let mut o1 = g_m2o::n_m2o_w::EmbeddedNetworkOut { wc: w1.sender() };
        let mut flow_1 = g_m2o::n_m2o_w(&id1, in_1.stream(), &mut o1);
        let mut c_outs = g_m2o::n_m2o_c::EmbeddedOutputs { out0: |x| out0.push(x) };
        let mut flow_c = g_m2o::n_m2o_c(&mut c_outs, g_m2o::n_m2o_c::EmbeddedNetworkIn { wc: rx.stream() });
        let mut locs = vec![
            LocCtl { run_tick: Box::new(|| flow_0.run_tick_sync()), ticks: t0.clone(), inbound: vec![], feeds: vec![(0, &in_0)] },
            LocCtl { run_tick: Box::new(|| flow_1.run_tick_sync()), ticks: t1.clone(), inbound: vec![], feeds: vec![(1, &in_1)] },
            LocCtl { run_tick: Box::new(|| flow_c.run_tick_sync()), ticks: tc.clone(), inbound: vec![0, 1], feeds: vec![] },
        ];
        drive_net(plan, &mut locs, &[&w0, &w1], net)
    };
    collect(st, vec![(tc.get(), out0.take())])
}

/// A --aw--> cluster members W0, W1 (demux: one FIFO wire per member)
pub fn x_n_o2m(plan: &Plan, net: &mut dyn NetSched) -> Exec {
    let ta = Rc::new(Cell::new(0usize));
    let t0 = Rc::new(Cell::new(0usize));
    let t1 = Rc::new(Cell::new(0usize));
    let id0 = TaglessMemberId::from_raw_id(0);
    let id1 = TaglessMemberId::from_raw_id(1);
    let in0 = Queue::<(i32, i32)>::new();
    let rx0 = Queue::<RecvItem>::new();
    let rx1 = Queue::<RecvItem>::new();
    let w0 = Wire::<Bytes>::new(&rx0, to_recv);
    let w1 = Wire::<Bytes>::new(&rx1, to_recv);
    let out_0 = OutLog::new(&t0);
    let out_1 = OutLog::new(&t1);
    let st = {
        let (mut s0, mut s1) = (w0.sender(), w1.sender());
        let mut a_out = g_o2m::n_o2m_a::EmbeddedNetworkOut {
            aw: move |(to, b): (TaglessMemberId, Bytes)| {
                if to.get_raw_id() == 0 { s0(b) } else { s1(b) }
            },
        };
        let mut flow_a = g_o2m::n_o2m_a(in0.stream(), &mut a_out);
        let mut outs0 = g_o2m::n_o2m_w::EmbeddedOutputs { out0: |x| out_0.push(x) };
        let mut flow_0 = g_o2m::n_o2m_w(&id0, &mut outs0, g_o2m::n_o2m_w::EmbeddedNetworkIn { aw: rx0.stream() });
        let mut outs1 = g_o2m::n_o2m_w::EmbeddedOutputs { out0: |x| out_1.push(x) };
        let mut flow_1 = g_o2m::n_o2m_w(&id1, &mut outs1, g_o2m::n_o2m_w::EmbeddedNetworkIn { aw: rx1.stream() });
        let mut locs = vec![
            LocCtl { run_tick: Box::new(|| flow_a.run_tick_sync()), ticks: ta.clone(), inbound: vec![], feeds: vec![(0, &in0)] },
            LocCtl { run_tick: Box::new(|| flow_0.run_tick_sync()), ticks: t0.clone(), inbound: vec![0], feeds: vec![] },
            LocCtl { run_tick: Box::new(|| flow_1.run_tick_sync()), ticks: t1.clone(), inbound: vec![1], feeds: vec![] },
        ];
        drive_net(plan, &mut locs, &[&w0, &w1], net)
    };
    collect(st, vec![(t0.get(), out_0.take()), (t1.get(), out_1.take())])
}

