//! Monomorphic glue: one `fn(&Plan, &mut dyn NetSched) -> Exec` per single-location corpus
//! entry, instantiating the production-generated function with simulated inputs (`in0..`) and
//! recording outputs (`out0..`).

/// Glue for a single-location flow: inputs `in0..`, outputs `out0..`.
#[macro_export]
macro_rules! exec_local {
    ($fname:ident, $m:ident, [$($in:ident : $inty:ty),*], [$($out:ident),*]) => {
        pub fn $fname(plan: &$crate::io::Plan, _net: &mut dyn $crate::io::NetSched) -> $crate::io::Exec {
            use $crate::io::{Feed, OutLog, Queue};
            let tick = std::rc::Rc::new(std::cell::Cell::new(0usize));
            $( let $in = Queue::<$inty>::new(); )*
            $( let $out = OutLog::new(&tick); )*
            let (total, idle) = {
                let mut outs = $crate::genmods::$m::$m::EmbeddedOutputs {
                    $( $out: |x| $out.push(x), )*
                };
                let mut flow = $crate::genmods::$m::$m($( $in.stream(), )* &mut outs);
                let feeds: Vec<&dyn Feed> = vec![$( &$in ),*];
                let r = $crate::io::drive_local(plan, &feeds, &tick, &mut || flow.run_tick_sync());
                drop(flow);
                r
            };
            $crate::io::Exec::collect(total, idle, vec![$( $out.take() ),*])
        }
    };
}

/// Glue for a single-location flow that additionally takes embedded *singleton* inputs
/// (plain values, given first in the generated signature).
#[macro_export]
macro_rules! exec_local_s {
    ($fname:ident, $m:ident, ($($sv:expr),*), [$($in:ident : $inty:ty),*], [$($out:ident),*]) => {
        pub fn $fname(plan: &$crate::io::Plan, _net: &mut dyn $crate::io::NetSched) -> $crate::io::Exec {
            use $crate::io::{Feed, OutLog, Queue};
            let tick = std::rc::Rc::new(std::cell::Cell::new(0usize));
            $( let $in = Queue::<$inty>::new(); )*
            $( let $out = OutLog::new(&tick); )*
            let (total, idle) = {
                let mut outs = $crate::genmods::$m::$m::EmbeddedOutputs {
                    $( $out: |x| $out.push(x), )*
                };
                let mut flow = $crate::genmods::$m::$m($( $sv, )* $( $in.stream(), )* &mut outs);
                let feeds: Vec<&dyn Feed> = vec![$( &$in ),*];
                let r = $crate::io::drive_local(plan, &feeds, &tick, &mut || flow.run_tick_sync());
                drop(flow);
                r
            };
            $crate::io::Exec::collect(total, idle, vec![$( $out.take() ),*])
        }
    };
}

exec_local!(x_t_fold, t_fold, [in0: i32], [out0]);
exec_local!(x_t_reduce, t_reduce, [in0: i32], [out0]);
exec_local!(x_t_count, t_count, [in0: i32], [out0]);
exec_local!(x_t_max, t_max, [in0: i32], [out0]);
exec_local!(x_t_min, t_min, [in0: i32], [out0]);
exec_local!(x_t_first, t_first, [in0: i32], [out0]);
exec_local!(x_t_last, t_last, [in0: i32], [out0]);
exec_local!(x_t_limit, t_limit, [in0: i32], [out0]);
exec_local!(x_t_sort, t_sort, [in0: i32], [out0]);
exec_local!(x_t_enumerate, t_enumerate, [in0: i32], [out0]);
exec_local!(x_t_unique, t_unique, [in0: i32], [out0]);
exec_local!(x_t_scan, t_scan, [in0: i32], [out0]);
exec_local!(x_t_collect_vec, t_collect_vec, [in0: i32], [out0]);
exec_local!(x_t_cross_singleton, t_cross_singleton, [in0: i32], [out0]);
exec_local!(x_t_filter_if, t_filter_if, [in0: i32, in1: i32], [out0]);
exec_local!(x_t_join, t_join, [in0: (i32, i32), in1: (i32, i32)], [out0]);
exec_local!(x_t_anti_join, t_anti_join, [in0: (i32, i32), in1: i32], [out0]);
exec_local!(x_t_filter_not_in, t_filter_not_in, [in0: i32, in1: i32], [out0]);
exec_local!(x_t_cross_product, t_cross_product, [in0: i32, in1: i32], [out0]);
exec_local!(x_t_chain, t_chain, [in0: i32, in1: i32], [out0]);
exec_local!(x_t_keyed_fold, t_keyed_fold, [in0: (i32, i32)], [out0]);
exec_local!(x_t_keyed_reduce, t_keyed_reduce, [in0: (i32, i32)], [out0]);
exec_local!(x_t_defer, t_defer, [in0: i32], [out0]);
exec_local!(x_t_defer2, t_defer2, [in0: i32], [out0]);
exec_local!(x_t_defer_chain, t_defer_chain, [in0: i32], [out0]);
exec_local!(x_t_defer_diff, t_defer_diff, [in0: i32], [out0]);
exec_local!(x_t_cycle_sum, t_cycle_sum, [in0: i32], [out0]);
exec_local!(x_t_cycle_stream, t_cycle_stream, [in0: i32], [out0]);
exec_local!(x_t_cycle_max, t_cycle_max, [in0: i32], [out0]);
exec_local!(x_t_across_count, t_across_count, [in0: i32], [out0]);
exec_local!(x_t_across_fold, t_across_fold, [in0: i32], [out0]);
exec_local!(x_t_noorder_count, t_noorder_count, [in0: i32], [out0]);
exec_local!(x_s_map_filter, s_map_filter, [in0: i32], [out0]);
exec_local!(x_s_enumerate, s_enumerate, [in0: i32], [out0]);
exec_local!(x_s_scan, s_scan, [in0: i32], [out0]);
exec_local!(x_s_unique, s_unique, [in0: i32], [out0]);
exec_local!(x_s_limit, s_limit, [in0: i32], [out0]);
exec_local!(x_s_partition, s_partition, [in0: i32], [out0, out1]);
exec_local!(x_s_join_static, s_join_static, [in0: (i32, i32)], [out0]);
exec_local!(x_s_anti_join_static, s_anti_join_static, [in0: (i32, i32)], [out0]);
exec_local!(x_s_filter_not_in_static, s_filter_not_in_static, [in0: i32], [out0]);
exec_local!(x_s_cross_singleton_static, s_cross_singleton_static, [in0: i32], [out0]);
exec_local!(x_s_threshold, s_threshold, [in0: i32], [out0]);
exec_local!(x_s_join, s_join, [in0: (i32, i32), in1: (i32, i32)], [out0]);
exec_local!(x_s_cross_product, s_cross_product, [in0: i32, in1: i32], [out0]);
exec_local!(x_s_merge, s_merge, [in0: i32, in1: i32], [out0]);
exec_local!(x_s_tee, s_tee, [in0: i32], [out0]);
exec_local!(x_s_self_join, s_self_join, [in0: (i32, i32)], [out0]);
exec_local!(x_s_keyed_first, s_keyed_first, [in0: (i32, i32)], [out0]);
exec_local!(x_s_fold, s_fold, [in0: i32], [out0]);
exec_local!(x_s_reduce, s_reduce, [in0: i32], [out0]);
exec_local!(x_s_count, s_count, [in0: i32], [out0]);
exec_local!(x_s_max, s_max, [in0: i32], [out0]);
exec_local!(x_s_min, s_min, [in0: i32], [out0]);
exec_local!(x_s_first, s_first, [in0: i32], [out0]);
exec_local!(x_s_last, s_last, [in0: i32], [out0]);
exec_local!(x_s_collect_vec, s_collect_vec, [in0: i32], [out0]);
exec_local!(x_s_join_sum, s_join_sum, [in0: (i32, i32), in1: (i32, i32)], [out0]);
exec_local!(x_s_unique_count, s_unique_count, [in0: i32], [out0]);
exec_local!(x_s_cross_count, s_cross_count, [in0: i32, in1: i32], [out0]);
exec_local!(x_s_keyed_fold, s_keyed_fold, [in0: (i32, i32)], [out0]);
exec_local!(x_s_keyed_reduce, s_keyed_reduce, [in0: (i32, i32)], [out0]);
exec_local!(x_s_value_counts, s_value_counts, [in0: (i32, i32)], [out0]);
exec_local!(x_s_key_count, s_key_count, [in0: (i32, i32)], [out0]);
exec_local!(x_s_keyed_vec, s_keyed_vec, [in0: (i32, i32)], [out0]);
exec_local!(x_s_keyed_scan, s_keyed_scan, [in0: (i32, i32)], [out0]);
exec_local!(x_s_keyed_enum_limit, s_keyed_enum_limit, [in0: (i32, i32)], [out0]);
