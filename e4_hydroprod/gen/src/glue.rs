//! Monomorphic glue: one `fn(&Plan, &mut dyn NetSched) -> Exec` per single-location corpus
//! entry, instantiating the production-generated function with simulated inputs (`in0..`) and
//! recording outputs (`out0..`).

pub type ExecFn = fn(&crate::io::Plan, &mut dyn crate::io::NetSched) -> crate::io::Exec;

/// Glue for a single-location flow: inputs `in0..`, outputs `out0..`.
#[macro_export]
macro_rules! exec_local {
    ($fname:ident, $m:ident, [$($in:ident : $inty:ty),*], [$($out:ident),*]) => {
        pub fn $fname(plan: &$crate::io::Plan, _net: &mut dyn $crate::io::NetSched) -> $crate::io::Exec {
            use $crate::io::{Feed, OutLog, Queue};
            let tick = std::rc::Rc::new(std::cell::Cell::new(0usize));
            $( let $in = Queue::<$inty>::new(); )*
            $( let $out = OutLog::new(&tick); )*
            let (total, idle) = {
                let mut outs = $crate::genmods::$m::$m::EmbeddedOutputs {
                    $( $out: |x| $out.push(x), )*
                };
                let mut flow = $crate::genmods::$m::$m($( $in.stream(), )* &mut outs);
                let feeds: Vec<&dyn Feed> = vec![$( &$in ),*];
                let r = $crate::io::drive_local(plan, &feeds, &tick, &mut || flow.run_tick_sync());
                drop(flow);
                r
            };
            $crate::io::Exec::collect(total, idle, vec![$( $out.take() ),*])
        }
    };
}

/// Glue for a single-location flow that additionally takes embedded *singleton* inputs
/// (plain values, given first in the generated signature).
#[macro_export]
macro_rules! exec_local_s {
    ($fname:ident, $m:ident, ($($sv:expr),*), [$($in:ident : $inty:ty),*], [$($out:ident),*]) => {
        pub fn $fname(plan: &$crate::io::Plan, _net: &mut dyn $crate::io::NetSched) -> $crate::io::Exec {
            use $crate::io::{Feed, OutLog, Queue};
            let tick = std::rc::Rc::new(std::cell::Cell::new(0usize));
            $( let $in = Queue::<$inty>::new(); )*
            $( let $out = OutLog::new(&tick); )*
            let (total, idle) = {
                let mut outs = $crate::genmods::$m::$m::EmbeddedOutputs {
                    $( $out: |x| $out.push(x), )*
                };
                let mut flow = $crate::genmods::$m::$m($( $sv, )* $( $in.stream(), )* &mut outs);
                let feeds: Vec<&dyn Feed> = vec![$( &$in ),*];
                let r = $crate::io::drive_local(plan, &feeds, &tick, &mut || flow.run_tick_sync());
                drop(flow);
                r
            };
            $crate::io::Exec::collect(total, idle, vec![$( $out.take() ),*])
        }
    };
}

exec_local!(x_t_fold, t_fold, [in0: i32], [out0]);
exec_local!(x_t_reduce, t_reduce, [in0: i32], [out0]);
exec_local!(x_t_count, t_count, [in0: i32], [out0]);
exec_local!(x_t_max, t_max, [in0: i32], [out0]);
exec_local!(x_t_min, t_min, [in0: i32], [out0]);
exec_local!(x_t_first, t_first, [in0: i32], [out0]);
exec_local!(x_t_last, t_last, [in0: i32], [out0]);
exec_local!(x_t_limit, t_limit, [in0: i32], [out0]);
exec_local!(x_t_sort, t_sort, [in0: i32], [out0]);
exec_local!(x_t_enumerate, t_enumerate, [in0: i32], [out0]);
exec_local!(x_t_unique, t_unique, [in0: i32], [out0]);
exec_local!(x_t_scan, t_scan, [in0: i32], [out0]);
exec_local!(x_t_collect_vec, t_collect_vec, [in0: i32], [out0]);
exec_local!(x_t_cross_singleton, t_cross_singleton, [in0: i32], [out0]);
exec_local!(x_t_filter_if, t_filter_if, [in0: i32, in1: i32], [out0]);
exec_local!(x_t_join, t_join, [in0: (i32, i32), in1: (i32, i32)], [out0]);
exec_local!(x_t_anti_join, t_anti_join, [in0: (i32, i32), in1: i32], [out0]);
exec_local!(x_t_filter_not_in, t_filter_not_in, [in0: i32, in1: i32], [out0]);
exec_local!(x_t_cross_product, t_cross_product, [in0: i32, in1: i32], [out0]);
exec_local!(x_t_chain, t_chain, [in0: i32, in1: i32], [out0]);
exec_local!(x_t_keyed_fold, t_keyed_fold, [in0: (i32, i32)], [out0]);
exec_local!(x_t_keyed_reduce, t_keyed_reduce, [in0: (i32, i32)], [out0]);
exec_local!(x_t_defer, t_defer, [in0: i32], [out0]);
exec_local!(x_t_defer2, t_defer2, [in0: i32], [out0]);
exec_local!(x_t_defer_chain, t_defer_chain, [in0: i32], [out0]);
exec_local!(x_t_defer_diff, t_defer_diff, [in0: i32], [out0]);
exec_local!(x_t_cycle_sum, t_cycle_sum, [in0: i32], [out0]);
exec_local!(x_t_cycle_stream, t_cycle_stream, [in0: i32], [out0]);
exec_local!(x_t_cycle_max, t_cycle_max, [in0: i32], [out0]);
exec_local!(x_t_across_count, t_across_count, [in0: i32], [out0]);
exec_local!(x_t_across_fold, t_across_fold, [in0: i32], [out0]);
exec_local!(x_t_noorder_count, t_noorder_count, [in0: i32], [out0]);
exec_local!(x_t_clone_into_tick, t_clone_into_tick, [in0: i32], [out0]);
exec_local!(x_t_clone_into_tick_opt, t_clone_into_tick_opt, [in0: i32], [out0]);
exec_local!(x_s_map_filter, s_map_filter, [in0: i32], [out0]);
exec_local!(x_s_enumerate, s_enumerate, [in0: i32], [out0]);
exec_local!(x_s_scan, s_scan, [in0: i32], [out0]);
exec_local!(x_s_unique, s_unique, [in0: i32], [out0]);
exec_local!(x_s_limit, s_limit, [in0: i32], [out0]);
exec_local!(x_s_partition, s_partition, [in0: i32], [out0, out1]);
exec_local!(x_s_join_static, s_join_static, [in0: (i32, i32)], [out0]);
exec_local!(x_s_anti_join_static, s_anti_join_static, [in0: (i32, i32)], [out0]);
exec_local!(x_s_filter_not_in_static, s_filter_not_in_static, [in0: i32], [out0]);
exec_local!(x_s_cross_singleton_static, s_cross_singleton_static, [in0: i32], [out0]);
exec_local!(x_s_threshold, s_threshold, [in0: i32], [out0]);
exec_local!(x_s_join, s_join, [in0: (i32, i32), in1: (i32, i32)], [out0]);
exec_local!(x_s_cross_product, s_cross_product, [in0: i32, in1: i32], [out0]);
exec_local!(x_s_merge, s_merge, [in0: i32, in1: i32], [out0]);
exec_local!(x_s_tee, s_tee, [in0: i32], [out0]);
exec_local!(x_s_self_join, s_self_join, [in0: (i32, i32)], [out0]);
exec_local!(x_s_keyed_first, s_keyed_first, [in0: (i32, i32)], [out0]);
exec_local!(x_s_fold, s_fold, [in0: i32], [out0]);
exec_local!(x_s_reduce, s_reduce, [in0: i32], [out0]);
exec_local!(x_s_count, s_count, [in0: i32], [out0]);
exec_local!(x_s_max, s_max, [in0: i32], [out0]);
exec_local!(x_s_min, s_min, [in0: i32], [out0]);
exec_local!(x_s_first, s_first, [in0: i32], [out0]);
exec_local!(x_s_last, s_last, [in0: i32], [out0]);
exec_local!(x_s_collect_vec, s_collect_vec, [in0: i32], [out0]);
exec_local!(x_s_join_sum, s_join_sum, [in0: (i32, i32), in1: (i32, i32)], [out0]);
exec_local!(x_s_unique_count, s_unique_count, [in0: i32], [out0]);
exec_local!(x_s_cross_count, s_cross_count, [in0: i32, in1: i32], [out0]);
exec_local!(x_s_keyed_fold, s_keyed_fold, [in0: (i32, i32)], [out0]);
exec_local!(x_s_keyed_reduce, s_keyed_reduce, [in0: (i32, i32)], [out0]);
exec_local!(x_s_value_counts, s_value_counts, [in0: (i32, i32)], [out0]);
exec_local!(x_s_key_count, s_key_count, [in0: (i32, i32)], [out0]);
exec_local!(x_s_keyed_vec, s_keyed_vec, [in0: (i32, i32)], [out0]);
exec_local!(x_s_keyed_scan, s_keyed_scan, [in0: (i32, i32)], [out0]);
exec_local!(x_s_keyed_enum_limit, s_keyed_enum_limit, [in0: (i32, i32)], [out0]);
exec_local!(x_w_max_top, w_max_top, [in0: i32], [out0]);
exec_local!(x_w_min_top, w_min_top, [in0: i32], [out0]);
exec_local!(x_w_max_tick, w_max_tick, [in0: i32], [out0]);
exec_local!(x_w_min_tick, w_min_tick, [in0: i32], [out0]);
exec_local!(x_w_first_top, w_first_top, [in0: i32], [out0]);
exec_local!(x_w_last_top, w_last_top, [in0: i32], [out0]);
exec_local!(x_w_first_tick, w_first_tick, [in0: i32], [out0]);
exec_local!(x_w_last_tick, w_last_tick, [in0: i32], [out0]);
exec_local!(x_w_count_top, w_count_top, [in0: i32], [out0]);
exec_local!(x_w_count_tick, w_count_tick, [in0: i32], [out0]);
exec_local!(x_w_is_empty_tick, w_is_empty_tick, [in0: i32], [out0]);
exec_local!(x_w_weaken_ordering, w_weaken_ordering, [in0: i32], [out0]);
exec_local!(x_w_make_totally_ordered, w_make_totally_ordered, [in0: i32], [out0]);
exec_local!(x_w_weaken_retries, w_weaken_retries, [in0: i32], [out0]);
exec_local!(x_w_make_exactly_once, w_make_exactly_once, [in0: i32], [out0]);
exec_local!(x_k_weaken_ordering, k_weaken_ordering, [in0: (i32, i32)], [out0]);
exec_local!(x_k_make_totally_ordered, k_make_totally_ordered, [in0: (i32, i32)], [out0]);
exec_local!(x_k_weaken_retries, k_weaken_retries, [in0: (i32, i32)], [out0]);
exec_local!(x_k_make_exactly_once, k_make_exactly_once, [in0: (i32, i32)], [out0]);
exec_local!(x_k_value_counts_top, k_value_counts_top, [in0: (i32, i32)], [out0]);
exec_local!(x_k_value_counts_tick, k_value_counts_tick, [in0: (i32, i32)], [out0]);
exec_local!(x_ks_into_singleton_bv, ks_into_singleton_bv, [in0: (i32, i32)], [out0]);
exec_local!(x_ks_into_singleton_unb, ks_into_singleton_unb, [in0: (i32, i32)], [out0]);
exec_local!(x_ks_into_singleton_tick, ks_into_singleton_tick, [in0: (i32, i32)], [out0]);
exec_local!(x_ks_get_max_key_top, ks_get_max_key_top, [in0: (i32, i32)], [out0]);
exec_local!(x_ks_get_max_key_tick, ks_get_max_key_tick, [in0: (i32, i32)], [out0]);
exec_local!(x_w_repeat_with_keys_tick, w_repeat_with_keys_tick, [in0: i32, in1: (i32, i32)], [out0]);
exec_local!(x_sl_batch_snap_state, sl_batch_snap_state, [in0: i32], [out0]);
exec_local!(x_sl_keyed, sl_keyed, [in0: (i32, i32)], [out0, out1]);
exec_local!(x_sl_bounded_value_batch, sl_bounded_value_batch, [in0: (i32, i32)], [out0]);
exec_local!(x_sl_state_null, sl_state_null, [in0: i32], [out0]);
exec_local!(x_at_counter, at_counter, [in0: i32, in1: i32], [out0, out1]);
exec_local!(x_at_keyed_counter, at_keyed_counter, [in0: (i32, i32), in1: (i32, i32)], [out0, out1]);
exec_local!(x_at_counter_nonatomic, at_counter_nonatomic, [in0: i32, in1: i32], [out0, out1]);
exec_local!(x_q_join_responses, q_join_responses, [in0: (i32, i32), in1: (i32, i32)], [out0]);
exec_local!(x_q_collect_11, q_collect_11, [in0: (i32, Result<i32, i32>)], [out0, out1]);
exec_local!(x_q_collect_22, q_collect_22, [in0: (i32, Result<i32, i32>)], [out0, out1]);
exec_local!(x_q_collect_23, q_collect_23, [in0: (i32, Result<i32, i32>)], [out0, out1]);
exec_local!(x_q_collect_33, q_collect_33, [in0: (i32, Result<i32, i32>)], [out0, out1]);
exec_local!(x_q_collect_13, q_collect_13, [in0: (i32, Result<i32, i32>)], [out0, out1]);
exec_local!(x_q_resp_22, q_resp_22, [in0: (i32, Result<i32, i32>)], [out0, out1]);
exec_local!(x_q_resp_23, q_resp_23, [in0: (i32, Result<i32, i32>)], [out0, out1]);
exec_local!(x_q_resp_13, q_resp_13, [in0: (i32, Result<i32, i32>)], [out0, out1]);
exec_local!(x_q_unord_23, q_unord_23, [in0: (i32, Result<i32, i32>)], [out0, out1]);

// composer-generated flows (names cmp_00.., table COMPOSED)
include!(concat!(env!("OUT_DIR"), "/composed_glue.rs"));
