//! E4 generated code + glue (see Cargo.toml).
pub mod genmods {
    include!(concat!(env!("OUT_DIR"), "/genmods.rs"));
}
pub mod glue;
pub mod io;
pub mod netglue;
pub mod val;
