//! E4 generated code + glue (see Cargo.toml).
pub mod genmods {
    include!(concat!(env!("OUT_DIR"), "/genmods.rs"));
}
pub mod glue;
pub use simio::io;
pub mod netglue;
pub use simio::val;
