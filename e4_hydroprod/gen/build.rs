//! Runs the *production* Hydro compiler (`generate_embedded`) on every corpus flow and writes one
//! Rust module per entry into OUT_DIR, plus `genmods.rs` which declares them all.
use hydro_lang::location::Location;

/// number of composer-generated flows per build
const N_COMPOSED: usize = 32;

fn main() {
    println!("cargo::rerun-if-changed=build.rs");
    let out_dir = std::env::var("OUT_DIR").unwrap();
    let mut names: Vec<String> = vec![];

    // single-location flows with k embedded stream inputs named in0..in{k-1}
    macro_rules! local {
        ($name:ident, $path:path, 1) => {{
            let mut flow = hydro_lang::compile::builder::FlowBuilder::new();
            let process = flow.process::<()>();
            $path(process.embedded_input("in0"));
            emit(&out_dir, &mut names, stringify!($name), flow.with_process(&process, stringify!($name)).generate_embedded("e4_flows"));
        }};
        ($name:ident, $path:path, 2) => {{
            let mut flow = hydro_lang::compile::builder::FlowBuilder::new();
            let process = flow.process::<()>();
            $path(process.embedded_input("in0"), process.embedded_input("in1"));
            emit(&out_dir, &mut names, stringify!($name), flow.with_process(&process, stringify!($name)).generate_embedded("e4_flows"));
        }};
    }

    use e4_flows::c30;
    local!(t_fold, c30::t_fold, 1);
    local!(t_reduce, c30::t_reduce, 1);
    local!(t_count, c30::t_count, 1);
    local!(t_max, c30::t_max, 1);
    local!(t_min, c30::t_min, 1);
    local!(t_first, c30::t_first, 1);
    local!(t_last, c30::t_last, 1);
    local!(t_limit, c30::t_limit, 1);
    local!(t_sort, c30::t_sort, 1);
    local!(t_enumerate, c30::t_enumerate, 1);
    local!(t_unique, c30::t_unique, 1);
    local!(t_scan, c30::t_scan, 1);
    local!(t_collect_vec, c30::t_collect_vec, 1);
    local!(t_cross_singleton, c30::t_cross_singleton, 1);
    local!(t_filter_if, c30::t_filter_if, 2);
    local!(t_join, c30::t_join, 2);
    local!(t_anti_join, c30::t_anti_join, 2);
    local!(t_filter_not_in, c30::t_filter_not_in, 2);
    local!(t_cross_product, c30::t_cross_product, 2);
    local!(t_chain, c30::t_chain, 2);
    local!(t_keyed_fold, c30::t_keyed_fold, 1);
    local!(t_keyed_reduce, c30::t_keyed_reduce, 1);
    local!(t_defer, c30::t_defer, 1);
    local!(t_defer2, c30::t_defer2, 1);
    local!(t_defer_chain, c30::t_defer_chain, 1);
    local!(t_defer_diff, c30::t_defer_diff, 1);
    local!(t_cycle_sum, c30::t_cycle_sum, 1);
    local!(t_cycle_stream, c30::t_cycle_stream, 1);
    local!(t_cycle_max, c30::t_cycle_max, 1);
    local!(t_across_count, c30::t_across_count, 1);
    local!(t_across_fold, c30::t_across_fold, 1);
    local!(t_noorder_count, c30::t_noorder_count, 1);
    local!(t_clone_into_tick, c30::t_clone_into_tick, 1);
    local!(t_clone_into_tick_opt, c30::t_clone_into_tick_opt, 1);


    use e4_flows::c28;
    local!(s_map_filter, c28::s_map_filter, 1);
    local!(s_enumerate, c28::s_enumerate, 1);
    local!(s_scan, c28::s_scan, 1);
    local!(s_unique, c28::s_unique, 1);
    local!(s_limit, c28::s_limit, 1);
    local!(s_partition, c28::s_partition, 1);
    local!(s_join_static, c28::s_join_static, 1);
    local!(s_anti_join_static, c28::s_anti_join_static, 1);
    local!(s_filter_not_in_static, c28::s_filter_not_in_static, 1);
    local!(s_cross_singleton_static, c28::s_cross_singleton_static, 1);
    local!(s_threshold, c28::s_threshold, 1);
    local!(s_join, c28::s_join, 2);
    local!(s_cross_product, c28::s_cross_product, 2);
    local!(s_merge, c28::s_merge, 2);
    local!(s_tee, c28::s_tee, 1);
    local!(s_self_join, c28::s_self_join, 1);
    local!(s_keyed_first, c28::s_keyed_first, 1);
    local!(s_fold, c28::s_fold, 1);
    local!(s_reduce, c28::s_reduce, 1);
    local!(s_count, c28::s_count, 1);
    local!(s_max, c28::s_max, 1);
    local!(s_min, c28::s_min, 1);
    local!(s_first, c28::s_first, 1);
    local!(s_last, c28::s_last, 1);
    local!(s_collect_vec, c28::s_collect_vec, 1);
    local!(s_join_sum, c28::s_join_sum, 2);
    local!(s_unique_count, c28::s_unique_count, 1);
    local!(s_cross_count, c28::s_cross_count, 2);
    local!(s_keyed_fold, c28::s_keyed_fold, 1);
    local!(s_keyed_reduce, c28::s_keyed_reduce, 1);
    local!(s_value_counts, c28::s_value_counts, 1);
    local!(s_key_count, c28::s_key_count, 1);
    local!(s_keyed_vec, c28::s_keyed_vec, 1);
    local!(s_keyed_scan, c28::s_keyed_scan, 1);
    local!(s_keyed_enum_limit, c28::s_keyed_enum_limit, 1);

    // ---- multi-location flows
    use e4_flows::net;
    {
        let mut flow = hydro_lang::compile::builder::FlowBuilder::new();
        let a = flow.process::<net::A>();
        let b = flow.process::<net::B>();
        net::n_hop(a.embedded_input("in0"), &b);
        emit(&out_dir, &mut names, "n_hop", flow.with_process(&a, "n_hop_a").with_process(&b, "n_hop_b").generate_embedded("e4_flows"));
    }
    {
        let mut flow = hydro_lang::compile::builder::FlowBuilder::new();
        let a = flow.process::<net::A>();
        let b = flow.process::<net::B>();
        net::n_lossy(a.embedded_input("in0"), &b);
        emit(&out_dir, &mut names, "n_lossy", flow.with_process(&a, "n_lossy_a").with_process(&b, "n_lossy_b").generate_embedded("e4_flows"));
    }
    {
        let mut flow = hydro_lang::compile::builder::FlowBuilder::new();
        let a = flow.process::<net::A>();
        let b = flow.process::<net::B>();
        net::n_hop_fold(a.embedded_input("in0"), &b);
        emit(&out_dir, &mut names, "n_hop_fold", flow.with_process(&a, "n_hop_fold_a").with_process(&b, "n_hop_fold_b").generate_embedded("e4_flows"));
    }
    {
        let mut flow = hydro_lang::compile::builder::FlowBuilder::new();
        let a = flow.process::<net::A>();
        let b = flow.process::<net::B>();
        net::n_roundtrip(a.embedded_input("in0"), &b);
        emit(&out_dir, &mut names, "n_roundtrip", flow.with_process(&a, "n_roundtrip_a").with_process(&b, "n_roundtrip_b").generate_embedded("e4_flows"));
    }
    {
        let mut flow = hydro_lang::compile::builder::FlowBuilder::new();
        let a = flow.process::<net::A>();
        let b = flow.process::<net::B>();
        let c = flow.process::<net::C>();
        net::n_fanin(a.embedded_input("in0"), b.embedded_input("in0"), &c);
        emit(&out_dir, &mut names, "n_fanin", flow.with_process(&a, "n_fanin_a").with_process(&b, "n_fanin_b").with_process(&c, "n_fanin_c").generate_embedded("e4_flows"));
    }
    {
        let mut flow = hydro_lang::compile::builder::FlowBuilder::new();
        let w = flow.cluster::<net::Workers>();
        let c = flow.process::<net::C>();
        net::n_m2o(w.embedded_input("in0"), &c);
        emit(&out_dir, &mut names, "n_m2o", flow.with_cluster(&w, "n_m2o_w").with_process(&c, "n_m2o_c").generate_embedded("e4_flows"));
    }
    {
        let mut flow = hydro_lang::compile::builder::FlowBuilder::new();
        let a = flow.process::<net::A>();
        let w = flow.cluster::<net::Workers>();
        net::n_o2m(a.embedded_input("in0"), &w);
        emit(&out_dir, &mut names, "n_o2m", flow.with_process(&a, "n_o2m_a").with_cluster(&w, "n_o2m_w").generate_embedded("e4_flows"));
    }

    use e4_flows::c32;
    local!(w_max_top, c32::w_max_top, 1);
    local!(w_min_top, c32::w_min_top, 1);
    local!(w_max_tick, c32::w_max_tick, 1);
    local!(w_min_tick, c32::w_min_tick, 1);
    local!(w_first_top, c32::w_first_top, 1);
    local!(w_last_top, c32::w_last_top, 1);
    local!(w_first_tick, c32::w_first_tick, 1);
    local!(w_last_tick, c32::w_last_tick, 1);
    local!(w_count_top, c32::w_count_top, 1);
    local!(w_count_tick, c32::w_count_tick, 1);
    local!(w_is_empty_tick, c32::w_is_empty_tick, 1);
    local!(w_weaken_ordering, c32::w_weaken_ordering, 1);
    local!(w_make_totally_ordered, c32::w_make_totally_ordered, 1);
    local!(w_weaken_retries, c32::w_weaken_retries, 1);
    local!(w_make_exactly_once, c32::w_make_exactly_once, 1);
    local!(k_weaken_ordering, c32::k_weaken_ordering, 1);
    local!(k_make_totally_ordered, c32::k_make_totally_ordered, 1);
    local!(k_weaken_retries, c32::k_weaken_retries, 1);
    local!(k_make_exactly_once, c32::k_make_exactly_once, 1);
    local!(k_value_counts_top, c32::k_value_counts_top, 1);
    local!(k_value_counts_tick, c32::k_value_counts_tick, 1);
    local!(ks_into_singleton_bv, c32::ks_into_singleton_bv, 1);
    local!(ks_into_singleton_unb, c32::ks_into_singleton_unb, 1);
    local!(ks_into_singleton_tick, c32::ks_into_singleton_tick, 1);
    local!(ks_get_max_key_top, c32::ks_get_max_key_top, 1);
    local!(ks_get_max_key_tick, c32::ks_get_max_key_tick, 1);
    local!(w_repeat_with_keys_tick, c32::w_repeat_with_keys_tick, 2);
    {
        let mut flow = hydro_lang::compile::builder::FlowBuilder::new();
        let a = flow.process::<net::A>();
        let b = flow.process::<net::B>();
        net::n_hop_count(a.embedded_input("in0"), &b);
        emit(&out_dir, &mut names, "n_hop_count", flow.with_process(&a, "n_hop_count_a").with_process(&b, "n_hop_count_b").generate_embedded("e4_flows"));
    }

    use e4_flows::sec;
    local!(sl_batch_snap_state, sec::sl_batch_snap_state, 1);
    local!(sl_keyed, sec::sl_keyed, 1);
    local!(sl_bounded_value_batch, sec::sl_bounded_value_batch, 1);
    local!(sl_state_null, sec::sl_state_null, 1);
    local!(at_counter, sec::at_counter, 2);
    local!(at_keyed_counter, sec::at_keyed_counter, 2);
    local!(at_counter_nonatomic, sec::at_counter_nonatomic, 2);
    local!(q_join_responses, sec::q_join_responses, 2);
    macro_rules! quorum {
        ($name:ident, $path:path, $min:expr, $max:expr) => {{
            let mut flow = hydro_lang::compile::builder::FlowBuilder::new();
            let process = flow.process::<()>();
            $path(process.embedded_input("in0"), $min, $max);
            emit(&out_dir, &mut names, stringify!($name), flow.with_process(&process, stringify!($name)).generate_embedded("e4_flows"));
        }};
    }
    quorum!(q_collect_11, sec::q_collect, 1, 1);
    quorum!(q_collect_22, sec::q_collect, 2, 2);
    quorum!(q_collect_23, sec::q_collect, 2, 3);
    quorum!(q_collect_33, sec::q_collect, 3, 3);
    quorum!(q_collect_13, sec::q_collect, 1, 3);
    quorum!(q_resp_22, sec::q_collect_with_response, 2, 2);
    quorum!(q_resp_23, sec::q_collect_with_response, 2, 3);
    quorum!(q_resp_13, sec::q_collect_with_response, 1, 3);
    quorum!(q_unord_23, sec::q_collect_unordered, 2, 3);

    // ---- seeded composer: N_COMPOSED extra flows chained from the operator table of
    // e4_flows::compose; the program bytes come from a fixed seed (E4_COMPOSER_SEED overrides it)
    println!("cargo::rerun-if-env-changed=E4_COMPOSER_SEED");
    let mut composed_glue = String::new();
    let mut composed_table = String::from("pub const COMPOSED: &[(&str, crate::glue::ExecFn, u8, &str)] = &[\n");
    {
        let seed: u64 = std::env::var("E4_COMPOSER_SEED").ok().and_then(|s| s.parse().ok()).unwrap_or(0xE4C0_5EED);
        let mut state = seed;
        let mut next = move || {
            state = state.wrapping_add(0x9E37_79B9_7F4A_7C15);
            let mut z = state;
            z = (z ^ (z >> 30)).wrapping_mul(0xBF58_476D_1CE4_E5B9);
            z = (z ^ (z >> 27)).wrapping_mul(0x94D0_49BB_1331_11EB);
            z ^ (z >> 31)
        };
        for i in 0..N_COMPOSED {
            let prog: Vec<u8> = (0..12).map(|_| (next() >> 24) as u8).collect();
            let name = format!("cmp_{i:02}");
            let mut flow = hydro_lang::compile::builder::FlowBuilder::new();
            let process = flow.process::<()>();
            let (kind, desc) = e4_flows::compose::composed(process.embedded_input("in0"), &prog);
            emit(&out_dir, &mut names, &name, flow.with_process(&process, name.clone()).generate_embedded("e4_flows"));
            composed_glue.push_str(&format!("exec_local!(x_{name}, {name}, [in0: i32], [out0]);\n"));
            let k = match kind {
                e4_flows::compose::Kind::Seq => 0,
                e4_flows::compose::Kind::Bag => 1,
                e4_flows::compose::Kind::SnapOne => 2,
                e4_flows::compose::Kind::SnapOpt => 3,
            };
            composed_table.push_str(&format!("    (\"{name}\", x_{name}, {k}, \"{desc}\"),\n"));
        }
    }
    composed_table.push_str("];\n");
    std::fs::write(format!("{out_dir}/composed_glue.rs"), format!("{composed_glue}{composed_table}")).unwrap();

    use e4_flows::asyncf;
    local!(ta_chain_async, asyncf::ta_chain_async, 2);
    local!(ta_chain_async_second, asyncf::ta_chain_async_second, 2);
    local!(ta_async_scan, asyncf::ta_async_scan, 1);
    local!(s_async_scan, asyncf::s_async_scan, 1);
    local!(ta_resolve_blocking, asyncf::ta_resolve_blocking, 1);

    let mut mods = String::new();
    for n in &names {
        mods.push_str(&format!(
            "#[allow(unused_imports, unused_qualifications, missing_docs, non_snake_case, unused, clippy::all)]\npub mod {n} {{ include!(concat!(env!(\"OUT_DIR\"), \"/{n}.rs\")); }}\n"
        ));
    }
    std::fs::write(format!("{out_dir}/genmods.rs"), mods).unwrap();
}

fn emit(out_dir: &str, names: &mut Vec<String>, name: &str, code: syn::File) {
    std::fs::write(format!("{out_dir}/{name}.rs"), prettyplease::unparse(&code)).unwrap();
    names.push(name.to_owned());
}
