//! Runs the *production* Hydro compiler (`generate_embedded`) on every matrix-composer entry
//! (`e4_flows::matrix`, generated from `matrixdef`) and writes one Rust module per entry into
//! OUT_DIR, plus `genmods.rs` (module declarations) and `matrix_glue.rs` (glue + table).
use hydro_lang::location::Location;

fn main() {
    println!("cargo::rerun-if-changed={}/../genm/build.rs", std::env::var("CARGO_MANIFEST_DIR").unwrap());
    let out_dir = std::env::var("OUT_DIR").unwrap();
    let seed = e4_flows::matrix::MATRIX_SEED;
    // this package is one of `N_SHARDS` identical packages `e4_genm<k>` sharing this build script:
    // shard k compiles the entries with idx % N_SHARDS == k
    let pkg = std::env::var("CARGO_PKG_NAME").unwrap();
    let shard: usize = pkg.trim_start_matches("e4_genm").parse().expect("package name e4_genm<k>");
    let entries: Vec<_> = matrixdef::entries(seed).into_iter().filter(|e| e.idx % matrixdef::N_SHARDS == shard).collect();
    let mut mods = String::new();
    let mut glue = String::new();
    let mut table = format!("pub const MATRIX_SEED: u64 = {seed};\npub const MATRIX: &[(&str, simio::ExecFn)] = &[\n");
    for e in &entries {
        let mut flow = hydro_lang::compile::builder::FlowBuilder::new();
        let process = flow.process::<()>();
        e4_flows::matrix::build(e.idx, process.embedded_input("in0"));
        let code = flow.with_process(&process, e.name.clone()).generate_embedded("e4_flows");
        std::fs::write(format!("{out_dir}/{}.rs", e.name), prettyplease::unparse(&code)).unwrap();
        mods.push_str(&format!(
            "#[allow(unused_imports, unused_qualifications, missing_docs, non_snake_case, unused, clippy::all)]\npub mod {n} {{ include!(concat!(env!(\"OUT_DIR\"), \"/{n}.rs\")); }}\n",
            n = e.name
        ));
        let outs = if e.ctx.has_raw_out() { "[out0, out1]" } else { "[out0]" };
        glue.push_str(&format!("exec_local!(x_{n}, {n}, [in0: i32], {outs});\n", n = e.name));
        table.push_str(&format!("    (\"{n}\", x_{n}),\n", n = e.name));
    }
    table.push_str("];\n");
    // ---- type-driven C33 table: (producer, transformer) pairs; the flow constructor returns the
    // bound claimed by the observed collection's type, recorded here next to the generated code
    table.push_str("pub const T33: &[(&str, simio::ExecFn, &str)] = &[\n");
    for e in matrixdef::c33::entries().into_iter().filter(|e| e.idx % matrixdef::N_SHARDS == shard) {
        let mut flow = hydro_lang::compile::builder::FlowBuilder::new();
        let process = flow.process::<()>();
        let claim = e4_flows::t33::build(e.idx, process.embedded_input("in0"));
        let code = flow.with_process(&process, e.name.clone()).generate_embedded("e4_flows");
        std::fs::write(format!("{out_dir}/{}.rs", e.name), prettyplease::unparse(&code)).unwrap();
        mods.push_str(&format!(
            "#[allow(unused_imports, unused_qualifications, missing_docs, non_snake_case, unused, clippy::all)]\npub mod {n} {{ include!(concat!(env!(\"OUT_DIR\"), \"/{n}.rs\")); }}\n",
            n = e.name
        ));
        glue.push_str(&format!("exec_local!(x_{n}, {n}, [in0: i32], [out0]);\n", n = e.name));
        table.push_str(&format!("    (\"{n}\", x_{n}, \"{claim}\"),\n", n = e.name));
    }
    table.push_str("];\n");
    std::fs::write(format!("{out_dir}/genmods.rs"), mods).unwrap();
    std::fs::write(format!("{out_dir}/matrix_glue.rs"), format!("{glue}{table}")).unwrap();
}
