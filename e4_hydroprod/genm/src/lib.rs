//! E4 matrix-composer entries: generated code + glue (see Cargo.toml).
pub mod genmods {
    include!(concat!(env!("OUT_DIR"), "/genmods.rs"));
}
pub mod glue {
    use simio::exec_local;
    include!(concat!(env!("OUT_DIR"), "/matrix_glue.rs"));
}
