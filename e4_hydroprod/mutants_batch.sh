#!/bin/bash
# Sensitivity batch for E4 (run *through* tools/mutant_run.sh so that only scratch copies are
# touched):
#   tools/mutant_run.sh e4-batch - e4_hydroprod/mutants_batch.sh <result-file> <patch>...
# cwd = scratch copy of /verif; ../repo = scratch git worktree of /repo (unpatched, "-").
# For every patch (path relative to the scratch verif dir): apply it to the scratch worktree,
# rebuild the engine against it (warm target dir inside the scratch tree), run the quick tier of
# all five E4 properties, record exit codes + violation classes, revert the patch.
set -u
OUT="$1"; shift
HERE="$(pwd)"; REPO="$(dirname "$HERE")/repo"
PROPS="${PROPS:-C28 C29 C30 C32 C33}"
: > "$OUT"
echo "== baseline (no patch)" | tee -a "$OUT"
for id in $PROPS; do
  e4_hydroprod/check.sh "$id" --tier quick > "$HERE/e4_mut.log" 2>&1; rc=$?
  echo "baseline $id exit=$rc $(grep -E '^done' "$HERE/e4_mut.log" | sed -E 's/.*(runs=[0-9]+).*(wall=[0-9.]+s).*/\1 \2/')" | tee -a "$OUT"
done
for p in "$@"; do
  echo "== $p" | tee -a "$OUT"
  if ! (cd "$REPO" && git apply "$HERE/$p"); then echo "PATCH-DOES-NOT-APPLY $p" | tee -a "$OUT"; continue; fi
  for id in $PROPS; do
    e4_hydroprod/check.sh "$id" --tier quick > "$HERE/e4_mut.log" 2>&1; rc=$?
    classes="$(grep -E '^violation class=' "$HERE/e4_mut.log" | sed -E 's/^violation class=([^ ]+) run=([0-9]+).*/\1@run\2/' | tr '\n' ' ')"
    harness="$(grep -E '^HARNESS' "$HERE/e4_mut.log" | head -2 | cut -c1-300 | tr '\n' ' ')"
    echo "$p $id exit=$rc $(grep -E '^done' "$HERE/e4_mut.log" | sed -E 's/.*(runs=[0-9]+).*(wall=[0-9.]+s).*/\1 \2/') $classes $harness" | tee -a "$OUT"
    if [ $rc -eq 2 ]; then tail -15 "$HERE/e4_mut.log" | cut -c1-400 | tee -a "$OUT"; fi
  done
  (cd "$REPO" && git apply -R "$HERE/$p") || { echo "REVERT-FAILED $p" | tee -a "$OUT"; exit 2; }
done
cp "$OUT" "${E4_RESULT_COPY:-/var/tmp/verif-scratch-e4-results.txt}" 2>/dev/null
exit 0
