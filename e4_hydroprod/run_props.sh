#!/bin/bash
# e4_hydroprod/run_props.sh <ID>... : build once, run the quick tier of several properties
# (used by the sensitivity protocol: one mutant build, all checks).
cd "$(dirname "$0")"
rc=0
for id in "$@"; do
  ./check.sh "$id" --tier quick ${E4_EXTRA_ARGS:-}; r=$?
  echo "RESULT property=$id exit=$r"
  [ $r -ne 0 ] && rc=$r
done
exit $rc
