//! `matrixdef` — the single source of truth for the *matrix composer* of E4.
//!
//! The composer emits corpus flows systematically instead of by hand: every entry is a point of
//!
//!   operator family  x  location kind / batch source  x  input typing  x  pre-stage  x  tee
//!
//! * operator family: ~45 stream / keyed / aggregate operators with *adversarial* closures where the
//!   API allows arbitrary ones (scan that returns `None` and would return `Some` again, ordered
//!   folds, non-monotone maps);
//! * location kind / batch source (`Ctx`): top level, top level with the input tee'd, inside an
//!   atomic region (`atomic() .. end_atomic()`), a tick batch, a tee'd tick batch (push side), a
//!   value that went through a `Tick::cycle`, `cycle` + `defer_tick`, `defer_tick`, `across_ticks`
//!   (`all_ticks_atomic`), and bounded top-level (static `source_iter`) collections;
//! * input typing (`Typ`): TotalOrder/NoOrder x ExactlyOnce/AtLeastOnce through the *safe* casts
//!   `weaken_ordering` / `weaken_retries`;
//! * pre-stage: an optional streaming operator in front of the operator under test.
//!
//! This crate has no Hydro dependency. It is used by
//!   * `flows/build.rs`   — writes `flows/src/matrix.rs` (the Hydro source of every entry),
//!   * `genm/build.rs`    — compiles every entry with the production code generator and writes glue,
//!   * the runner         — plain-Rust specs (`apply`) and the metadata to lift them to a context.
//!
//! The covering part is deterministic: every admissible (operator, context) pair with the strict
//! typing, every admissible (operator, weak typing) pair in two contexts; on top of that a seeded
//! draw (`E4_MATRIX_SEED`, default fixed) adds entries with random context / typing / pre-stage.

pub mod c33;
pub mod spec;

#[derive(Clone, Copy, Debug, PartialEq, Eq, PartialOrd, Ord)]
pub enum Ctx {
    Top,
    TopClone,
    Atomic,
    TickBatch,
    TickClone,
    TickCycle,
    TickCycleDefer,
    TickDefer,
    AcrossTicks,
    TopBounded,
}
pub const ALL_CTX: &[Ctx] = &[
    Ctx::Top,
    Ctx::TopClone,
    Ctx::Atomic,
    Ctx::TickBatch,
    Ctx::TickClone,
    Ctx::TickCycle,
    Ctx::TickCycleDefer,
    Ctx::TickDefer,
    Ctx::AcrossTicks,
    Ctx::TopBounded,
];
impl Ctx {
    pub fn tag(self) -> &'static str {
        match self {
            Ctx::Top => "top",
            Ctx::TopClone => "topclone",
            Ctx::Atomic => "atomic",
            Ctx::TickBatch => "tick",
            Ctx::TickClone => "tickclone",
            Ctx::TickCycle => "cycle",
            Ctx::TickCycleDefer => "cycledefer",
            Ctx::TickDefer => "defer",
            Ctx::AcrossTicks => "across",
            Ctx::TopBounded => "topbounded",
        }
    }
    /// the stream handed to the operator is `Bounded`
    pub fn bounded(self) -> bool {
        matches!(self, Ctx::TickBatch | Ctx::TickClone | Ctx::TickCycle | Ctx::TickCycleDefer | Ctx::TickDefer | Ctx::TopBounded)
    }
    pub fn in_tick(self) -> bool {
        matches!(self, Ctx::TickBatch | Ctx::TickClone | Ctx::TickCycle | Ctx::TickCycleDefer | Ctx::TickDefer)
    }
    /// ticks by which the operator's input lags behind the released batch
    pub fn shift(self) -> usize {
        match self {
            Ctx::TickCycle | Ctx::TickDefer => 1,
            Ctx::TickCycleDefer => 2,
            _ => 0,
        }
    }
    /// a second output `out1` carries the raw (tee'd) source
    pub fn has_raw_out(self) -> bool {
        matches!(self, Ctx::TopClone | Ctx::TickClone)
    }
    pub fn lift(self) -> Lift {
        match self {
            Ctx::Top | Ctx::TopClone | Ctx::Atomic => Lift::Final,
            Ctx::TopBounded => Lift::Static,
            Ctx::AcrossTicks => Lift::Cumulative,
            _ => Lift::PerTick,
        }
    }
}

/// How the plain-Rust list spec of an operator is lifted to what a context must produce.
#[derive(Clone, Copy, Debug, PartialEq, Eq)]
pub enum Lift {
    /// unbounded input over all ticks: accumulated stream output == op(whole input); last snapshot
    /// == op(whole input); equal across schedules
    Final,
    /// like `Final`, but the operator's input is the static collection `STATIC_INPUT`
    Static,
    /// output of tick t == op(batch released at tick t - shift)
    PerTick,
    /// `across_ticks`: stream output of tick t == what op(prefix_t) adds to op(prefix_{t-1});
    /// snapshot of tick t == op(prefix_t)
    Cumulative,
}

/// the bounded top-level collection of `Ctx::TopBounded`
pub const STATIC_INPUT: &[i64] = &[3, 1, 3, 0, 2, 1, 4];

#[derive(Clone, Copy, Debug, PartialEq, Eq, PartialOrd, Ord)]
pub enum Typ {
    ToEo,
    NoEo,
    ToAlo,
    NoAlo,
}
pub const ALL_TYP: &[Typ] = &[Typ::ToEo, Typ::NoEo, Typ::ToAlo, Typ::NoAlo];
impl Typ {
    pub fn tag(self) -> &'static str {
        match self {
            Typ::ToEo => "toeo",
            Typ::NoEo => "noeo",
            Typ::ToAlo => "toalo",
            Typ::NoAlo => "noalo",
        }
    }
    pub fn ordered(self) -> bool {
        matches!(self, Typ::ToEo | Typ::ToAlo)
    }
    pub fn exactly_once(self) -> bool {
        matches!(self, Typ::ToEo | Typ::NoEo)
    }
    fn cast(self) -> &'static str {
        match self {
            Typ::ToEo => "",
            Typ::NoEo => ".weaken_ordering::<NoOrder>()",
            Typ::ToAlo => ".weaken_retries::<AtLeastOnce>()",
            Typ::NoAlo => ".weaken_ordering::<NoOrder>().weaken_retries::<AtLeastOnce>()",
        }
    }
}

/// Shape of an operator's result.
#[derive(Clone, Copy, Debug, PartialEq, Eq)]
pub enum Kind {
    /// stream of `i32`
    S,
    /// stream of `(i32, i32)`
    P,
    /// singleton of the given item type
    One(&'static str),
    /// optional `i32`
    Opt,
    /// keyed singleton whose values may change: `(i32, <ty>)`
    KS(&'static str),
    /// keyed singleton with bounded values (`first()`): `(i32, i32)`
    KSB,
}

#[derive(Clone, Copy, Debug, PartialEq, Eq)]
pub enum OutOrd {
    Same,
    No,
    Total,
}

const T_ALL: &[Typ] = &[Typ::ToEo, Typ::NoEo, Typ::ToAlo, Typ::NoAlo];
const T_STRICT: &[Typ] = &[Typ::ToEo];
const T_EO: &[Typ] = &[Typ::ToEo, Typ::NoEo];
const T_TO: &[Typ] = &[Typ::ToEo, Typ::ToAlo];

pub struct OpDef {
    pub name: &'static str,
    /// Hydro source; `$S` is the input stream expression (bound to a variable, may be used once;
    /// templates that need it twice bind it themselves)
    pub tmpl: &'static str,
    pub kind: Kind,
    pub typs: &'static [Typ],
    pub needs_bounded: bool,
    pub needs_unbounded: bool,
    /// only exists on `Stream<_, Tick<_>, Bounded>`
    pub tick_only: bool,
    pub out_ord: OutOrd,
    /// the result is `ExactlyOnce` whatever the input was
    pub out_eo: bool,
    /// compare as a multiset even if the type says `TotalOrder` (several build-side matches)
    pub force_bag: bool,
    /// usable as a pre-stage (stream of i32 -> stream of i32, streaming, order/typing preserving)
    pub pre: bool,
    /// a library-internal `assume_*_trusted` call site or an operator that consumes a weak type
    /// (member of the C32 scenario list whatever the typing)
    pub trusted_site: bool,
    /// keyed fold on the DFIR level (not supported on top-level bounded collections)
    pub keyed_fold: bool,
}

macro_rules! op {
    ($name:expr, $kind:expr, $typs:expr, $tmpl:expr) => {
        OpDef {
            name: $name,
            tmpl: $tmpl,
            kind: $kind,
            typs: $typs,
            needs_bounded: false,
            needs_unbounded: false,
            tick_only: false,
            out_ord: OutOrd::Same,
            out_eo: false,
            force_bag: false,
            pre: false,
            trusted_site: false,
            keyed_fold: false,
        }
    };
}

const KEYED: &str = ".map(q!(|x| (x.rem_euclid(3), x))).into_keyed()";

pub fn ops() -> Vec<OpDef> {
    vec![
        OpDef { pre: true, ..op!("map", Kind::S, T_ALL, "$S.map(q!(|x| x.wrapping_mul(2).wrapping_add(1)))") },
        OpDef { pre: true, ..op!("filter", Kind::S, T_ALL, "$S.filter(q!(|x| *x % 2 == 0))") },
        OpDef { pre: true, ..op!("flat_map", Kind::S, T_ALL, "$S.flat_map_ordered(q!(|x| vec![x, x.wrapping_add(10)]))") },
        OpDef { pre: true, ..op!("filter_map", Kind::S, T_ALL, "$S.filter_map(q!(|x| if x % 3 == 0 { None } else { Some(x.wrapping_add(1)) }))") },
        OpDef { pre: true, out_eo: true, trusted_site: true, ..op!("unique", Kind::S, T_ALL, "$S.unique()") },
        op!("enumerate", Kind::S, T_STRICT, "$S.enumerate().map(q!(|(i, x)| x.wrapping_add((i as i32).wrapping_mul(100))))"),
        // terminates on a 0 element; a later element would make the closure return `Some` again
        op!(
            "scan_resurrect",
            Kind::S,
            T_STRICT,
            "$S.scan(q!(|| 0i32), q!(|acc, x| { *acc = acc.wrapping_add(x); if x == 0 { None } else { Some(*acc) } }))"
        ),
        op!("scan_running", Kind::S, T_STRICT, "$S.scan(q!(|| 0i32), q!(|acc, x| { *acc = acc.wrapping_mul(3).wrapping_add(x); Some(*acc) }))"),
        op!("limit3", Kind::S, T_STRICT, "$S.limit(q!(3))"),
        OpDef { needs_bounded: true, out_ord: OutOrd::Total, ..op!("sort", Kind::S, T_ALL, "$S.sort()") },
        OpDef { needs_bounded: true, ..op!("chain_self", Kind::S, T_ALL, "{ let a = $S; a.clone().map(q!(|x| x.wrapping_add(1000))).chain(a) }") },
        OpDef {
            needs_bounded: true,
            ..op!("xs_count", Kind::P, T_EO, "{ let a = $S; let n = a.clone().count(); a.cross_singleton(n).map(q!(|(x, n)| (x, n as i32))) }")
        },
        op!("xs_static", Kind::P, T_ALL, "{ let a = $S; let c = a.location().singleton(q!(7i32)); a.cross_singleton(c) }"),
        OpDef {
            out_ord: OutOrd::No,
            force_bag: true,
            ..op!(
                "join_self",
                Kind::S,
                T_ALL,
                "{ let a = $S; let l = a.clone().map(q!(|x| (x.rem_euclid(3), x))); let r = a.map(q!(|x| (x.rem_euclid(3), x.wrapping_mul(2)))); l.join(r).map(q!(|(_, (a, b))| a.wrapping_mul(7).wrapping_add(b))) }"
            )
        },
        OpDef {
            out_ord: OutOrd::No,
            force_bag: true,
            ..op!(
                "cross_self",
                Kind::S,
                T_ALL,
                "{ let a = $S; let r = a.clone().filter(q!(|x| *x % 2 != 0)); a.cross_product(r).map(q!(|(a, b)| a.wrapping_mul(7).wrapping_add(b))) }"
            )
        },
        OpDef {
            needs_bounded: true,
            trusted_site: true,
            ..op!(
                "nested_loop",
                Kind::S,
                T_ALL,
                "{ let a = $S; let r = a.clone().filter(q!(|x| *x % 2 != 0)); a.cross_product_nested_loop(r).map(q!(|(a, b)| a.wrapping_mul(7).wrapping_add(b))) }"
            )
        },
        op!(
            "anti_join_static",
            Kind::P,
            T_ALL,
            "{ let a = $S; let banned = a.location().source_iter(q!(vec![1i32])); a.map(q!(|x| (x.rem_euclid(3), x))).anti_join(banned) }"
        ),
        op!("filter_not_in_static", Kind::S, T_EO, "{ let a = $S; let banned = a.location().source_iter(q!(vec![1i32, 4])); a.filter_not_in(banned) }"),
        op!("partition_even", Kind::S, T_STRICT, "{ let (even, odd) = $S.partition(q!(|x| *x % 2 == 0)); odd.for_each(q!(|_| {})); even }"),
        OpDef {
            needs_unbounded: true,
            out_ord: OutOrd::No,
            ..op!("merge_self", Kind::S, T_ALL, "{ let a = $S; let t = a.clone().map(q!(|x| x.wrapping_add(500))); a.merge_unordered(t) }")
        },
        // ---- keyed
        OpDef { keyed_fold: true, ..op!("k_fold_ord", Kind::KS("i32"), T_STRICT, "$S$KEYED.fold($ORDFOLD)") },
        OpDef { keyed_fold: true, trusted_site: true, ..op!("k_fold_idem", Kind::KS("i32"), T_ALL, "$S$KEYED.fold($IDEMMAX)") },
        OpDef { keyed_fold: true, ..op!("k_reduce_ord", Kind::KS("i32"), T_STRICT, "$S$KEYED.reduce(q!(|acc, x| *acc = acc.wrapping_mul(3).wrapping_add(x)))") },
        OpDef { keyed_fold: true, ..op!("k_vec", Kind::KS("Vec<i32>"), T_STRICT, "$S$KEYED.fold(q!(|| Vec::<i32>::new()), q!(|acc, x| acc.push(x)))") },
        OpDef {
            keyed_fold: true,
            ..op!(
                "k_scan",
                Kind::KS("Vec<i32>"),
                T_STRICT,
                "$S$KEYED.scan(q!(|| 0i32), q!(|acc, x| { *acc = acc.wrapping_mul(3).wrapping_add(x); Some(*acc) })).fold(q!(|| Vec::<i32>::new()), q!(|acc, x| acc.push(x)))"
            )
        },
        op!("k_first", Kind::KSB, T_STRICT, "$S$KEYED.first()"),
        OpDef { keyed_fold: true, trusted_site: true, ..op!("k_value_counts", Kind::KS("usize"), T_EO, "$S$KEYED.value_counts()") },
        OpDef {
            tick_only: true,
            needs_bounded: true,
            out_ord: OutOrd::No,
            out_eo: true,
            trusted_site: true,
            ..op!("k_keys", Kind::S, T_ALL, "$S.map(q!(|x| (x.rem_euclid(3), x))).keys()")
        },
        OpDef { out_ord: OutOrd::No, out_eo: true, trusted_site: true, ..op!("k_unique", Kind::P, T_ALL, "$S$KEYED.unique().entries()") },
        OpDef {
            needs_bounded: true,
            out_ord: OutOrd::No,
            trusted_site: true,
            ..op!(
                "repeat_with_keys",
                Kind::P,
                T_STRICT,
                "{ let a = $S; let ks = a.clone().map(q!(|x| (x.rem_euclid(3), x))).into_keyed().first(); a.repeat_with_keys(ks).entries() }"
            )
        },
        // ---- aggregates
        op!("fold_ord", Kind::One("i32"), T_STRICT, "$S.fold($ORDFOLD)"),
        op!(
            "fold_comm",
            Kind::One("i32"),
            T_EO,
            "$S.fold(q!(|| 0i32), q!(|acc, x| *acc = acc.wrapping_add(x.wrapping_mul(x)), commutative = manual_proof!(/** sum of squares */)))"
        ),
        OpDef { trusted_site: true, ..op!("fold_idem", Kind::One("i32"), T_ALL, "$S.fold($IDEMMAX)") },
        op!("reduce_ord", Kind::Opt, T_STRICT, "$S.reduce(q!(|acc, x| *acc = acc.wrapping_mul(3).wrapping_add(x)))"),
        OpDef { trusted_site: true, ..op!("count", Kind::One("usize"), T_EO, "$S.count()") },
        OpDef { trusted_site: true, ..op!("max", Kind::Opt, T_ALL, "$S.max()") },
        OpDef { trusted_site: true, ..op!("min", Kind::Opt, T_ALL, "$S.min()") },
        OpDef { trusted_site: true, ..op!("first", Kind::Opt, T_TO, "$S.first()") },
        OpDef { trusted_site: true, ..op!("last", Kind::Opt, T_TO, "$S.last()") },
        op!("collect_vec", Kind::One("Vec<i32>"), T_STRICT, "$S.collect_vec()"),
        OpDef { needs_bounded: true, trusted_site: true, ..op!("is_empty", Kind::One("bool"), T_ALL, "$S.is_empty()") },
    ]
}

fn expand(tmpl: &str, s: &str) -> String {
    tmpl.replace("$KEYED", KEYED)
        .replace("$ORDFOLD", "q!(|| 0i32), q!(|acc, x| *acc = acc.wrapping_mul(3).wrapping_add(x))")
        .replace(
            "$IDEMMAX",
            "q!(|| i32::MIN), q!(|acc, x| { if x > *acc { *acc = x; } }, commutative = manual_proof!(/** max */), idempotent = manual_proof!(/** max */))",
        )
        .replace("$S", s)
}

pub fn admissible(op: &OpDef, ctx: Ctx, typ: Typ) -> bool {
    if !op.typs.contains(&typ) {
        return false;
    }
    if op.needs_bounded && !ctx.bounded() {
        return false;
    }
    if op.needs_unbounded && ctx.bounded() {
        return false;
    }
    if op.tick_only && !ctx.in_tick() {
        return false;
    }
    if ctx == Ctx::TopBounded && op.keyed_fold {
        return false; // "Fold keyed on a top-level bounded collection is not yet supported"
    }
    true
}

#[derive(Clone, Debug)]
pub struct MEntry {
    pub idx: usize,
    pub name: String,
    pub op: &'static str,
    pub pre: Option<&'static str>,
    pub ctx: Ctx,
    pub typ: Typ,
    /// drawn by the seed (not part of the covering set)
    pub random: bool,
}

struct Rng(u64);
impl Rng {
    fn next(&mut self) -> u64 {
        self.0 = self.0.wrapping_add(0x9E37_79B9_7F4A_7C15);
        let mut z = self.0;
        z = (z ^ (z >> 30)).wrapping_mul(0xBF58_476D_1CE4_E5B9);
        z = (z ^ (z >> 27)).wrapping_mul(0x94D0_49BB_1331_11EB);
        z ^ (z >> 31)
    }
    fn below(&mut self, n: usize) -> usize {
        (self.next() % n as u64) as usize
    }
}

pub const DEFAULT_SEED: u64 = 0xE4_4A7_21C5;
pub const N_RANDOM: usize = 32;
/// the generated code is compiled in this many crates in parallel (`genm0..`)
pub const N_SHARDS: usize = 6;

pub fn seed_from_env() -> u64 {
    std::env::var("E4_MATRIX_SEED").ok().and_then(|s| s.parse().ok()).unwrap_or(DEFAULT_SEED)
}

/// The corpus: covering set + seeded extras.
pub fn entries(seed: u64) -> Vec<MEntry> {
    let ops = ops();
    let mut rng = Rng(seed);
    let mut out: Vec<MEntry> = vec![];
    let mut push = |out: &mut Vec<MEntry>, op: &OpDef, pre: Option<&'static str>, ctx: Ctx, typ: Typ, random: bool| {
        if out.iter().any(|e| e.op == op.name && e.pre == pre && e.ctx == ctx && e.typ == typ) {
            return;
        }
        let idx = out.len();
        let name = format!("m{idx:03}_{}{}_{}_{}", pre.map(|p| format!("{p}_")).unwrap_or_default(), op.name, ctx.tag(), typ.tag());
        out.push(MEntry { idx, name, op: op.name, pre, ctx, typ, random });
    };
    // (1) strict typing: every operator in the five main contexts, and in two of the five other
    // contexts (rotating, so that every (context, operator family) pair is covered by several
    // operators); operators that only exist on bounded collections additionally in `TopBounded`
    const MAIN: &[Ctx] = &[Ctx::Top, Ctx::Atomic, Ctx::TickBatch, Ctx::TickClone, Ctx::AcrossTicks];
    const OTHER: &[Ctx] = &[Ctx::TopClone, Ctx::TickCycle, Ctx::TickCycleDefer, Ctx::TickDefer, Ctx::TopBounded];
    for (i, op) in ops.iter().enumerate() {
        let typ = if op.typs.contains(&Typ::ToEo) { Typ::ToEo } else { op.typs[0] };
        let mut ctxs: Vec<Ctx> = MAIN.to_vec();
        ctxs.push(OTHER[i % 5]);
        ctxs.push(OTHER[(i + 2) % 5]);
        if op.needs_bounded || op.trusted_site {
            ctxs.push(Ctx::TopBounded);
        }
        for ctx in ctxs {
            if admissible(op, ctx, typ) {
                push(&mut out, op, None, ctx, typ, false);
            }
        }
    }
    // (2) every admissible (operator, weak typing) pair in two of {atomic region, tick batch,
    // top level, across_ticks} (rotating); operators that consume a weak type in all of them
    const WEAK: &[Ctx] = &[Ctx::Atomic, Ctx::TickBatch, Ctx::Top, Ctx::AcrossTicks];
    for (i, op) in ops.iter().enumerate() {
        for (j, typ) in [Typ::NoEo, Typ::ToAlo, Typ::NoAlo].into_iter().enumerate() {
            let mut ctxs: Vec<Ctx> = if op.trusted_site { WEAK.to_vec() } else { vec![WEAK[(i + j) % 4], WEAK[(i + j + 2) % 4]] };
            if op.tick_only {
                ctxs = vec![Ctx::TickBatch, Ctx::TickClone];
            }
            for ctx in ctxs {
                if admissible(op, ctx, typ) {
                    push(&mut out, op, None, ctx, typ, false);
                }
            }
        }
    }
    // (3) seeded extras: random context / typing / pre-stage
    let pres: Vec<&OpDef> = ops.iter().filter(|o| o.pre).collect();
    let mut tries = 0;
    let mut added = 0;
    while added < N_RANDOM && tries < 10_000 {
        tries += 1;
        let op = &ops[rng.below(ops.len())];
        let ctx = ALL_CTX[rng.below(ALL_CTX.len())];
        let typ = ALL_TYP[rng.below(ALL_TYP.len())];
        let pre = pres[rng.below(pres.len())];
        if !admissible(op, ctx, typ) || !admissible(pre, ctx, typ) {
            continue;
        }
        // `unique` as a pre-stage turns the stream ExactlyOnce: fine for every operator
        let before = out.len();
        push(&mut out, op, Some(pre.name), ctx, typ, true);
        if out.len() > before {
            added += 1;
        }
    }
    out
}

pub fn op_by_name(name: &str) -> OpDef {
    ops().into_iter().find(|o| o.name == name).unwrap_or_else(|| panic!("unknown op {name}"))
}

/// How the output `out0` has to be compared.
#[derive(Clone, Copy, Debug, PartialEq, Eq)]
pub enum Cmp {
    Seq,
    Bag,
    SnapOne,
    SnapOpt,
    SnapBag,
}

pub struct Derived {
    pub cmp: Cmp,
    /// Rust item type of `out0`
    pub item_ty: String,
    /// the output stream is typed AtLeastOnce (compare up to duplicates when duplicates are injected)
    pub out_alo: bool,
    pub out_ordered: bool,
}

pub fn derive(e: &MEntry) -> Derived {
    let op = op_by_name(e.op);
    // typing after the optional pre-stage
    let mut eo = e.typ.exactly_once();
    if e.pre == Some("unique") {
        eo = true;
    }
    let in_ordered = e.typ.ordered();
    let out_ordered = match op.out_ord {
        OutOrd::Same => in_ordered,
        OutOrd::No => false,
        OutOrd::Total => true,
    } && !op.force_bag;
    let out_alo = !(eo || op.out_eo);
    let in_tickish = e.ctx.in_tick() || e.ctx == Ctx::AcrossTicks;
    let (cmp, item_ty) = match op.kind {
        Kind::S => (if out_ordered { Cmp::Seq } else { Cmp::Bag }, "i32".to_string()),
        Kind::P => (if out_ordered { Cmp::Seq } else { Cmp::Bag }, "(i32, i32)".to_string()),
        Kind::One(t) => (if in_tickish { Cmp::Seq } else { Cmp::SnapOne }, t.to_string()),
        Kind::Opt => (if in_tickish { Cmp::Seq } else { Cmp::SnapOpt }, "i32".to_string()),
        Kind::KS(t) => (if in_tickish { Cmp::Bag } else { Cmp::SnapBag }, format!("(i32, {t})")),
        Kind::KSB => (Cmp::Bag, "(i32, i32)".to_string()),
    };
    Derived { cmp, item_ty, out_alo, out_ordered }
}

const SHIM_ORD: &str = ".assume_ordering::<TotalOrder>(nondet!(/** harness observation shim: compared as a multiset */))";
const SHIM_RETRY: &str = ".assume_retries::<ExactlyOnce>(nondet!(/** harness observation shim: the simulator owns duplication */))";
const BATCH: &str = ".batch(&tick, nondet!(/** the simulator owns the batch boundaries */))";
const SNAP: &str = ".snapshot(&tick, nondet!(/** harness observation shim: per-tick snapshot */))";

/// Hydro source of one entry (a `pub fn <name>(in0)`).
pub fn source(e: &MEntry) -> String {
    let op = op_by_name(e.op);
    let d = derive(e);
    let mut b = String::new();
    let pre_desc = e.pre.map(|p| format!(", pre-stage `{p}`")).unwrap_or_default();
    b.push_str(&format!(
        "/// operator `{}` in context `{:?}` with input typing `{:?}`{}{}\n",
        e.op,
        e.ctx,
        e.typ,
        pre_desc,
        if e.random { " (seeded draw)" } else { "" }
    ));
    b.push_str(&format!("pub fn {}<'a>(in0: Stream<i32, P<'a>>) {{\n", e.name));
    b.push_str("    let tick = in0.location().tick();\n    let _ = &tick;\n");
    let cast = e.typ.cast();
    // ---- source
    match e.ctx {
        Ctx::Top => b.push_str(&format!("    let s = in0{cast};\n")),
        Ctx::TopClone => {
            b.push_str("    in0.clone().embedded_output(\"out1\");\n");
            b.push_str(&format!("    let s = in0{cast};\n"));
        }
        Ctx::Atomic => b.push_str(&format!("    let s = in0{cast}.atomic();\n")),
        Ctx::TickBatch | Ctx::AcrossTicks => b.push_str(&format!("    let s = in0{cast}{BATCH};\n")),
        Ctx::TickClone => {
            b.push_str(&format!("    let b = in0{BATCH};\n"));
            b.push_str("    b.clone().all_ticks().embedded_output(\"out1\");\n");
            b.push_str(&format!("    let s = b{cast};\n"));
        }
        Ctx::TickDefer => b.push_str(&format!("    let s = in0{cast}{BATCH}.defer_tick();\n")),
        Ctx::TickCycle | Ctx::TickCycleDefer => {
            b.push_str(&format!("    let b = in0{BATCH};\n"));
            b.push_str("    let (handle, cycled) = tick.cycle::<Stream<i32, Tick<P<'a>>, Bounded>, _>();\n");
            b.push_str("    handle.complete_next_tick(b);\n");
            if e.ctx == Ctx::TickCycleDefer {
                // `defer_tick` applied *directly* to the value handed out by `Tick::cycle`
                b.push_str(&format!("    let s = cycled.defer_tick(){cast};\n"));
            } else {
                b.push_str(&format!("    let s = cycled{cast};\n"));
            }
        }
        Ctx::TopBounded => {
            let lits: Vec<String> = STATIC_INPUT.iter().map(|x| format!("{x}i32")).collect();
            b.push_str("    in0.clone().for_each(q!(|_| {}));\n");
            b.push_str(&format!("    let s = in0.location().source_iter(q!(vec![{}])){cast};\n", lits.join(", ")));
        }
    }
    // ---- pre-stage + operator
    let pre_expr = |s: &str| match e.pre {
        Some(p) => expand(op_by_name(p).tmpl, s),
        None => s.to_string(),
    };
    if e.ctx == Ctx::AcrossTicks {
        let body = expand(op.tmpl, &pre_expr("s"));
        let body = if op.kind == Kind::KSB { format!("{body}.entries()") } else { body };
        b.push_str(&format!("    let r = s.across_ticks(|s| {body});\n"));
    } else {
        b.push_str(&format!("    let r = {};\n", expand(op.tmpl, &pre_expr("s"))));
    }
    // ---- observation
    let mut shims = String::new();
    if matches!(op.kind, Kind::KS(_) | Kind::KSB) || (!d.out_ordered && matches!(op.kind, Kind::S | Kind::P)) {
        shims.push_str(SHIM_ORD);
    }
    if d.out_alo && matches!(op.kind, Kind::S | Kind::P) {
        shims.push_str(SHIM_RETRY);
    }
    let obs = match (op.kind, e.ctx) {
        (Kind::S | Kind::P, Ctx::Top | Ctx::TopClone | Ctx::TopBounded) => format!("r{shims}"),
        (Kind::S | Kind::P, Ctx::Atomic) => format!("r.end_atomic(){shims}"),
        (Kind::S | Kind::P, _) => format!("r.all_ticks(){shims}"),
        (Kind::One(_) | Kind::Opt, Ctx::Top | Ctx::TopClone | Ctx::TopBounded) => format!("r{SNAP}.all_ticks()"),
        (Kind::One(_) | Kind::Opt, Ctx::Atomic) => "r.batched_atomic().all_ticks()".to_string(),
        (Kind::One(_) | Kind::Opt, _) => "r.all_ticks()".to_string(),
        (Kind::KS(_), Ctx::Top | Ctx::TopClone) => format!("r{SNAP}.entries().all_ticks(){shims}"),
        (Kind::KS(_), Ctx::Atomic) => format!("r.batched_atomic().entries().all_ticks(){shims}"),
        (Kind::KS(_), Ctx::TopBounded) => unreachable!("keyed folds are not admissible on top-level bounded collections"),
        (Kind::KS(_), _) => format!("r.entries().all_ticks(){shims}"),
        (Kind::KSB, Ctx::Top | Ctx::TopClone | Ctx::TopBounded) => format!("r.entries(){shims}"),
        (Kind::KSB, Ctx::Atomic) => format!("r.entries().end_atomic(){shims}"),
        (Kind::KSB, Ctx::AcrossTicks) => format!("r.all_ticks(){shims}"),
        (Kind::KSB, _) => format!("r.entries().all_ticks(){shims}"),
    };
    b.push_str(&format!("    {obs}.embedded_output(\"out0\");\n}}\n"));
    b
}

/// `flows/src/matrix.rs`
pub fn flows_source(seed: u64) -> String {
    let es = entries(seed);
    let mut s = String::new();
    s.push_str("//! GENERATED by `flows/build.rs` from the `matrixdef` crate (seed in the first line of `MATRIX_SEED`).\n");
    s.push_str("//! Do not edit: change `matrixdef/src/lib.rs` instead. One function per matrix entry:\n");
    s.push_str("//! operator family x location kind / batch source x input typing x pre-stage.\n");
    s.push_str("#![allow(unused_imports, clippy::all)]\n\n");
    s.push_str("use hydro_lang::live_collections::batch_atomic::BatchAtomic;\n");
    s.push_str("use hydro_lang::live_collections::stream::{AtLeastOnce, ExactlyOnce, NoOrder, TotalOrder};\n");
    s.push_str("use hydro_lang::prelude::*;\n\n");
    s.push_str("type P<'a> = Process<'a, ()>;\n\n");
    s.push_str(&format!("pub const MATRIX_SEED: u64 = {seed};\n\n"));
    for e in &es {
        s.push_str(&source(e));
        s.push('\n');
    }
    s.push_str("/// Build entry `idx` (used by `genm/build.rs`).\npub fn build<'a>(idx: usize, in0: Stream<i32, P<'a>>) {\n    match idx {\n");
    for e in &es {
        s.push_str(&format!("        {} => {}(in0),\n", e.idx, e.name));
    }
    s.push_str("        other => panic!(\"no matrix entry {other}\"),\n    }\n}\n");
    s
}
