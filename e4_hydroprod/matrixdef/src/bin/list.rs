//! `cargo run -p matrixdef --bin list`: print the matrix corpus (name, operator, context, typing).
fn main() {
    let es = matrixdef::entries(matrixdef::seed_from_env());
    for e in &es {
        println!("{:3} {:40} op={:18} pre={:10} ctx={:?} typ={:?}{}", e.idx, e.name, e.op, e.pre.unwrap_or("-"), e.ctx, e.typ, if e.random { " (seeded)" } else { "" });
    }
    eprintln!("{} entries", es.len());
}
