//! Type-driven C33 table: flows built from (producer, transformer) pairs, at top level and inside
//! an atomic region. The flow ends in the *generic* observer `e4_flows::obs33::Observe33`, which
//! snapshots (or, for bounded-value keyed singletons, streams the new entries of) whatever
//! collection the pair produced and **returns the bound its Rust type claims**
//! (`B::bound_kind()`). `genm/build.rs` records that claim next to the generated code; the runner
//! applies "keys never vanish / monotone values never decrease / bounded values never change" to
//! whatever the types claim. Nothing in this table says which transformer keeps which promise.

#[derive(Clone, Copy, Debug, PartialEq, Eq)]
pub enum Loc {
    Top,
    Atomic,
}

pub struct Producer {
    pub name: &'static str,
    /// `$S`: `Stream<i32, L, Unbounded, TotalOrder, ExactlyOnce>`
    pub tmpl: &'static str,
    /// value type of the produced keyed singleton / singleton
    pub vty: &'static str,
    pub keyed: bool,
    /// the produced keyed singleton has bounded values (`filter`/`filter_map` exist)
    pub bounded_values: bool,
}
pub struct Transformer {
    pub name: &'static str,
    /// `$R`: the produced collection; `$I`: expression turning the value `v` into an `i32`
    pub tmpl: &'static str,
    pub keyed: bool,
    pub needs_bounded_values: bool,
    /// value type after the transformer ("" = unchanged)
    pub out_vty: &'static str,
}

const KEYED: &str = ".map(q!(|x| (x.rem_euclid(3), x))).into_keyed()";

pub fn producers() -> Vec<Producer> {
    vec![
        Producer { name: "value_counts", tmpl: "$S$KEYED.value_counts()", vty: "usize", keyed: true, bounded_values: false },
        Producer {
            name: "kfold_monotone",
            tmpl: "$S$KEYED.fold(q!(|| i32::MIN), q!(|acc, x| { if x > *acc { *acc = x; } }, monotone = manual_proof!(/** running maximum */)))",
            vty: "i32",
            keyed: true,
            bounded_values: false,
        },
        Producer { name: "kfold_plain", tmpl: "$S$KEYED.fold(q!(|| 0i32), q!(|acc, x| *acc = acc.wrapping_mul(3).wrapping_add(x)))", vty: "i32", keyed: true, bounded_values: false },
        Producer { name: "kreduce", tmpl: "$S$KEYED.reduce(q!(|acc, x| *acc = acc.wrapping_mul(3).wrapping_add(x)))", vty: "i32", keyed: true, bounded_values: false },
        Producer { name: "kfirst", tmpl: "$S$KEYED.first()", vty: "i32", keyed: true, bounded_values: true },
        Producer {
            name: "kfold_early_stop",
            tmpl: "$S$KEYED.fold_early_stop(q!(|| 0i32), q!(|acc, x| { *acc = acc.wrapping_add(x); *acc >= 3 }))",
            vty: "i32",
            keyed: true,
            bounded_values: true,
        },
        Producer {
            name: "kscan_first",
            tmpl: "$S$KEYED.scan(q!(|| 0i32), q!(|acc, x| { *acc = acc.wrapping_mul(3).wrapping_add(x); Some(*acc) })).first()",
            vty: "i32",
            keyed: true,
            bounded_values: true,
        },
        Producer { name: "count", tmpl: "$S.count()", vty: "usize", keyed: false, bounded_values: false },
        Producer {
            name: "fold_monotone",
            tmpl: "$S.fold(q!(|| i32::MIN), q!(|acc, x| { if x > *acc { *acc = x; } }, monotone = manual_proof!(/** running maximum */)))",
            vty: "i32",
            keyed: false,
            bounded_values: false,
        },
        Producer { name: "fold_plain", tmpl: "$S.fold(q!(|| 0i32), q!(|acc, x| *acc = acc.wrapping_mul(3).wrapping_add(x)))", vty: "i32", keyed: false, bounded_values: false },
    ]
}

pub fn transformers() -> Vec<Transformer> {
    vec![
        Transformer { name: "id", tmpl: "$R", keyed: true, needs_bounded_values: false, out_vty: "" },
        Transformer { name: "map_nonmono", tmpl: "$R.map(q!(|v| 100i32 - $I))", keyed: true, needs_bounded_values: false, out_vty: "i32" },
        Transformer { name: "map_mono", tmpl: "$R.map(q!(|v| 100i32 + $I))", keyed: true, needs_bounded_values: false, out_vty: "i32" },
        Transformer { name: "map_with_key_nonmono", tmpl: "$R.map_with_key(q!(|(k, v)| k * 10 - $I))", keyed: true, needs_bounded_values: false, out_vty: "i32" },
        Transformer { name: "map_with_key_mono", tmpl: "$R.map_with_key(q!(|(k, v)| k * 10 + $I))", keyed: true, needs_bounded_values: false, out_vty: "i32" },
        Transformer { name: "filter", tmpl: "$R.filter(q!(|v| *v % 2 == 0))", keyed: true, needs_bounded_values: true, out_vty: "" },
        Transformer { name: "filter_map", tmpl: "$R.filter_map(q!(|v| if v % 2 == 0 { Some(v + 1) } else { None }))", keyed: true, needs_bounded_values: true, out_vty: "" },
        Transformer { name: "id", tmpl: "$R", keyed: false, needs_bounded_values: false, out_vty: "" },
        Transformer { name: "map_nonmono", tmpl: "$R.map(q!(|v| 100i32 - $I))", keyed: false, needs_bounded_values: false, out_vty: "i32" },
    ]
}

#[derive(Clone, Debug)]
pub struct TEntry {
    pub idx: usize,
    pub name: String,
    pub producer: &'static str,
    pub transformer: &'static str,
    pub loc: Loc,
    pub keyed: bool,
    /// item type of `out0`
    pub item_ty: String,
    pub src: String,
}

pub fn entries() -> Vec<TEntry> {
    let mut out = vec![];
    for p in producers() {
        for t in transformers() {
            if p.keyed != t.keyed || (t.needs_bounded_values && !p.bounded_values) {
                continue;
            }
            for loc in [Loc::Top, Loc::Atomic] {
                let idx = out.len();
                let name = format!("t33_{idx:03}_{}_{}_{}", p.name, t.name, if loc == Loc::Top { "top" } else { "atomic" });
                let to_i32 = if p.vty == "i32" { "v" } else { "v as i32" };
                let s = if loc == Loc::Top { "in0" } else { "in0.atomic()" };
                let produced = p.tmpl.replace("$KEYED", KEYED).replace("$S", s);
                let body = t.tmpl.replace("$R", &produced).replace("$I", to_i32);
                let vty = if t.out_vty.is_empty() { p.vty } else { t.out_vty };
                let item_ty = if p.keyed { format!("(i32, {vty})") } else { vty.to_string() };
                let src = format!(
                    "/// producer `{}`, transformer `{}`, {:?}; returns the bound the result's type claims\npub fn {name}<'a>(in0: Stream<i32, P<'a>>) -> String {{\n    let r = {body};\n    r.observe33()\n}}\n",
                    p.name, t.name, loc
                );
                out.push(TEntry { idx, name, producer: p.name, transformer: t.name, loc, keyed: p.keyed, item_ty, src });
            }
        }
    }
    out
}

/// `flows/src/t33.rs`
pub fn flows_source() -> String {
    let es = entries();
    let mut s = String::new();
    s.push_str("//! GENERATED by `flows/build.rs` from `matrixdef::c33` — (producer, transformer) pairs ending in the\n");
    s.push_str("//! generic observer `obs33::Observe33`, which returns the bound claimed by the result's type.\n");
    s.push_str("#![allow(unused_imports, clippy::all)]\n\n");
    s.push_str("use hydro_lang::prelude::*;\n\nuse crate::obs33::Observe33;\n\ntype P<'a> = Process<'a, ()>;\n\n");
    for e in &es {
        s.push_str(&e.src);
        s.push('\n');
    }
    s.push_str("/// Build entry `idx`; returns the claimed bound (used by `genm/build.rs`).\npub fn build<'a>(idx: usize, in0: Stream<i32, P<'a>>) -> String {\n    match idx {\n");
    for e in &es {
        s.push_str(&format!("        {} => {}(in0),\n", e.idx, e.name));
    }
    s.push_str("        other => panic!(\"no t33 entry {other}\"),\n    }\n}\n");
    s
}
