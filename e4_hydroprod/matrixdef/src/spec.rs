//! Plain-Rust reference semantics of every matrix operator on a finite list (independent of
//! Hydro/DFIR code). `apply(op, xs)` is the result of the operator on the list `xs`; the runner
//! lifts it to a context (whole input / per batch / cumulative prefixes).

/// A canonical output item.
#[derive(Clone, Debug, PartialEq, Eq, PartialOrd, Ord)]
pub enum Item {
    I(i64),
    P(i64, i64),
    /// `(key, Vec<..>)`
    KV(i64, Vec<i64>),
    L(Vec<i64>),
    B(bool),
}

/// Result of an operator on a list.
#[derive(Clone, Debug, PartialEq, Eq)]
pub enum Out {
    /// stream (in emission order; compare as a multiset where the type is unordered)
    Stream(Vec<Item>),
    /// singleton
    One(Item),
    /// optional
    Opt(Option<Item>),
    /// keyed singleton: one entry per key (sorted by key)
    Keyed(Vec<Item>),
}
impl Out {
    pub fn items(&self) -> Vec<Item> {
        match self {
            Out::Stream(v) | Out::Keyed(v) => v.clone(),
            Out::One(x) => vec![x.clone()],
            Out::Opt(x) => x.iter().cloned().collect(),
        }
    }
}

fn w(x: i64) -> i32 {
    x as i32
}
fn ordfold(xs: &[i64]) -> i64 {
    let mut acc: i32 = 0;
    for x in xs {
        acc = acc.wrapping_mul(3).wrapping_add(w(*x));
    }
    acc as i64
}
fn ordreduce(xs: &[i64]) -> Option<i64> {
    let mut it = xs.iter();
    let mut acc: i32 = w(*it.next()?);
    for x in it {
        acc = acc.wrapping_mul(3).wrapping_add(w(*x));
    }
    Some(acc as i64)
}
fn running(xs: &[i64]) -> Vec<i64> {
    let mut acc: i32 = 0;
    xs.iter()
        .map(|x| {
            acc = acc.wrapping_mul(3).wrapping_add(w(*x));
            acc as i64
        })
        .collect()
}
fn uniq(xs: &[i64]) -> Vec<i64> {
    let mut seen: Vec<i64> = vec![];
    for x in xs {
        if !seen.contains(x) {
            seen.push(*x);
        }
    }
    seen
}
fn key(x: i64) -> i64 {
    x.rem_euclid(3)
}
/// per-key value lists, keys sorted, per-key order = list order
fn keyed(xs: &[i64]) -> Vec<(i64, Vec<i64>)> {
    let mut out: Vec<(i64, Vec<i64>)> = vec![];
    for x in xs {
        match out.iter_mut().find(|e| e.0 == key(*x)) {
            Some(e) => e.1.push(*x),
            None => out.push((key(*x), vec![*x])),
        }
    }
    out.sort_by_key(|e| e.0);
    out
}
fn ints(v: Vec<i64>) -> Out {
    Out::Stream(v.into_iter().map(Item::I).collect())
}
fn add(a: i64, b: i64) -> i64 {
    w(a).wrapping_add(w(b)) as i64
}
fn mul(a: i64, b: i64) -> i64 {
    w(a).wrapping_mul(w(b)) as i64
}

/// Stream -> stream operators usable as a pre-stage.
pub fn pre_apply(op: &str, xs: &[i64]) -> Vec<i64> {
    match apply(op, xs) {
        Out::Stream(v) => v
            .into_iter()
            .map(|i| match i {
                Item::I(x) => x,
                other => panic!("matrixdef: pre-stage {op} produced {other:?}"),
            })
            .collect(),
        other => panic!("matrixdef: pre-stage {op} produced {other:?}"),
    }
}

pub fn apply(op: &str, xs: &[i64]) -> Out {
    match op {
        "map" => ints(xs.iter().map(|x| add(mul(*x, 2), 1)).collect()),
        "filter" => ints(xs.iter().cloned().filter(|x| x % 2 == 0).collect()),
        "flat_map" => ints(xs.iter().flat_map(|x| [*x, add(*x, 10)]).collect()),
        "filter_map" => ints(xs.iter().filter(|x| *x % 3 != 0).map(|x| add(*x, 1)).collect()),
        "unique" => ints(uniq(xs)),
        "enumerate" => ints(xs.iter().enumerate().map(|(i, x)| add(*x, mul(i as i64, 100))).collect()),
        "scan_resurrect" => {
            // running sum; the first 0 element terminates the scan for good
            let mut acc: i32 = 0;
            let mut out = vec![];
            for x in xs {
                acc = acc.wrapping_add(w(*x));
                if *x == 0 {
                    break;
                }
                out.push(acc as i64);
            }
            ints(out)
        }
        "scan_running" => ints(running(xs)),
        "limit3" => ints(xs.iter().take(3).cloned().collect()),
        "sort" => {
            let mut v = xs.to_vec();
            v.sort();
            ints(v)
        }
        "chain_self" => ints(xs.iter().map(|x| add(*x, 1000)).chain(xs.iter().cloned()).collect()),
        "xs_count" => Out::Stream(xs.iter().map(|x| Item::P(*x, xs.len() as i64)).collect()),
        "xs_static" => Out::Stream(xs.iter().map(|x| Item::P(*x, 7)).collect()),
        "join_self" => {
            let mut out = vec![];
            for a in xs {
                for b in xs {
                    if key(*a) == key(*b) {
                        out.push(add(mul(*a, 7), mul(*b, 2)));
                    }
                }
            }
            ints(out)
        }
        "cross_self" | "nested_loop" => {
            let mut out = vec![];
            for a in xs {
                for b in xs.iter().filter(|x| *x % 2 != 0) {
                    out.push(add(mul(*a, 7), *b));
                }
            }
            ints(out)
        }
        "anti_join_static" => Out::Stream(xs.iter().filter(|x| key(**x) != 1).map(|x| Item::P(key(*x), *x)).collect()),
        "filter_not_in_static" => ints(xs.iter().cloned().filter(|x| *x != 1 && *x != 4).collect()),
        "partition_even" => ints(xs.iter().cloned().filter(|x| x % 2 == 0).collect()),
        "merge_self" => ints(xs.iter().cloned().chain(xs.iter().map(|x| add(*x, 500))).collect()),
        "k_fold_ord" => Out::Keyed(keyed(xs).into_iter().map(|(k, vs)| Item::P(k, ordfold(&vs))).collect()),
        "k_fold_idem" => Out::Keyed(keyed(xs).into_iter().map(|(k, vs)| Item::P(k, *vs.iter().max().unwrap())).collect()),
        "k_reduce_ord" => Out::Keyed(keyed(xs).into_iter().map(|(k, vs)| Item::P(k, ordreduce(&vs).unwrap())).collect()),
        "k_vec" => Out::Keyed(keyed(xs).into_iter().map(|(k, vs)| Item::KV(k, vs)).collect()),
        "k_scan" => Out::Keyed(keyed(xs).into_iter().map(|(k, vs)| Item::KV(k, running(&vs))).collect()),
        "k_first" => Out::Keyed(keyed(xs).into_iter().map(|(k, vs)| Item::P(k, vs[0])).collect()),
        "k_value_counts" => Out::Keyed(keyed(xs).into_iter().map(|(k, vs)| Item::P(k, vs.len() as i64)).collect()),
        "k_keys" => ints(keyed(xs).into_iter().map(|(k, _)| k).collect()),
        "k_unique" => {
            let mut out = vec![];
            for (k, vs) in keyed(xs) {
                for v in uniq(&vs) {
                    out.push(Item::P(k, v));
                }
            }
            Out::Stream(out)
        }
        "repeat_with_keys" => {
            let mut out = vec![];
            for (k, _) in keyed(xs) {
                for x in xs {
                    out.push(Item::P(k, *x));
                }
            }
            Out::Stream(out)
        }
        "fold_ord" => Out::One(Item::I(ordfold(xs))),
        "fold_comm" => {
            let mut acc: i32 = 0;
            for x in xs {
                acc = acc.wrapping_add(w(*x).wrapping_mul(w(*x)));
            }
            Out::One(Item::I(acc as i64))
        }
        "fold_idem" => Out::One(Item::I(xs.iter().cloned().max().unwrap_or(i32::MIN as i64))),
        "reduce_ord" => Out::Opt(ordreduce(xs).map(Item::I)),
        "count" => Out::One(Item::I(xs.len() as i64)),
        "max" => Out::Opt(xs.iter().cloned().max().map(Item::I)),
        "min" => Out::Opt(xs.iter().cloned().min().map(Item::I)),
        "first" => Out::Opt(xs.first().cloned().map(Item::I)),
        "last" => Out::Opt(xs.last().cloned().map(Item::I)),
        "collect_vec" => Out::One(Item::L(xs.to_vec())),
        "is_empty" => Out::One(Item::B(xs.is_empty())),
        other => panic!("matrixdef: no spec for operator {other}"),
    }
}
