#!/bin/bash
# e4_hydroprod/check.sh <ID> [--tier quick|thorough] [--replay f] [--runs N] [--seed S]
# Builds the flows crate, runs the production Hydro compiler over the corpus (gen/build.rs),
# builds the engine and runs one property check. cargo path dependencies on /repo make this
# rebuild whenever /repo sources change. Exit 2 on build errors (never an alarm).
set -u
cd "$(dirname "$0")"
export CARGO_NET_OFFLINE=true
export VERIF_DIR="${VERIF_DIR:-/verif}"
log="$(mktemp /var/tmp/verif-build-e4-XXXXXX.log)"
if ! cargo build --release --offline -p e4_hydroprod >"$log" 2>&1; then
  echo "HARNESS: build of e4_hydroprod failed (harness/build error, not a violation):" >&2
  grep -E "^(error|warning: unused)" -A12 "$log" | head -80 >&2
  tail -5 "$log" >&2
  rm -f "$log"; exit 2
fi
rm -f "$log"
exec ./target/release/e4_hydroprod "$@"
