#!/usr/bin/env python3
"""Regenerates /verif/MANIFEST.json from the tables below (keep in sync with DESIGN.md)."""
import json, os
HERE = os.path.dirname(os.path.dirname(os.path.abspath(__file__)))

NA_PURE = {
 "C03": "comparisons/is_bot/is_top/Default agreeing with merge is a relation between pure functions of one or two values: no schedule, clock, fault or second party for a simulator to own (DESIGN.md §6)",
 "C04": "conformance of each lattice to its abstract join over a sequential merge history against a model is sequential model-based testing; nothing for a scheduler or fault injector to decide (DESIGN.md §6)",
 "C06": "atomize/re-merge round trip is a pure function of one value (DESIGN.md §6)",
 "C07": "morphism distributivity is an algebraic identity over input values (DESIGN.md §6)",
 "C08": "GHT vs set-of-tuples is a sequential data-structure conformance property, no interleaving or fault (DESIGN.md §6)",
 "C09": "law checkers over finite carriers are pure functions of an operation table (DESIGN.md §6)",
 "C10": "variadic collections vs (multi)sets is a sequential data-structure conformance property (DESIGN.md §6)",
 "C17": "toposort / subgraph merging are pure graph algorithms over their input graph (DESIGN.md §6)",
 "C18": "partitioning well-formedness is a pure compile-time function of the program graph; its run-time consequences are simulated under C21-C26 (DESIGN.md §6)",
 "C19": "cycle rejection is a pure compile-time function of the program graph (DESIGN.md §6)",
 "C20": "graph rewrites and serde round trip are pure compile-time functions of the program graph (DESIGN.md §6)",
 "C35": "serialisation and member-id round trips are pure functions of the payload value; sampling payloads is input generation, not simulation (DESIGN.md §6)",
 "C41": "'every well-typed flow compiles' quantifies over programs only; a compile succeeds or not independent of any schedule or fault (DESIGN.md §6)",
}

# property -> (engine, technique, level text, level note, design_ref)
CLAIMED = {}
def claim(pid, engine, technique, text, note, ref):
    CLAIMED[pid] = dict(engine=engine, technique=technique, text=text, note=note, ref=ref)

E1 = "e1_pollsim"
claim("C16", E1,
  "deterministic simulation: seeded search over task-poll interleavings, spurious polls, cancellations and half drops of the real unsync mpsc under a simulated executor, FIFO-queue reference model, quiescence = lost-wake-up oracle",
  "Seeded exploration (not exhaustive) of schedules and faults against the real channel code; every run is replayable from its decision trace; a clean batch is evidence, not proof.",
  "Trusted: the harness queue model and executor (simcore::exec). Assumes spurious polls and dropping pending send futures are legal API use. Bounds: cap 1-3/unbounded, <=3 senders, <=12 items.",
  "DESIGN.md §5 C16")

claim("C14", "e1_sink",
  "deterministic simulation: seeded readiness/flush/close/init-future schedules and task interleavings around the real sinktools adaptors (65 pipeline-shape scenarios incl. error-injection configurations), per-sink reference sequences + Sink-protocol monitor + init<=1 + quiescence lost-wake-up oracle",
  "Seeded exploration of sink readiness patterns, lazy-init timing, two-task interleavings of LazySinkSource halves, spurious polls and (separately, with a narrowed oracle) injected sink errors against the real adaptors; replayable decision traces.",
  "Trusted: SimSink/SimFuture stubs, protocol monitor (lenient: a Pending after Ready(Ok) does not revoke the credit), reference routing functions. 'Delivered' = accepted by the terminal sink's start_send. Two recorded known findings (demux_map_lazy new-sink start_send without poll_ready; LazySinkHalf forwarding to a never-readied inner sink) are printed as KNOWN-FINDING.",
  "DESIGN.md §5 C14, §13")
claim("C15", "e1_sink",
  "deterministic simulation: seeded per-poll Ready/Pending/None scripts of 1-4 tagged sources merged by the real MergeSource/TaggedSource (reached through ConnectedTagged::from_defn, no sockets), consumer task with spurious polls; interleaving/FIFO/no-loss/end/fairness oracles",
  "Seeded exploration of source readiness patterns and poll schedules against the real merge code; fairness stated on outputs and polls-per-call, not on time.",
  "Trusted: scripted SimStream sources and the registry-based Connected implementation. multi_connection.rs (real listeners, no seam) is not run.",
  "DESIGN.md §5 C15, §13")
claim("C12", "e1_push",
  "deterministic simulation: seeded Pending answers of every downstream's poll_ready/poll_finalize, pull-side pendings through the real SendPush driver and a hand driver, async shapes on the simulated executor; per-downstream reference sequences + push-protocol monitor",
  "Seeded exploration of downstream readiness patterns around the real dfir_pipes push combinators (catalogue of monomorphic shapes incl. fan-out compositions and multi-epoch persist); replayable decision traces.",
  "Trusted: SimPush stub + protocol monitor, reference semantics written with std iterators. Keyed accumulators compared as multisets.",
  "DESIGN.md §5 C12, §13")

claim("C11", "e1_pull",
  "deterministic simulation: seeded Pending placement / spurious polls / wake timing around a 685-shape catalogue of real dfir_pipes pull pipelines, each compared step by step with the same pipeline over std iterators; fusedness, size-hint bracket, lost-wake-up and terminal-future oracles",
  "Seeded exploration of pending schedules against the real pull combinators (singles, all ordered pairs, depth-3/4 chains, async shapes on the simulated executor); replayable decision traces.",
  "Trusted: SimPull/SimStream/SimFuture stubs and the std-iterator reference instantiation of each catalogue expression. <=8 items per source, <=3 Pending per position. stream_ready's Ended is read as end-of-tick. Closure side-effect counts are not compared (Zip/CrossSingleton may consume one more input than std zip).",
  "DESIGN.md §5 C11, §13")
claim("C13", "e1_pull",
  "deterministic simulation: seeded left/right arrival interleavings, pending scripts (also during the tick-start drain), set/multiset state, 'static/'tick state per side over 1-4 ticks through all three public forms of the real symmetric hash join; multiset comparison with a reference relational join per tick",
  "Seeded exploration of arrival schedules and multi-tick histories against the real join code; drain path and incremental path both driven, also mixed.",
  "Trusted: reference join on (multi)sets; HalfJoinState spy wrapper only forwards. Emission order unspecified, multisets compared. keys 0..2, values 0..3, <=8 arrivals per side per tick.",
  "DESIGN.md §5 C13, §13")

claim("C27", "e2_wakesim",
  "deterministic simulation of thread interleavings: shuttle RandomScheduler + PCT(depth 3) seeded from VERIF_SEED run the real WakeState / Dfir::{run, run_available, run_tick} against waker/sender threads, switching only at the hydro_verif_hooks yield points between the atomic steps; lost wake-up = deadlock or un-ticked wake; thorough tier adds a seeded Miri leg (weak-memory emulation)",
  "Seeded exploration (random + PCT sampling) of runner/waker interleavings at every atomic step of the wake-up protocol, incl. an end-to-end dfir_syntax! source_stream program fed from other threads; failing schedules are persisted in shuttle's schedule format and replayed in a fresh process.",
  "Trusted: shuttle's scheduler, the stub tick closure and oracles. Sequentially consistent interleavings at the yield points only (Miri leg in thorough tier samples weak-memory behaviours); <=2 wakers/senders, <=2 wakes or 3 items each; AtomicWaker/tokio mpsc treated as atomic between yield points; run_available_sync/run_tick_sync covered only through the shared run_tick.",
  "DESIGN.md §5 C27, §13")

E4NOTE = 'Trusted: hand-written plain-Rust specs per corpus flow, the SimStream/recording stubs and simulated network. Production *embedded* back end only (deploy/trybuild process and network glue not run); program space = the hand-written corpus + seeded composer chains + a matrix composer (43 operator families x 10 location kinds / batch sources incl. atomic regions, teed (push-side) batches, Tick::cycle values, deferred values, across_ticks, bounded top-level collections x 4 input typings TotalOrder/NoOrder x ExactlyOnce/AtLeastOnce = 456 generated flows) + a type-driven table of 94 producer x transformer flows for C33 (oracle applies exactly what the collection bound kind claims) + flows whose futures suspend inside a tick; inputs <= ~12 items. Sampled, not exhaustive.'
claim("C28", "e4_hydroprod",
  "deterministic simulation: Hydro flows compiled by the production code generator (generate_embedded) run under seeded tick partitions of their inputs (all-at-once, singletons, random cuts, empty ticks), seeded location order and network delivery schedules admitted by the channel guarantees; final outputs compared across schedules and against a plain-Rust spec; bounded-liveness idle check",
  "Seeded exploration of tick partitions / location orders / network schedules around production-generated code for a corpus of safe top-level flows plus composer-generated flows (schedule independence only).",
  E4NOTE + " One recorded known finding (collect_quorum_with_response cross-key order depends on batching) is printed as KNOWN-FINDING.",
  "DESIGN.md §5 C28, §13")
claim("C29", "e4_hydroprod",
  "deterministic simulation: production-compiled ordered/keyed flows under seeded tick partitions and cross-key interleavings; output sequences (TotalOrder) and per-key subsequences compared across schedules and against specs",
  "Seeded exploration of tick partitions and cross-key interleavings; per-key outputs must be a function of that key's input subsequence only.",
  E4NOTE + " Same known finding as C28.",
  "DESIGN.md §5 C29, §13")
claim("C30", "e4_hydroprod",
  "deterministic simulation: production-compiled tick programs (batch -> tick operators -> all_ticks) under seeded per-tick batches chosen by the simulator; per-tick output compared with the operator applied to that batch alone; deferred values must appear exactly one tick later",
  "Seeded exploration of per-tick batch histories (incl. empty ticks) against per-tick specs; the simulator knows the batches because it chose the partition.",
  E4NOTE,
  "DESIGN.md §5 C30, §13")
claim("C32", "e4_hydroprod",
  "deterministic simulation: one production-compiled corpus flow per assume_ordering_trusted/assume_retries_trusted call site, input typed as weakly as the signature allows; seeded admissible permutations (NoOrder) and duplications (AtLeastOnce) of the input on top of seeded tick partitions; final results compared across runs and with specs",
  "Seeded exploration of the orders/duplications the input type says the network may produce, plus tick partitions.",
  E4NOTE + " Inputs <= 6 items; permutations sampled.",
  "DESIGN.md §5 C32, §13")
claim("C33", "e4_hydroprod",
  "deterministic simulation: production-compiled flows producing monotone singletons / keyed singletons / bounded-value keyed singletons, snapshotted every tick under seeded inputs and tick partitions; history oracle: keys never vanish, monotone values never decrease, bounded values never change",
  "Seeded exploration of input histories and tick partitions; oracle over the per-tick snapshot history.",
  E4NOTE,
  "DESIGN.md §5 C33, §13")

E5NOTE = "Trusted: the repository simulator's own model of what is legal (fail-stop network, independent hook decisions), my DynDriver / byte expansion, the reference models. Decision bytes are the replay payload; starved or continue_if-rejected instances are discarded and counted. Sampled, not exhaustive (the repo's own exhaustive mode is only the *subject* of C37)."
claim("C36", "e5_hydrosim",
  "deterministic simulation: (a) hook level: the repository simulator's StreamHook/KeyedStreamHook/SingletonHook/KeyedSingletonHook/Passthrough hooks driven by my own seeded DynDriver with arrivals interleaved with decisions; (b) end to end: compiled simulator dylibs run via CompiledSim::fuzz_repro(bytes) with bytes expanded from the run seed; oracles: prefix/subset per key, no loss/dup, snapshot versions monotone, force_nontrivial truthful, every scheduled tick releases something new",
  "Seeded exploration of simulator decision streams at hook level (millions of runs) and end to end through the compiled dylib; every failing decision stream is a replay file.",
  E5NOTE, "DESIGN.md §5 C36, §13")
claim("C37", "e5_hydrosim",
  "deterministic simulation / sampled membership: the repository's exhaustive mode (hook level through bolero's exhaustive driver, end to end CompiledSim::exhaustive) is run on small configurations to collect the reached outcome set S; seeded draws of legal outcomes from an independent reference description of the decision space must all be members of S",
  "Seeded sampling of reference schedules against the enumerated outcome set of 6 small end-to-end programs and small hook configurations; a sampled legal outcome missing from S is a violation.",
  E5NOTE + " NoOrder batches compared as sets. Coverage claim is by sampling the reference space, not by proving S complete.",
  "DESIGN.md §5 C37, §13")
claim("C38", "e5_hydrosim",
  "deterministic simulation: the same seeded decision bytes are run through CompiledSim::fuzz_repro twice in one process and again in a fresh process (and under a different hash seed via the LD_PRELOAD getrandom shim when present); decision logs, outputs and verdicts must be byte-identical",
  "Seeded exploration of decision inputs for the corpus sim programs, each replayed in-process and cross-process.",
  E5NOTE, "DESIGN.md §5 C38, §13")
claim("C31", "e5_hydrosim",
  "deterministic simulation: corpus sliced! programs (batch on streams/keyed streams, snapshot of count / keyed singleton, slice state) run in the repository simulator under seeded decision bytes; oracles: observed batches partition the input in order (per key / multiset for NoOrder), snapshot versions never go back, slice-local state carries to the next slice",
  "Seeded exploration of simulator schedules of slice programs (production-partition leg C31p exists in e4_hydroprod as an unregistered extra scenario group).",
  E5NOTE + " In the simulator hooks of one slice are independent decisions, so only same-tick membership and version monotonicity are demanded there.",
  "DESIGN.md §5 C31, §13")
claim("C40", "e5_hydrosim",
  "deterministic simulation: hydro_test::cluster::raft (3 members, TCP fail_stop) in the repository simulator under seeded decision bytes and a seeded workload of election-timer interrupts, client requests and heartbeats, with and without quiesce barriers; safety oracle after every observation: pairwise prefix consistency of committed logs, committed positions contiguous and never rewritten",
  "Seeded exploration of fail-stop network schedules and timer/request races for the shipped Raft example; safety only.",
  E5NOTE + " Paxos is NOT covered: the shipped paxos examples use wall-clock tokio intervals that the repository simulator cannot run, so there is no seam (stated limitation; the property is claimed for its Raft half only).",
  "DESIGN.md §5 C40, §13")

claim("C42", "e7_seedsim",
  "deterministic simulation of the compiler's only nondeterminism source: OS randomness feeding std RandomState hash seeds is put behind an LD_PRELOAD getrandom seam keyed by VERIF_HASH_SEED (and ASLR on/off); seeded generator of DFIR programs (and a corpus of Hydro flows) compiled through the real dfir_lang / hydro_lang pipelines in child processes under several hash seeds and on fresh threads; output bytes (partitioned graph JSON, surface syntax, mermaid, generated code) must be identical",
  "Seeded exploration over generated programs x hash seeds x ASLR settings; a control child proves the seam works on every run (HashSet order differs across seeds, equal for equal seeds); differing outputs are minimised by shrinking the program text and replayed in a fresh process.",
  "Trusted: the shim (getrandom via dlsym), the program generator (well-typed templates that compile through dfir_lang without rustc). Covers hash-seed and address-layout dependence only; other nondeterminism sources (environment, file system order, time) are out of scope.",
  "DESIGN.md §5 C42, §13")

claim("C01", "e6_gossip",
  "deterministic discrete-event simulation: 3-5 replicas of one lattice type (23 monomorphic scenarios over the real lattices Merge/LatticeFrom/PartialEq code incl. heterogeneous wire carriers and #[derive(Lattice)]) gossip full states under seeded drop / duplicate / reorder / partition+heal / crash+restart-from-durable-snapshot / slow replica, then a bounded fault-free anti-entropy tail; oracles: all replicas == after the tail, each equals the fold of the updates it causally saw, re-delivery leaves the value ==, two in-flight messages delivered to two clones in both orders give ==",
  "Operational form of ACI: convergence of replicated state under any delivery schedule, plus idempotence/commutativity/associativity checked at the point of use on seeded deliveries. Seeded exploration; quick 4e5 runs, thorough 2e7.",
  "Trusted: the replica/network simulator and fold model. Samples values reachable by gossip from generated deltas over small domains, not 'all triples'; the DomPair (totally ordered key) and Point (only equal values merged) side conditions are assumed by the generators; a change that stays a semilattice under the type's own equality is invisible by definition.",
  "DESIGN.md §5 C01, §13")
claim("C02", "e6_gossip",
  "deterministic discrete-event simulation: flag-driven flood on a ring (a replica forwards iff merge returned true) after a faulty phase; per-merge oracle flag == (before != after) against a clone (and false => message <= state where PartialOrd exists); run-level oracles: the flood converges (a missing true suppresses forwarding -> divergence) and quiesces within a sound send budget (a spurious true keeps the cycle forwarding)",
  "Seeded exploration of delivery schedules with the change flag as the protocol's only forwarding trigger; quick 4e5 runs, thorough 2e7.",
  "Trusted: simulator, quiescence bound 2*n*deg*(updates+2)+16 sends. Values reachable by gossip over small domains.",
  "DESIGN.md §5 C02, §13")
claim("C05", "e6_gossip",
  "deterministic discrete-event simulation: hash-set, roaring and FST tombstone back ends of SetUnionWithTombstones / MapUnionWithTombstones execute the identical seeded schedule (insert / delete deltas + state-push gossip under drop/dup/reorder/partition/crash-restart) in lock-step next to a per-replica model (inserted_seen, tomb_seen); invariants after every event: live == inserted - tombstoned, live and tombstones disjoint, no resurrection, map values == merged inserted values, back ends observably identical",
  "Seeded exploration of merge histories in any order for each tombstone back end; quick 8e4 runs, thorough 4e6.",
  "Trusted: simulator and set model. Keys: u64 above 2^32 with colliding low halves, Strings incl. empty/prefix/non-ASCII. FST stack joins 1 run in 16 (one FST merge costs ~0.4 ms). Only legal delta shapes per the doc comments are generated.",
  "DESIGN.md §5 C05, §13")

claim("C34", "e5_hydrosim",
  "deterministic simulation: the documented atomic keyed-counter pattern (atomic write path releasing acks through end_atomic, atomic read path snapshotting the same state) run in the repository simulator under seeded decision bytes with clients that wait for an ack before issuing reads; oracle over the event-stamped history: every read sent after an observed ack reflects the acknowledged update; a non-atomic control variant must show a stale read (reach probe proving the race is in the schedule space)",
  "Seeded exploration of simulator schedules of atomic write/ack vs atomic read (production-partition leg C34p exists in e4_hydroprod as an unregistered extra scenario group).",
  E5NOTE + " Reads concurrent with an ack are unconstrained.",
  "DESIGN.md §5 C34, §13")
claim("C39", "e5_hydrosim",
  "deterministic simulation: hydro_std collect_quorum / collect_quorum_with_response / request_response::join_responses run in the repository simulator under seeded decision bytes (batching and response order chosen by the simulator); reference quorum model on the whole response sequence: each key reported exactly once, exactly when >= min successes arrived among its first max responses, every error passed through once, each response joined with its request's metadata exactly once",
  "Seeded exploration of response orders and batchings respecting the documented contract (at most max responses per key); production-partition leg C39p exists in e4_hydroprod as an unregistered extra scenario group.",
  E5NOTE + " With min < max the payloads of collect_quorum_with_response are legitimately batching-dependent; only what the property states is compared.",
  "DESIGN.md §5 C39, §13")

E3NOTE = 'Trusted: the reference interpreter (independent of dfir code; validated against 34 documentation examples before every run, a contradiction is exit 2), the program generator and the closure library shared by compiled closures and interpreter. Sampled programs and schedules, nothing exhaustive; one item type (u8,i16); I/O, wall-clock, resolve_futures*, state/lattice_*, join_fused* operators are not generated; order compared only where DFIR documents it (Seq/Bag/KeySorted tags); external wake-ups during a tick belong to C27.'
claim('C21', "e3_ticksim",
  "deterministic simulation of rustc-compiled, seeded-generated DFIR programs under seeded arrival schedules (which items of which external input arrived before which tick, empty ticks, bursts, run_tick_sync per tick vs run_available_sync) with per-tick, per-sink comparison against an independent reference interpreter; workload: " + "3-14 operators over the operator catalogue with every legal 'tick/'static combination per input, 1-3 external inputs, 1-3 sinks",
  "Seeded exploration over generated programs x arrival schedules; the generated binary is itself a simcore runner engine (each compiled program is a scenario), so violations are minimised decision traces carrying the program AST and are replayed in a fresh process (the host rebuilds a single-program crate from the replay file).",
  E3NOTE, "DESIGN.md §5 C21, Appendix A, §13")
claim('C22', "e3_ticksim",
  "deterministic simulation of rustc-compiled, seeded-generated DFIR programs under seeded arrival schedules (which items of which external input arrived before which tick, empty ticks, bursts, run_tick_sync per tick vs run_available_sync) with per-tick, per-sink comparison against an independent reference interpreter; workload: " + 'each program plus 3-4 semantics-preserving shape variants (identity, map(|x| x), single-input union, single-output tee, union with null(), tee leg to null(), shuffled statements) compiled into one binary and driven by the same recorded schedule; variants must agree pairwise and with the interpreter; the all-compile-or-none clause is checked through dfir_lang as a library (plus a small rustc-level compile-agreement leg)',
  "Seeded exploration over generated programs x arrival schedules; the generated binary is itself a simcore runner engine (each compiled program is a scenario), so violations are minimised decision traces carrying the program AST and are replayed in a fresh process (the host rebuilds a single-program crate from the replay file).",
  E3NOTE, "DESIGN.md §5 C22, Appendix A, §13")
claim('C23', "e3_ticksim",
  "deterministic simulation of rustc-compiled, seeded-generated DFIR programs under seeded arrival schedules (which items of which external input arrived before which tick, empty ticks, bursts, run_tick_sync per tick vs run_available_sync) with per-tick, per-sink comparison against an independent reference interpreter; workload: " + 'a blocking consumer (negative side, accumulator, sort, persisted replay, singleton reference) fed by a random same-tick pipeline of depth 1-6 of maps, filters, unions, tees and nested blocking operators',
  "Seeded exploration over generated programs x arrival schedules; the generated binary is itself a simcore runner engine (each compiled program is a scenario), so violations are minimised decision traces carrying the program AST and are replayed in a fresh process (the host rebuilds a single-program crate from the replay file).",
  E3NOTE, "DESIGN.md §5 C23, Appendix A, §13")
claim('C24', "e3_ticksim",
  "deterministic simulation of rustc-compiled, seeded-generated DFIR programs under seeded arrival schedules (which items of which external input arrived before which tick, empty ticks, bursts, run_tick_sync per tick vs run_available_sync) with per-tick, per-sink comparison against an independent reference interpreter; workload: " + 'chains of defer_tick / defer_tick_lazy mixed with stateful operators and decaying feedback cycles; current_tick observed in sinks; the tick count of run_available_sync predicted exactly by the interpreter',
  "Seeded exploration over generated programs x arrival schedules; the generated binary is itself a simcore runner engine (each compiled program is a scenario), so violations are minimised decision traces carrying the program AST and are replayed in a fresh process (the host rebuilds a single-program crate from the replay file).",
  E3NOTE, "DESIGN.md §5 C24, Appendix A, §13")
claim('C25', "e3_ticksim",
  "deterministic simulation of rustc-compiled, seeded-generated DFIR programs under seeded arrival schedules (which items of which external input arrived before which tick, empty ticks, bursts, run_tick_sync per tick vs run_available_sync) with per-tick, per-sink comparison against an independent reference interpreter; workload: " + "fold->singleton / reduce->optional / handoff states with 2-4 access groups of #{g} [mut] name closures plus plain #name readers; each closure logs (group, item, value seen); one recorded known finding (reference holder sharing a subgraph with the handoff's pipe consumer) is printed as KNOWN-FINDING",
  "Seeded exploration over generated programs x arrival schedules; the generated binary is itself a simcore runner engine (each compiled program is a scenario), so violations are minimised decision traces carrying the program AST and are replayed in a fresh process (the host rebuilds a single-program crate from the replay file).",
  E3NOTE, "DESIGN.md §5 C25, Appendix A, §13")
claim('C26', "e3_ticksim",
  "deterministic simulation of rustc-compiled, seeded-generated DFIR programs under seeded arrival schedules (which items of which external input arrived before which tick, empty ticks, bursts, run_tick_sync per tick vs run_available_sync) with per-tick, per-sink comparison against an independent reference interpreter; workload: " + 'six parametrised loop-block templates (root-level loop gating on batch(), nested loops with defer_tick feedback, all_iterations/batch_lazy windowing, lazy vs non-lazy entries); per-tick outputs compared as multisets because batch() may split its input over iterations; livelock watchdog',
  "Seeded exploration over generated programs x arrival schedules; the generated binary is itself a simcore runner engine (each compiled program is a scenario), so violations are minimised decision traces carrying the program AST and are replayed in a fresh process (the host rebuilds a single-program crate from the replay file).",
  E3NOTE, "DESIGN.md §5 C26, Appendix A, §13")

NOT_BUILT = {}  # pid -> reason while its check is not built yet

ALL = ["C%02d" % i for i in range(1, 43)]
PLANNED = {
 "C01":"E6 gossip","C02":"E6 gossip","C05":"E6 gossip","C11":"E1 pollsim","C12":"E1 pollsim","C13":"E1 pollsim","C14":"E1 pollsim","C15":"E1 pollsim",
 "C21":"E3 ticksim","C22":"E3 ticksim","C23":"E3 ticksim","C24":"E3 ticksim","C25":"E3 ticksim","C26":"E3 ticksim","C27":"E2 wakesim",
 "C28":"E4 hydroprod","C29":"E4 hydroprod","C30":"E4 hydroprod","C31":"E5 hydrosim","C32":"E4 hydroprod","C33":"E4 hydroprod","C34":"E5 hydrosim",
 "C36":"E5 hydrosim","C37":"E5 hydrosim","C38":"E5 hydrosim","C39":"E5 hydrosim","C40":"E5 hydrosim","C42":"E7 seedsim",
}

def main():
    checks = []
    for pid in ALL:
        if pid in CLAIMED:
            c = CLAIMED[pid]
            checks.append({
                "property_id": pid,
                "quick_cmd": f"./check {pid} --tier quick",
                "thorough_cmd": f"./check {pid} --tier thorough",
                "evidence_file": f"/verif/evidence/{pid}.json",
                "replay_cmd_template": f"./check {pid} --replay {{path}}",
                "engine": c["engine"],
                "level_claimed": {"category": "exploration", "text": c["text"], "design_ref": c["ref"]},
                "level_note": c["note"],
                "technique": c["technique"],
            })
    na = []
    for pid in ALL:
        if pid in CLAIMED: continue
        if pid in NA_PURE:
            na.append({"property_id": pid, "reason": NA_PURE[pid]})
        else:
            na.append({"property_id": pid, "reason": f"not claimed at this commit: its deterministic-simulation check ({PLANNED[pid]}, DESIGN.md §5) is not built yet"})
    engines = {}
    for pid, c in CLAIMED.items():
        engines.setdefault(c["engine"], []).append(pid)
    ENG_KIND = {
      "e1_pull": "poll-level deterministic simulator for dfir_pipes pull combinators and the symmetric hash join",
      "e2_wakesim": "thread-interleaving simulator (shuttle) for the dataflow runner's wake-up protocol, with guarded yield hooks in dfir_rs",
      "e4_hydroprod": "production-compiled (embedded back end) Hydro flows under simulated tick partitions, location schedules and a simulated network",
      "e5_hydrosim": "the repository's own deterministic simulator driven by my seeded decision stream: hook-level DynDriver and end-to-end fuzz_repro(bytes) over compiled dylibs",
      "e7_seedsim": "process-level simulator of hash-seed / address-space nondeterminism around the DFIR and Hydro compile pipelines (LD_PRELOAD getrandom seam)",
      "e6_gossip": "discrete-event simulator of replicated lattice state over a faulty network (drop, duplicate, reorder, partition, crash/restart)",
      "e3_ticksim": "seeded DFIR program generator + reference interpreter; generated programs are compiled by rustc into a simcore runner binary and driven under simulated per-tick arrival schedules",
      "e1_sink": "poll-level deterministic simulator for sinktools adaptors and MergeSource",
      "e1_push": "poll-level deterministic simulator for dfir_pipes push combinators",
      "e1_pollsim": "poll-level deterministic simulator: scripted Pending/Ready/wake schedules around real dfir_pipes/sinktools/MergeSource/unsync-mpsc code",
    }
    m = {
      "version": 1,
      "setup_cmd": "./setup.sh",
      "hooks": {
        "guard": "cargo feature hydro_verif_hooks on dfir_rs (off by default)",
        "enable": "checks that need the hooks depend on /repo/dfir_rs by path with features=[\"hydro_verif_hooks\"] (only e2_wakesim)",
        "baseline_off_cmd": "cd /repo && (cargo nextest run --workspace --no-fail-fast --test-threads 8 --offline || cargo test --workspace --no-fail-fast --offline)",
        "source_commits": ["ccc60c9ebe8"],
        "add_only": True,
      },
      "engines": [{"name": k, "path": f"/verif/{k}", "serves_properties": sorted(v), "kind_free_text": ENG_KIND.get(k, "")} for k, v in sorted(engines.items())],
      "checks": checks,
      "not_applicable": na,
      "notes": "Technique family: deterministic simulation with fault injection. ./check <ID> [--tier quick|thorough] [--replay file]; VERIF_SEED selects the root seed (default 1). Exit 2 = harness/build error, never an alarm. known_findings.json lists repaired ('fixed') and recorded ('known') genuine defects.",
    }
    json.dump(m, open(os.path.join(HERE, "MANIFEST.json"), "w"), indent=1)
    print("claimed", len(checks), "not_applicable", len(na))

if __name__ == "__main__":
    main()
