#!/bin/bash
# tools/keep_seeded.sh <attack-dir> <variant-subdir|.> <seeded-id> <detected_by json string>
# copies patch.diff, demo, README, meta.json into /verif/seeded/<seeded-id>/ and appends what was confirmed.
set -e
AD="$1"; V="$2"; SID="$3"; DET="$4"
SRC="$AD/out/$V"
DST="/verif/seeded/$SID"
rm -rf "$DST"; mkdir -p "$DST"
cp "$SRC/patch.diff" "$DST/"
[ -f "$SRC/README.md" ] && cp "$SRC/README.md" "$DST/"
[ -d "$SRC/demo" ] && rsync -a --exclude target --exclude Cargo.lock "$SRC/demo" "$DST/"
for f in "$SRC"/*.rs "$SRC"/*.sh "$SRC"/*.log; do [ -f "$f" ] && cp "$f" "$DST/" || true; done
python3 - "$SRC/meta.json" "$DST/meta.json" "$DET" <<'PY'
import json,sys
try: m=json.load(open(sys.argv[1]))
except Exception: m={}
m["confirmation"]=json.loads(sys.argv[3])
json.dump(m,open(sys.argv[2],"w"),indent=1)
PY
echo "kept $DST"; du -sh "$DST"
