#!/bin/bash
# tools/new_attack.sh <ID> [suffix]  -> creates /tmp/attack-<ID><suffix>/{repo (git worktree of /repo HEAD),out} and prints the attacker prompt
set -e
ID="$1"; SUF="${2:-}"
D="/tmp/attack-$ID$SUF"
rm -rf "$D"; git -C /repo worktree prune
mkdir -p "$D/out"
git -C /repo worktree add --detach "$D/repo" HEAD >/dev/null 2>&1
python3 - "$ID" "$D" <<'PY'
import json,sys
pid,d=sys.argv[1],sys.argv[2]
for l in open('/verif/properties.jsonl'):
    p=json.loads(l)
    if p['id']==pid: break
print(f"""You are a careful Rust engineer playing the role of a *fault seeder* for a verification study. You have your own scratch git worktree of the repository hydro-project/hydro (pinned commit) at `{d}/repo` — work ONLY inside `{d}` (never touch `/repo` or `/verif`, never read `/verif`). The sandbox is offline: use `cargo ... --offline` (env `CARGO_NET_OFFLINE=true`); everything needed is in the local cargo cache; set `CARGO_TARGET_DIR={d}/target` so build output stays inside your scratch directory (the machine is shared and busy: build only the crates you need with `-p`, never the whole workspace). The worktree shares its git metadata with other people's worktrees: use only `git diff`, `git apply`, `git apply -R` and `git checkout -- .` there — never `git stash`, `git commit`, `git branch`, `git reset` or `git worktree`.

Here is a semantic property of the repository that should hold (JSON record: title, statement, quantifier, why ordinary tests cannot settle it, anchors = where in the code it lives):

{json.dumps(p, indent=1)}

Your job: produce TWO different, independent realistic changes (variant A and variant B, each on its own — deliver them as separate patches) to the repository's source (not to its tests) that each **break this property** while the code **still compiles** and the **existing tests still pass** (at least the test suites of the crates you touched, run with `cargo test -p <crate> --offline`; say exactly what you ran; if a crate's tests are very slow, run the relevant subset and say so). Each change must look like a plausible mistake or "optimisation" a developer could make — and it must need something *specific* to manifest: a particular interleaving or placement of `Pending`, a crash/fault/cancellation at a particular point, a multi-step sequence of operations, an unusual input or configuration, or two cooperating sites that each look fine alone. Do NOT produce a change that ordinary use would expose at once, and do not just delete a feature. Make the two variants break *different* clauses or different code paths of the property.

Deliver, in `{d}/out/A/` and `{d}/out/B/`:
1. `patch.diff` — `git diff` of that change alone against the worktree's HEAD (source change only; must apply with `git apply` to a clean checkout of the same commit).
2. a **demonstration**: a small test or program (preferably a self-contained cargo project under `out/A/demo/` that path-depends on crates under `{d}/repo/...`, with its own `[workspace]` table, a copy of `{d}/repo/Cargo.lock` and `rust-toolchain.toml`) that **fails with your change and passes without it**, plus `run_both_ways.sh` that runs it at clean HEAD (expect pass), applies patch.diff, runs it again (expect fail) and restores the worktree. Run it yourself and record commands and outputs in `README.md`.
3. `meta.json`: {{"property": "{pid}", "summary": "<what the change does>", "needs_to_manifest": "<the specific interleaving/fault/sequence/input it needs>", "files_touched": [...], "tests_run": ["<commands>"], "demo_cmd": "<command>"}}.

Keep each change small (a few lines). When done, leave the worktree clean (HEAD, no change applied) and reply with a short summary per variant: the diff, why existing tests do not notice it, and what is needed to trigger it. Do not delete `{d}`; I will.""")

PY
