#!/bin/bash
# tools/new_attack.sh <ID> [suffix]  -> creates /tmp/attack-<ID><suffix>/{repo (git worktree of /repo HEAD),out} and prints the attacker prompt
set -e
ID="$1"; SUF="${2:-}"
D="/tmp/attack-$ID$SUF"
rm -rf "$D"; git -C /repo worktree prune
mkdir -p "$D/out"
git -C /repo worktree add --detach "$D/repo" HEAD >/dev/null 2>&1
python3 - "$ID" "$D" <<'PY'
import json,sys
pid,d=sys.argv[1],sys.argv[2]
for l in open('/verif/properties.jsonl'):
    p=json.loads(l)
    if p['id']==pid: break
print(f"""You are a careful Rust engineer playing the role of a *fault seeder* for a verification study. You have your own scratch git worktree of the repository hydro-project/hydro (pinned commit) at `{d}/repo` — work ONLY inside `{d}` (never touch `/repo` or `/verif`, never read `/verif`). The sandbox is offline: use `cargo ... --offline` (env `CARGO_NET_OFFLINE=true`); everything needed is in the local cargo cache; set `CARGO_TARGET_DIR={d}/target` so build output stays inside your scratch directory.

Here is a semantic property of the repository that should hold (JSON record: title, statement, quantifier, why ordinary tests cannot settle it, anchors = where in the code it lives):

{json.dumps(p, indent=1)}

Your job: produce ONE realistic change to the repository's source (not to its tests) that **breaks this property** while the code **still compiles** and the **existing tests still pass** (at least the test suites of the crates you touched and their direct dependents, run with `cargo test -p <crate> --offline`; say exactly what you ran). The change must look like a plausible mistake or "optimisation" a developer could make — and it must need something *specific* to manifest: a particular interleaving or placement of `Pending`, a crash/fault/cancellation at a particular point, a multi-step sequence of operations, an unusual input, or two cooperating sites that each look fine alone. Do NOT produce a change that ordinary use would expose at once (e.g. every call returns garbage), and do not just delete a feature.

Deliver, in `{d}/out/`:
1. `patch.diff` — `git diff` of your change against the worktree's HEAD (source change only; must apply with `git apply` to a clean checkout of the same commit).
2. a **demonstration**: a small test or program (e.g. `demo_test.rs` plus a `README.md` saying where to put it / how to run it, or a self-contained cargo project under `{d}/out/demo/` that path-depends on `{d}/repo/...`) that **fails with your change and passes without it**. Run it both ways yourself and record the commands and the outputs in `README.md`.
3. `meta.json`: {{"property": "{pid}", "summary": "<what the change does>", "needs_to_manifest": "<the specific interleaving/fault/sequence/input it needs>", "files_touched": [...], "tests_run": ["<commands>"], "demo_cmd": "<command>"}}.

Keep the change small (a few lines). When done, leave the worktree with your change applied, and reply with a short summary: the diff, why existing tests do not notice it, and what is needed to trigger it. Do not clean up `{d}`; I will.""")
PY
