#!/bin/bash
# tools/eval_queue.sh "<P V>" ... : sequentially evaluate seeded variants (demo both ways, crate tests note, check against patch)
for pv in "$@"; do /verif/tools/eval_seeded.sh $pv; done
echo "queue done: $*" >> /var/tmp/eval-queue.log
