#!/bin/bash
# tools/final_sweep.sh [seed] : run every registered quick check once (VERIF_SEED=seed, default 1), record exit codes/timing,
# validate evidence + manifest against the schemas. Output: /var/tmp/final_sweep_<seed>.txt
cd /verif
SEED="${1:-1}"; OUT=/var/tmp/final_sweep_$SEED.txt; : > $OUT
IDS=$(python3 -c "import json;print(' '.join(c['property_id'] for c in json.load(open('MANIFEST.json'))['checks']))")
for id in $IDS; do
  t0=$(date +%s); rm -f evidence/$id.json
  VERIF_SEED=$SEED VERIF_TIER=quick ./check $id --tier quick > /var/tmp/sweep_$id.log 2>&1; rc=$?
  t1=$(date +%s)
  v=$(grep -c "^VIOLATION" /var/tmp/sweep_$id.log); k=$(grep -c "^KNOWN-FINDING" /var/tmp/sweep_$id.log)
  echo "$id rc=$rc wall=$((t1-t0))s violations=$v known=$k evidence=$([ -f evidence/$id.json ] && echo yes || echo MISSING)" | tee -a $OUT
done
python3-vt - <<'PY' | tee -a $OUT
import json,jsonschema,glob
es=json.load(open('/root/.vp/EVIDENCE.schema.json')); ms=json.load(open('/root/.vp/MANIFEST.schema.json'))
m=json.load(open('/verif/MANIFEST.json')); jsonschema.validate(m,ms); print("manifest valid; claimed",len(m['checks']),"n/a",len(m['not_applicable']))
bad=0
for c in m['checks']:
    try:
        e=json.load(open(c['evidence_file'])); jsonschema.validate(e,es)
        assert e['property_id']==c['property_id']
    except Exception as ex:
        bad+=1; print("EVIDENCE INVALID",c['property_id'],str(ex)[:200])
print("evidence invalid:",bad)
PY
