#!/bin/bash
# tools/eval_seeded.sh <PROP> <variant> [check args...] : confirm the seeder's demo both ways, then run ./check <PROP> against the patch
P="$1"; V="$2"; shift 2
AD="/tmp/attack-$P"; OUT="/var/tmp/eval-$P-$V.log"
{
echo "=== confirm demo ($P/$V)"; 
(cd "$AD" && (bash out/$V/run_both_ways.sh 2>&1 | tail -40))
echo "=== check against patch"
/verif/tools/mutant_run.sh "s$P$V" "$AD/out/$V/patch.diff" ./check "$P" "$@" 2>&1 | grep -E "violation class|VIOLATION|KNOWN|exited|HARNESS|done property" | cut -c1-600
} > "$OUT" 2>&1
echo "done $P $V" >> "$OUT"
