#!/bin/bash
# tools/mutant_run.sh <name> <patch-file|-> <cmd...>
# Runs <cmd...> (e.g. "./check C16 --tier quick") in a scratch copy of /verif whose path
# dependencies point at a scratch git worktree of /repo with <patch-file> applied ("-" = no patch).
# Nothing in /repo or /verif is modified; the scratch tree (and its build output) is removed at
# the end unless KEEP=1. Scratch root: /var/tmp/verif-mut-<name>.
set -u
NAME="$1"; PATCH="$2"; shift 2
WT="/var/tmp/verif-mut-$NAME"
rm -rf "$WT"; git -C /repo worktree prune
mkdir -p "$WT"
git -C /repo worktree add --detach "$WT/repo" HEAD >/dev/null 2>&1 || { echo "worktree add failed"; exit 2; }
if [ "$PATCH" != "-" ]; then
  (cd "$WT/repo" && git apply "$PATCH") || { echo "patch does not apply"; git -C /repo worktree remove --force "$WT/repo"; rm -rf "$WT"; exit 2; }
fi
mkdir -p "$WT/verif"
rsync -a --exclude 'target' --exclude 'target-*' --exclude '.git' --exclude 'replays' --exclude 'evidence' --exclude 'seeded' /verif/ "$WT/verif/"
mkdir -p "$WT/verif/replays" "$WT/verif/evidence"
# point every path dependency and cargo config at the scratch copies
grep -rlE '/repo/|/verif/' "$WT/verif" --include=Cargo.toml --include=config.toml --include='*.sh' --include=check --include='*.rs' --include='*.py' 2>/dev/null | while read -r f; do
  sed -i "s#/repo/#$WT/repo/#g; s#\"/repo\"#\"$WT/repo\"#g; s#/verif/#$WT/verif/#g; s#\"/verif\"#\"$WT/verif\"#g" "$f"
done
cd "$WT/verif"
export VERIF_DIR="$WT/verif"
"$@"
RC=$?
echo "mutant_run: '$*' exited $RC"
if [ "${KEEP:-0}" != "1" ]; then
  cd /; git -C /repo worktree remove --force "$WT/repo" >/dev/null 2>&1; rm -rf "$WT"; git -C /repo worktree prune
fi
exit $RC
