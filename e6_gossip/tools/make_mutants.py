#!/usr/bin/env python3
"""Regenerates /verif/sensitivity/{C01,C02,C05}/mutN.diff from (file, old, new) edits of /repo files.
Patches are applied by tools/mutant_run.sh to a scratch git worktree, never to /repo itself."""
import difflib, os, sys

M = {
 "C01": [
  ("mut1", "lattices_macro/src/lib.rs", "derive(Lattice)/Pair::merge short-circuits on the first changed field",
   "changed |= #root::Merge::merge(&mut self.#field_names, other.#field_names);",
   "changed = changed || #root::Merge::merge(&mut self.#field_names, other.#field_names);"),
  ("mut2", "lattices/src/map_union.rs", "MapUnion::merge drops the is_bot filter",
   "            .filter(|(_k_other, val_other)| !val_other.is_bot())\n            .filter_map(|(k_other, val_other)| {\n                if let Some(mut val_self) = self.0.get_mut(&k_other) {",
   "            .filter_map(|(k_other, val_other)| {\n                if let Some(mut val_self) = self.0.get_mut(&k_other) {"),
  ("mut3", "lattices/src/vec_union.rs", "VecUnion::merge does not extend with the longer tail",
   ".extend(other.vec.drain(self.vec.len()..).map(LatSelf::lattice_from));",
   ".extend(other.vec.drain(other.vec.len()..).map(LatSelf::lattice_from));"),
  ("mut4", "lattices/src/ord.rs", "Max::merge compares with swapped arguments (keeps the smaller value)",
   "        if self.0 < other.0 {\n            self.0 = other.0;\n            true",
   "        if other.0 < self.0 {\n            self.0 = other.0;\n            true"),
  ("mut5", "lattices/src/conflict.rs", "Conflict::merge ignores an incoming conflict (top)",
   "&& other.0.is_none_or(|val_other| val_self != &val_other)",
   "&& other.0.is_some_and(|val_other| val_self != &val_other)"),
  ("mut6", "lattices/src/dom_pair.rs", "DomPair::merge replaces instead of merging the values on equal keys",
   "            Some(Equal) => self.val.merge(other.val),\n            Some(Less) => {",
   "            Some(Equal) | Some(Less) => {"),
  ("mut7", "lattices/src/union_find.rs", "UnionFind::union links the item instead of its root",
   "self.0.insert(b_root, Cell::new(a_root));",
   "self.0.insert(b, Cell::new(a_root));"),
 ],
 "C02": [
  ("mut1", "lattices/src/set_union.rs", "SetUnion::merge length check off by one (>=): reports change when nothing was added",
   "        self.0.len() > old_len\n", "        self.0.len() >= old_len\n"),
  ("mut2", "lattices/src/set_union.rs", "SetUnion::merge length check off by one (+1): misses a single added item",
   "        self.0.len() > old_len\n", "        self.0.len() > old_len + 1\n"),
  ("mut3", "lattices/src/map_union.rs", "MapUnion::merge returns true on bottom-only inserts (is_bot filter dropped)",
   "            .filter(|(_k_other, val_other)| !val_other.is_bot())\n            .filter_map(|(k_other, val_other)| {\n                if let Some(mut val_self) = self.0.get_mut(&k_other) {",
   "            .filter_map(|(k_other, val_other)| {\n                if let Some(mut val_self) = self.0.get_mut(&k_other) {"),
  ("mut4", "lattices/src/with_bot.rs", "WithBot::merge reports false on bot -> value",
   "                *this = Some(LatticeFrom::lattice_from(other_inner));\n                true",
   "                *this = Some(LatticeFrom::lattice_from(other_inner));\n                false"),
  ("mut5", "lattices/src/ord.rs", "Max::merge compares with swapped arguments (flag no longer agrees with the order)",
   "        if self.0 < other.0 {\n            self.0 = other.0;\n            true",
   "        if other.0 < self.0 {\n            self.0 = other.0;\n            true"),
  ("mut6", "lattices/src/set_union_with_tombstones.rs", "SetUnionWithTombstones::merge ignores tombstone growth in its flag",
   "        old_set_len < self.set.len() || old_tombstones_len < self.tombstones.len()\n",
   "        let _ = old_tombstones_len;\n        old_set_len < self.set.len()\n"),
 ],
 "C05": [
  ("mut1", "lattices/src/set_union_with_tombstones.rs", "merge extends the tombstones but forgets to remove the tombstoned items from the live set",
   "            .extend(other.tombstones.into_iter().inspect(|x| {\n                self.set.remove(x);\n            }));",
   "            .extend(other.tombstones.into_iter());"),
  ("mut2", "lattices/src/set_union_with_tombstones.rs", "incoming live items are not filtered by the local tombstones (only the incoming tombstones are applied)",
   "        self.set.extend(\n            other\n                .set\n                .into_iter()\n                .filter(|x| !self.tombstones.contains(x)),\n        );",
   "        self.set.extend(other.set.into_iter());"),
  ("mut3", "lattices/src/tombstone.rs", "roaring back end truncates u64 keys to u32 when storing tombstones",
   "        self.bitmap.extend(iter);", "        self.bitmap.extend(iter.into_iter().map(|x| x as u32 as u64));"),
  ("mut4", "lattices/src/tombstone.rs", "roaring back end truncates u64 keys to u32 in TombstoneSet::contains",
   "impl TombstoneSet<u64> for RoaringTombstoneSet {\n    fn contains(&self, key: &u64) -> bool {\n        self.bitmap.contains(*key)",
   "impl TombstoneSet<u64> for RoaringTombstoneSet {\n    fn contains(&self, key: &u64) -> bool {\n        self.bitmap.contains(*key as u32 as u64)"),
  ("mut5", "lattices/src/tombstone.rs", "FST rebuild in Extend drops the last (greatest) key",
   "        let mut builder = SetBuilder::memory();\n        for key in keys {\n            // FST builder insert only fails if keys are not sorted, which we ensure above\n            builder\n                .insert(&key)",
   "        let mut builder = SetBuilder::memory();\n        for key in keys.iter().take(keys.len().saturating_sub(1)) {\n            // FST builder insert only fails if keys are not sorted, which we ensure above\n            builder\n                .insert(key)"),
  ("mut6", "lattices/src/map_union_with_tombstones.rs", "map merge extends the tombstones but forgets to remove the tombstoned keys from the map",
   "            .extend(other_tombstones.into_iter().inspect(|k| {\n                self.map.remove(k);\n            }));",
   "            .extend(other_tombstones.into_iter());"),
  ("mut7", "lattices/src/map_union_with_tombstones.rs", "map merge does not filter incoming entries by the local tombstones",
   "                !val_other.is_bot() && !self.tombstones.contains(k_other)",
   "                !val_other.is_bot()"),
 ],
}
out = "/verif/sensitivity"
for prop, muts in M.items():
    for name, path, what, old, new in muts:
        src = open("/repo/" + path).read()
        assert src.count(old) == 1, (prop, name, src.count(old))
        dst = src.replace(old, new)
        d = difflib.unified_diff(src.splitlines(True), dst.splitlines(True), "a/" + path, "b/" + path)
        os.makedirs(f"{out}/{prop}", exist_ok=True)
        with open(f"{out}/{prop}/{name}.diff", "w") as f:
            f.write(f"# {prop} {name}: {what}\n")
            f.writelines(d)
        print(prop, name, path, what)
