#!/bin/bash
# e6_gossip/tools/run_mutants.sh [PROP ...]  — sensitivity campaign (DESIGN §3.7) for C01/C02/C05.
# For every /verif/sensitivity/<PROP>/mutN.diff: tools/mutant_run.sh builds e6_gossip against a scratch
# worktree of /repo with the patch applied and runs the quick tier. Build output is shared in
# /var/tmp/verif-scratch-e6_gossip-target (registry crates are reused between mutants); logs go to
# /var/tmp/verif-scratch-e6_gossip-logs. Both are scratch and may be deleted at any time.
set -u
T=/var/tmp/verif-scratch-e6_gossip-target
L=/var/tmp/verif-scratch-e6_gossip-logs
mkdir -p "$L"
PROPS="${*:-C01 C02 C05}"
for P in $PROPS; do
  for D in /verif/sensitivity/$P/mut*.diff; do
    N=$(basename "$D" .diff)
    LOG="$L/$P-$N.log"
    /verif/tools/mutant_run.sh "e6-$P-$N" "$D" bash -c "cd e6_gossip && CARGO_TARGET_DIR=$T cargo build --release --offline >$L/build-$P-$N.log 2>&1 || { echo BUILD-FAILED; tail -30 $L/build-$P-$N.log; exit 2; }; $T/release/e6_gossip $P --tier quick ${EXTRA:-}" >"$LOG" 2>&1
    RC=$?
    echo "== $P $N rc=$RC: $(head -1 "$D")"
    grep -vE "^mutant_run" "$LOG" | grep -E "^violation class=|^HARNESS|BUILD-FAILED|^done property" | cut -c1-400
  done
done
