use lattices::tombstone::FstTombstoneSet;
use std::time::Instant;
fn main() {
    let mut f = FstTombstoneSet::<String>::new();
    let t = Instant::now();
    for i in 0..2000 { f.extend([format!("k{}", i % 5)]); }
    println!("extend: {:?} per call", t.elapsed() / 2000);
    let t = Instant::now();
    for _ in 0..2000 { let g = f.clone(); std::hint::black_box(g.into_iter().count()); }
    println!("clone+into_iter: {:?} per call", t.elapsed() / 2000);
    let t = Instant::now();
    for _ in 0..2000 { let g = f.clone(); std::hint::black_box(&g); }
    println!("clone: {:?} per call", t.elapsed() / 2000);
}
