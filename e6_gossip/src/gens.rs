//! Lattice types under test (one monomorphic scenario each): replica-side carriers, wire
//! carriers (heterogeneous `Merge<Other>`), generators of legal deltas over small domains.

use std::cell::Cell;
use std::collections::{BTreeMap, BTreeSet, HashMap, HashSet};

use lattices::collections::{ArrayMap, ArraySet, OptionMap, OptionSet, SingletonMap, SingletonSet, VecMap};
use lattices::map_union::{
    MapUnion, MapUnionArrayMap, MapUnionBTreeMap, MapUnionHashMap, MapUnionOptionMap, MapUnionSingletonMap, MapUnionVec,
};
use lattices::set_union::{
    SetUnion, SetUnionArray, SetUnionBTreeSet, SetUnionHashSet, SetUnionOptionSet, SetUnionSingletonSet, SetUnionVec,
};
use lattices::union_find::{
    UnionFind, UnionFindArrayMap, UnionFindBTreeMap, UnionFindHashMap, UnionFindOptionMap, UnionFindSingletonMap, UnionFindVec,
};
use lattices::{Conflict, DomPair, Lattice, LatticeFrom, Max, Merge, Min, Pair, Point, VecUnion, WithBot, WithTop};
use simcore::Sim;

use crate::canon::Canon;
use crate::net::LatticeGen;

/// `match a { AE::A(x) => match b { BE::B(y) => body, .. }, .. }` over the cross product.
#[macro_export]
macro_rules! cross2 {
    ($a:expr, $AE:ident [$($A:ident),*], $b:expr, $BE:ident $bs:tt, |$x:ident, $y:ident| $body:expr) => {
        match $a { $( $AE::$A($x) => $crate::cross2!(@in $b, $BE $bs, $y, $body, unreachable!()) ),* }
    };
    ($a:expr, $AE:ident [$($A:ident),*], $b:expr, $BE:ident $bs:tt, |$x:ident, $y:ident| $body:expr, else $dflt:expr) => {
        match $a { $( $AE::$A($x) => $crate::cross2!(@in $b, $BE $bs, $y, $body, $dflt) ),* }
    };
    (@in $b:expr, $BE:ident [$($B:ident),*], $y:ident, $body:expr, $dflt:expr) => {
        match $b { $( $BE::$B($y) => $body, )* #[allow(unreachable_patterns)] _ => $dflt }
    };
}
/// `match a { AE::A(x) => body, .. }`
#[macro_export]
macro_rules! on {
    ($a:expr, $AE:ident [$($A:ident),*], |$x:ident| $body:expr) => {
        match $a { $( $AE::$A($x) => $body ),* }
    };
    ($a:expr, $AE:ident [$($A:ident),*], |$x:ident| $body:expr, else $dflt:expr) => {
        match $a { $( $AE::$A($x) => $body, )* #[allow(unreachable_patterns)] _ => $dflt }
    };
}

/// Items of the subset of `0..d` given by the bits of `mask`.
pub fn subset(mask: u64, d: u8) -> Vec<u8> {
    (0..d).filter(|i| mask >> i & 1 == 1).collect()
}
fn dom(sim: &mut Sim) -> u8 {
    sim.choose("domain", 2, 4) as u8
}
fn item(sim: &mut Sim, d: u8) -> u8 {
    sim.choose("item", 0, d as u64 - 1) as u8
}
fn mask(sim: &mut Sim, d: u8) -> u64 {
    sim.choose("subset", 0, (1u64 << d) - 1)
}
/// Per-run knob: do the replicas start from generated (non-bottom, mutually different) values or
/// from bottom? A start value is a durable, acknowledged update of its replica.
pub fn nonbottom_start(sim: &mut Sim) -> bool {
    sim.flip("nonbottom_start", 2, 3)
}
/// Two distinct items of `0..d` (d >= 2): array carriers are generated duplicate-free.
fn two_items(sim: &mut Sim, d: u8) -> [u8; 2] {
    let a = item(sim, d);
    let off = sim.choose("item2", 1, d as u64 - 1) as u8;
    [a, (a + off) % d]
}

// =============================================================================================
// SetUnion: replica carriers HashSet / BTreeSet, wire carriers HashSet / BTreeSet / Vec / Array /
// Option / Singleton
// =============================================================================================

#[derive(Clone)]
pub enum SuSt {
    H(SetUnionHashSet<u8>),
    B(SetUnionBTreeSet<u8>),
}
#[derive(Clone)]
pub enum SuMsg {
    H(SetUnionHashSet<u8>),
    B(SetUnionBTreeSet<u8>),
    V(SetUnionVec<u8>),
    A(SetUnionArray<u8, 2>),
    O(SetUnionOptionSet<u8>),
    S(SetUnionSingletonSet<u8>),
}
pub struct SetUnionGen {
    d: u8,
    inits: Vec<SuSt>,
}
fn su_items(st: &SuSt) -> Vec<u8> {
    let mut v: Vec<u8> = match st {
        #[allow(clippy::disallowed_methods)]
        SuSt::H(s) => s.as_reveal_ref().iter().copied().collect(),
        SuSt::B(s) => s.as_reveal_ref().iter().copied().collect(),
    };
    v.sort();
    v
}
impl LatticeGen for SetUnionGen {
    const NAME: &'static str = "set_union";
    type State = SuSt;
    type Msg = SuMsg;
    fn new(sim: &mut Sim, n: usize) -> Self {
        let d = dom(sim);
        let nb = nonbottom_start(sim);
        let inits = (0..n)
            .map(|_| {
                let items = if nb { subset(mask(sim, d), d) } else { vec![] };
                if sim.choose("carrier", 0, 1) == 0 { SuSt::H(SetUnion::new(items.into_iter().collect())) } else { SuSt::B(SetUnion::new(items.into_iter().collect())) }
            })
            .collect();
        SetUnionGen { d, inits }
    }
    fn init(&self, i: usize) -> SuSt {
        self.inits[i].clone()
    }
    fn delta(&mut self, sim: &mut Sim, _i: usize, _st: &SuSt) -> SuMsg {
        let d = self.d;
        match sim.choose("delta_kind", 0, 5) {
            0 => SuMsg::S(SetUnion::new(SingletonSet(item(sim, d)))),
            1 => SuMsg::O(SetUnion::new(OptionSet(if sim.flip("none", 1, 5) { None } else { Some(item(sim, d)) }))),
            2 => SuMsg::A(SetUnion::new(ArraySet(two_items(sim, d)))),
            3 => SuMsg::V(SetUnion::new(subset(mask(sim, d), d))),
            4 => SuMsg::H(SetUnion::new(subset(mask(sim, d), d).into_iter().collect())),
            _ => SuMsg::B(SetUnion::new(subset(mask(sim, d), d).into_iter().collect())),
        }
    }
    fn snapshot(&self, sim: &mut Sim, st: &SuSt) -> SuMsg {
        let items = su_items(st);
        let want = sim.choose("wire_carrier", 0, 5);
        // REAL: LatticeFrom between carriers
        macro_rules! conv {
            ($V:ident) => {
                on!(st.clone(), SuSt[H, B], |s| SuMsg::$V(LatticeFrom::lattice_from(s)))
            };
        }
        match (want, items.len()) {
            (0, _) => conv!(H),
            (1, _) => conv!(B),
            (2, _) => conv!(V),
            (3, 0) => SuMsg::O(SetUnion::new(OptionSet(None))),
            (3, 1) => SuMsg::O(SetUnion::new(OptionSet(Some(items[0])))),
            (4, 1) => SuMsg::S(SetUnion::new(SingletonSet(items[0]))),
            (5, 2) => SuMsg::A(SetUnion::new(ArraySet([items[0], items[1]]))),
            (3, _) => conv!(H),
            (4, _) => conv!(B),
            _ => conv!(V),
        }
    }
    fn merge(st: &mut SuSt, m: SuMsg) -> bool {
        cross2!(st, SuSt[H, B], m, SuMsg[H, B, V, A, O, S], |s, m| Merge::merge(s, m))
    }
    fn eq(a: &SuSt, b: &SuSt) -> bool {
        cross2!(a, SuSt[H, B], b, SuSt[H, B], |x, y| x == y)
    }
    fn msg_le(m: &SuMsg, st: &SuSt) -> Option<bool> {
        // SetUnion<Vec> has no PartialOrd (Vec is not a cc_traits Set)
        cross2!(st, SuSt[H, B], m, SuMsg[H, B, A, O, S], |s, m| Some(m <= s), else None)
    }
    fn show(st: &SuSt) -> String {
        on!(st, SuSt[H, B], |s| s.canon())
    }
    fn show_msg(m: &SuMsg) -> String {
        match m {
            SuMsg::H(x) => format!("hash{}", x.canon()),
            SuMsg::B(x) => format!("btree{}", x.canon()),
            SuMsg::V(x) => format!("vec{}", x.canon()),
            SuMsg::A(x) => format!("array{}", x.canon()),
            SuMsg::O(x) => format!("option{}", x.canon()),
            SuMsg::S(x) => format!("single{}", x.canon()),
        }
    }
}

// =============================================================================================
// MapUnion over HashMap / BTreeMap replicas, wire carriers HashMap / BTreeMap / VecMap / ArrayMap
// / OptionMap / SingletonMap; three value lattices
// =============================================================================================

/// Build a lattice value from a small code (generator side).
pub trait FromCode {
    fn from_code(c: u8) -> Self;
}
impl FromCode for Max<u8> {
    fn from_code(c: u8) -> Self {
        Max::new(c % 4) // 0 == bottom
    }
}
impl FromCode for Min<u8> {
    fn from_code(c: u8) -> Self {
        Min::new(if c % 4 == 0 { u8::MAX } else { c % 4 }) // u8::MAX == bottom
    }
}
impl FromCode for WithBot<Max<u8>> {
    fn from_code(c: u8) -> Self {
        // None and Some(Max(0)) are both bottom
        if c % 5 == 0 { WithBot::new(None) } else { WithBot::new(Some(Max::new(c % 5 - 1))) }
    }
}
impl FromCode for SetUnionHashSet<u8> {
    fn from_code(c: u8) -> Self {
        SetUnion::new(subset(c as u64 % 8, 3).into_iter().collect())
    }
}
impl FromCode for SetUnionBTreeSet<u8> {
    fn from_code(c: u8) -> Self {
        SetUnion::new(subset(c as u64 % 8, 3).into_iter().collect())
    }
}
impl FromCode for SetUnionVec<u8> {
    fn from_code(c: u8) -> Self {
        SetUnion::new(subset(c as u64 % 8, 3))
    }
}
impl FromCode for SetUnionArray<u8, 2> {
    fn from_code(c: u8) -> Self {
        SetUnion::new(ArraySet([c % 3, (c % 3 + 1 + (c / 3) % 2) % 3]))
    }
}
impl FromCode for SetUnionOptionSet<u8> {
    fn from_code(c: u8) -> Self {
        SetUnion::new(OptionSet(if c % 4 == 0 { None } else { Some(c % 4 - 1) }))
    }
}
impl FromCode for SetUnionSingletonSet<u8> {
    fn from_code(c: u8) -> Self {
        SetUnion::new(SingletonSet(c % 3))
    }
}

macro_rules! map_union_gen {
    ($Gen:ident, $St:ident, $Msg:ident, $name:literal,
     $VH:ty, $VB:ty, $VV:ty, $VA:ty, $VO:ty, $VS:ty, le: $le:tt) => {
        #[derive(Clone)]
        pub enum $St {
            H(MapUnionHashMap<u8, $VH>),
            B(MapUnionBTreeMap<u8, $VB>),
        }
        #[derive(Clone)]
        pub enum $Msg {
            H(MapUnionHashMap<u8, $VH>),
            B(MapUnionBTreeMap<u8, $VB>),
            V(MapUnionVec<u8, $VV>),
            A(MapUnionArrayMap<u8, $VA, 2>),
            O(MapUnionOptionMap<u8, $VO>),
            S(MapUnionSingletonMap<u8, $VS>),
        }
        pub struct $Gen {
            d: u8,
            inits: Vec<$St>,
        }
        impl LatticeGen for $Gen {
            const NAME: &'static str = $name;
            type State = $St;
            type Msg = $Msg;
            fn new(sim: &mut Sim, n: usize) -> Self {
                let d = dom(sim);
                let nb = nonbottom_start(sim);
                let inits = (0..n)
                    .map(|_| {
                        let ks = if nb { subset(mask(sim, d), d) } else { vec![] };
                        if sim.choose("carrier", 0, 1) == 0 {
                            $St::H(MapUnion::new(ks.into_iter().map(|k| (k, <$VH>::from_code(sim.choose("val", 0, 15) as u8))).collect::<HashMap<_, _>>()))
                        } else {
                            $St::B(MapUnion::new(ks.into_iter().map(|k| (k, <$VB>::from_code(sim.choose("val", 0, 15) as u8))).collect::<BTreeMap<_, _>>()))
                        }
                    })
                    .collect();
                $Gen { d, inits }
            }
            fn init(&self, i: usize) -> $St {
                self.inits[i].clone()
            }
            fn delta(&mut self, sim: &mut Sim, _i: usize, _st: &$St) -> $Msg {
                let d = self.d;
                let code = |sim: &mut Sim| sim.choose("val", 0, 15) as u8;
                match sim.choose("delta_kind", 0, 5) {
                    0 => {
                        let k = item(sim, d);
                        $Msg::S(MapUnion::new(SingletonMap(k, <$VS>::from_code(code(sim)))))
                    }
                    1 => {
                        let e = if sim.flip("none", 1, 5) { None } else { Some((item(sim, d), <$VO>::from_code(code(sim)))) };
                        $Msg::O(MapUnion::new(OptionMap(e)))
                    }
                    2 => {
                        let ks = two_items(sim, d);
                        let vs = [<$VA>::from_code(code(sim)), <$VA>::from_code(code(sim))];
                        $Msg::A(MapUnion::new(ArrayMap { keys: ks, vals: vs }))
                    }
                    3 => {
                        let ks = subset(mask(sim, d), d);
                        let vs = ks.iter().map(|_| <$VV>::from_code(code(sim))).collect();
                        $Msg::V(MapUnion::new(VecMap::new(ks, vs)))
                    }
                    4 => {
                        let ks = subset(mask(sim, d), d);
                        $Msg::H(MapUnion::new(ks.into_iter().map(|k| (k, <$VH>::from_code(code(sim)))).collect::<HashMap<_, _>>()))
                    }
                    _ => {
                        let ks = subset(mask(sim, d), d);
                        $Msg::B(MapUnion::new(ks.into_iter().map(|k| (k, <$VB>::from_code(code(sim)))).collect::<BTreeMap<_, _>>()))
                    }
                }
            }
            fn snapshot(&self, sim: &mut Sim, st: &$St) -> $Msg {
                // REAL: LatticeFrom between map carriers (recursively converts the values)
                if sim.flip("wire_btree", 1, 2) {
                    on!(st.clone(), $St[H, B], |s| $Msg::B(LatticeFrom::lattice_from(s)))
                } else {
                    on!(st.clone(), $St[H, B], |s| $Msg::H(LatticeFrom::lattice_from(s)))
                }
            }
            fn merge(st: &mut $St, m: $Msg) -> bool {
                cross2!(st, $St[H, B], m, $Msg[H, B, V, A, O, S], |s, m| Merge::merge(s, m))
            }
            fn eq(a: &$St, b: &$St) -> bool {
                cross2!(a, $St[H, B], b, $St[H, B], |x, y| x == y)
            }
            fn msg_le(m: &$Msg, st: &$St) -> Option<bool> {
                cross2!(st, $St[H, B], m, $Msg $le, |s, m| Some(m <= s), else None)
            }
            fn show(st: &$St) -> String {
                on!(st, $St[H, B], |s| s.canon())
            }
            fn show_msg(m: &$Msg) -> String {
                match m {
                    $Msg::H(x) => format!("hash{}", x.canon()),
                    $Msg::B(x) => format!("btree{}", x.canon()),
                    $Msg::V(x) => format!("vec{}", x.canon()),
                    $Msg::A(x) => format!("array{}", x.canon()),
                    $Msg::O(x) => format!("option{}", x.canon()),
                    $Msg::S(x) => format!("single{}", x.canon()),
                }
            }
        }
    };
}

map_union_gen!(MapMaxGen, MmSt, MmMsg, "map_union_max",
    Max<u8>, Max<u8>, Max<u8>, Max<u8>, Max<u8>, Max<u8>, le: [H, B, V, A, O, S]);
map_union_gen!(MapSetGen, MsSt, MsMsg, "map_union_set",
    SetUnionHashSet<u8>, SetUnionBTreeSet<u8>, SetUnionVec<u8>, SetUnionArray<u8, 2>, SetUnionOptionSet<u8>, SetUnionSingletonSet<u8>,
    le: [H, B, A, O, S]);
map_union_gen!(MapBotGen, MbSt, MbMsg, "map_union_withbot",
    WithBot<Max<u8>>, WithBot<Max<u8>>, WithBot<Max<u8>>, WithBot<Max<u8>>, WithBot<Max<u8>>, WithBot<Max<u8>>,
    le: [H, B, V, A, O, S]);

// =============================================================================================
// Lattices whose replica type and wire type coincide
// =============================================================================================

pub trait Simple: Merge<Self> + LatticeFrom<Self> + Clone + PartialEq + PartialOrd + Canon {
    const NAME: &'static str;
    /// must all replicas of a run start from the same value? (Point: only equal values merge)
    const SHARED_START: bool = false;
    /// a start value (`nb` false: the bottom, where the type has one)
    fn initial(sim: &mut Sim, d: u8, nb: bool) -> Self;
    fn gen_delta(sim: &mut Sim, d: u8, cur: &Self) -> Self;
    /// `Point` only: a value that must not be mergeable into `cur`
    const HAS_INEQUAL_POINT: bool = false;
    fn inequal(_sim: &mut Sim, _d: u8, _cur: &Self) -> Option<Self> {
        None
    }
}
pub struct SimpleGen<T> {
    d: u8,
    inits: Vec<T>,
}
impl<T: Simple> LatticeGen for SimpleGen<T> {
    const NAME: &'static str = T::NAME;
    type State = T;
    type Msg = T;
    fn new(sim: &mut Sim, n: usize) -> Self {
        let d = dom(sim);
        let nb = nonbottom_start(sim);
        let inits = if T::SHARED_START {
            let v = T::initial(sim, d, nb);
            (0..n).map(|_| v.clone()).collect()
        } else {
            (0..n).map(|_| T::initial(sim, d, nb)).collect()
        };
        SimpleGen { d, inits }
    }
    fn init(&self, i: usize) -> T {
        self.inits[i].clone()
    }
    fn delta(&mut self, sim: &mut Sim, _i: usize, st: &T) -> T {
        T::gen_delta(sim, self.d, st)
    }
    fn snapshot(&self, _sim: &mut Sim, st: &T) -> T {
        LatticeFrom::lattice_from(st.clone())
    }
    fn merge(st: &mut T, m: T) -> bool {
        Merge::merge(st, m)
    }
    fn eq(a: &T, b: &T) -> bool {
        a == b
    }
    fn msg_le(m: &T, st: &T) -> Option<bool> {
        Some(m <= st)
    }
    fn show(st: &T) -> String {
        st.canon()
    }
    fn show_msg(m: &T) -> String {
        m.canon()
    }
    const HAS_INEQUAL_POINT: bool = T::HAS_INEQUAL_POINT;
    fn inequal_point_msg(&self, sim: &mut Sim, st: &T) -> Option<T> {
        T::inequal(sim, self.d, st)
    }
}

/// A point value different from `x` (domain 0..d, d >= 2).
fn other_point(sim: &mut Sim, d: u8, x: u8) -> u8 {
    (x + sim.choose("point_off", 1, d as u64 - 1) as u8) % d
}

impl Simple for Max<u8> {
    const NAME: &'static str = "max";
    fn initial(sim: &mut Sim, _d: u8, nb: bool) -> Self {
        if nb { Max::new(sim.choose("val", 0, 6) as u8) } else { Default::default() }
    }
    fn gen_delta(sim: &mut Sim, _d: u8, _cur: &Self) -> Self {
        Max::new(sim.choose("val", 0, 6) as u8)
    }
}
impl Simple for Min<u8> {
    const NAME: &'static str = "min";
    fn initial(sim: &mut Sim, _d: u8, nb: bool) -> Self {
        if nb { Min::new(sim.choose("val", 0, 6) as u8) } else { Default::default() }
    }
    fn gen_delta(sim: &mut Sim, _d: u8, _cur: &Self) -> Self {
        let v = sim.choose("val", 0, 6) as u8;
        Min::new(if v == 6 { u8::MAX } else { v })
    }
}
impl Simple for Conflict<u8> {
    const NAME: &'static str = "conflict";
    /// no bottom: the replicas start from the same scalar unless `nb` (then they may disagree)
    fn initial(sim: &mut Sim, d: u8, nb: bool) -> Self {
        Conflict::new(Some(if nb { item(sim, d) } else { 0 }))
    }
    fn gen_delta(sim: &mut Sim, d: u8, cur: &Self) -> Self {
        match sim.weighted("conflict_delta", &[6, 3, 1]) {
            // most updates re-assert the value the replica already has (like a Point)
            0 => cur.clone(),
            1 => Conflict::new(Some(item(sim, d))),
            _ => Conflict::new(None),
        }
    }
}
impl Simple for Point<u8, ()> {
    const NAME: &'static str = "point";
    const SHARED_START: bool = true;
    fn initial(sim: &mut Sim, d: u8, _nb: bool) -> Self {
        Point::new(item(sim, d))
    }
    /// documented precondition: only equal values are ever merged
    fn gen_delta(_sim: &mut Sim, _d: u8, cur: &Self) -> Self {
        Point::new(cur.val)
    }
    const HAS_INEQUAL_POINT: bool = true;
    fn inequal(sim: &mut Sim, d: u8, cur: &Self) -> Option<Self> {
        Some(Point::new(other_point(sim, d, cur.val)))
    }
}
impl Simple for () {
    const NAME: &'static str = "unit";
    fn initial(_sim: &mut Sim, _d: u8, _nb: bool) -> Self {}
    fn gen_delta(_sim: &mut Sim, _d: u8, _cur: &Self) -> Self {}
}

// =============================================================================================
// One replica type, several wire types
// =============================================================================================

// ---- WithBot<SetUnion<_>>
pub type WbSt = WithBot<SetUnionHashSet<u8>>;
#[derive(Clone)]
pub enum WbMsg {
    H(WithBot<SetUnionHashSet<u8>>),
    B(WithBot<SetUnionBTreeSet<u8>>),
    O(WithBot<SetUnionOptionSet<u8>>),
    S(WithBot<SetUnionSingletonSet<u8>>),
}
pub struct WithBotGen {
    d: u8,
    inits: Vec<WbSt>,
}
impl LatticeGen for WithBotGen {
    const NAME: &'static str = "with_bot";
    type State = WbSt;
    type Msg = WbMsg;
    fn new(sim: &mut Sim, n: usize) -> Self {
        let d = dom(sim);
        let nb = nonbottom_start(sim);
        let inits = (0..n)
            .map(|_| if nb && !sim.flip("bot", 1, 3) { WithBot::new(Some(SetUnion::new(subset(mask(sim, d), d).into_iter().collect()))) } else { WithBot::new(None) })
            .collect();
        WithBotGen { d, inits }
    }
    fn init(&self, i: usize) -> WbSt {
        self.inits[i].clone()
    }
    fn delta(&mut self, sim: &mut Sim, _i: usize, _st: &WbSt) -> WbMsg {
        let d = self.d;
        match sim.choose("delta_kind", 0, 4) {
            0 => WbMsg::S(WithBot::new(Some(SetUnion::new(SingletonSet(item(sim, d)))))),
            1 => WbMsg::O(WithBot::new(Some(SetUnion::new(OptionSet(if sim.flip("none", 1, 3) { None } else { Some(item(sim, d)) }))))),
            2 => WbMsg::H(WithBot::new(Some(SetUnion::new(subset(mask(sim, d), d).into_iter().collect())))),
            3 => WbMsg::B(WithBot::new(Some(SetUnion::new(subset(mask(sim, d), d).into_iter().collect())))),
            _ => WbMsg::S(WithBot::new(None)),
        }
    }
    fn snapshot(&self, sim: &mut Sim, st: &WbSt) -> WbMsg {
        if sim.flip("wire_btree", 1, 2) { WbMsg::B(LatticeFrom::lattice_from(st.clone())) } else { WbMsg::H(st.clone()) }
    }
    fn merge(st: &mut WbSt, m: WbMsg) -> bool {
        on!(m, WbMsg[H, B, O, S], |m| Merge::merge(st, m))
    }
    fn eq(a: &WbSt, b: &WbSt) -> bool {
        a == b
    }
    fn msg_le(m: &WbMsg, st: &WbSt) -> Option<bool> {
        on!(m, WbMsg[H, B, O, S], |m| Some(m <= st))
    }
    fn show(st: &WbSt) -> String {
        st.canon()
    }
    fn show_msg(m: &WbMsg) -> String {
        on!(m, WbMsg[H, B, O, S], |m| m.canon())
    }
}

// ---- WithTop<SetUnion<_>>
pub type WtSt = WithTop<SetUnionBTreeSet<u8>>;
#[derive(Clone)]
pub enum WtMsg {
    B(WithTop<SetUnionBTreeSet<u8>>),
    H(WithTop<SetUnionHashSet<u8>>),
    S(WithTop<SetUnionSingletonSet<u8>>),
}
pub struct WithTopGen {
    d: u8,
    inits: Vec<WtSt>,
}
impl LatticeGen for WithTopGen {
    const NAME: &'static str = "with_top";
    type State = WtSt;
    type Msg = WtMsg;
    fn new(sim: &mut Sim, n: usize) -> Self {
        let d = dom(sim);
        let nb = nonbottom_start(sim);
        let inits = (0..n)
            .map(|_| {
                if !nb {
                    Default::default()
                } else if sim.flip("top", 1, 12) {
                    WithTop::new(None)
                } else {
                    WithTop::new(Some(SetUnion::new(subset(mask(sim, d), d).into_iter().collect())))
                }
            })
            .collect();
        WithTopGen { d, inits }
    }
    fn init(&self, i: usize) -> WtSt {
        self.inits[i].clone()
    }
    fn delta(&mut self, sim: &mut Sim, _i: usize, _st: &WtSt) -> WtMsg {
        let d = self.d;
        match sim.weighted("delta_kind", &[4, 3, 3, 1]) {
            0 => WtMsg::S(WithTop::new(Some(SetUnion::new(SingletonSet(item(sim, d)))))),
            1 => WtMsg::H(WithTop::new(Some(SetUnion::new(subset(mask(sim, d), d).into_iter().collect())))),
            2 => WtMsg::B(WithTop::new(Some(SetUnion::new(subset(mask(sim, d), d).into_iter().collect())))),
            _ => WtMsg::S(WithTop::new(None)), // top
        }
    }
    fn snapshot(&self, sim: &mut Sim, st: &WtSt) -> WtMsg {
        if sim.flip("wire_hash", 1, 2) { WtMsg::H(LatticeFrom::lattice_from(st.clone())) } else { WtMsg::B(st.clone()) }
    }
    fn merge(st: &mut WtSt, m: WtMsg) -> bool {
        on!(m, WtMsg[B, H, S], |m| Merge::merge(st, m))
    }
    fn eq(a: &WtSt, b: &WtSt) -> bool {
        a == b
    }
    fn msg_le(m: &WtMsg, st: &WtSt) -> Option<bool> {
        on!(m, WtMsg[B, H, S], |m| Some(m <= st))
    }
    fn show(st: &WtSt) -> String {
        st.canon()
    }
    fn show_msg(m: &WtMsg) -> String {
        on!(m, WtMsg[B, H, S], |m| m.canon())
    }
}

// ---- Pair<SetUnion<_>, MapUnion<_, Max>>  (nesting depth 2)
pub type PairSt = Pair<SetUnionHashSet<u8>, MapUnionBTreeMap<u8, Max<u8>>>;
#[derive(Clone)]
pub enum PairMsg {
    Full(PairSt),
    Alt(Pair<SetUnionBTreeSet<u8>, MapUnionHashMap<u8, Max<u8>>>),
    Small(Pair<SetUnionSingletonSet<u8>, MapUnionSingletonMap<u8, Max<u8>>>),
    Opt(Pair<SetUnionOptionSet<u8>, MapUnionOptionMap<u8, Max<u8>>>),
}
pub struct PairGen {
    d: u8,
    inits: Vec<PairSt>,
}
impl LatticeGen for PairGen {
    const NAME: &'static str = "pair";
    type State = PairSt;
    type Msg = PairMsg;
    fn new(sim: &mut Sim, n: usize) -> Self {
        let d = dom(sim);
        let nb = nonbottom_start(sim);
        let inits = (0..n)
            .map(|_| {
                if !nb {
                    return Default::default();
                }
                let a = SetUnion::new(subset(mask(sim, d), d).into_iter().collect());
                let ks = subset(mask(sim, d), d);
                let b = MapUnion::new(ks.into_iter().map(|k| (k, Max::new(sim.choose("val", 0, 3) as u8))).collect::<BTreeMap<_, _>>());
                Pair::new(a, b)
            })
            .collect();
        PairGen { d, inits }
    }
    fn init(&self, i: usize) -> PairSt {
        self.inits[i].clone()
    }
    fn delta(&mut self, sim: &mut Sim, _i: usize, _st: &PairSt) -> PairMsg {
        let d = self.d;
        match sim.choose("delta_kind", 0, 1) {
            0 => PairMsg::Small(Pair::new(
                SetUnion::new(SingletonSet(item(sim, d))),
                MapUnion::new(SingletonMap(item(sim, d), Max::new(sim.choose("val", 0, 3) as u8))),
            )),
            _ => {
                // one or both components may be bottom: only the other one grows
                let a = if sim.flip("a_bot", 1, 2) { None } else { Some(item(sim, d)) };
                let b = if sim.flip("b_bot", 1, 2) { None } else { Some((item(sim, d), Max::new(sim.choose("val", 0, 3) as u8))) };
                PairMsg::Opt(Pair::new(SetUnion::new(OptionSet(a)), MapUnion::new(OptionMap(b))))
            }
        }
    }
    fn snapshot(&self, sim: &mut Sim, st: &PairSt) -> PairMsg {
        if sim.flip("wire_alt", 1, 2) { PairMsg::Alt(LatticeFrom::lattice_from(st.clone())) } else { PairMsg::Full(st.clone()) }
    }
    fn merge(st: &mut PairSt, m: PairMsg) -> bool {
        on!(m, PairMsg[Full, Alt, Small, Opt], |m| Merge::merge(st, m))
    }
    fn eq(a: &PairSt, b: &PairSt) -> bool {
        a == b
    }
    fn msg_le(m: &PairMsg, st: &PairSt) -> Option<bool> {
        on!(m, PairMsg[Full, Alt, Small, Opt], |m| Some(m <= st))
    }
    fn show(st: &PairSt) -> String {
        st.canon()
    }
    fn show_msg(m: &PairMsg) -> String {
        on!(m, PairMsg[Full, Alt, Small, Opt], |m| m.canon())
    }
}

// ---- DomPair<Max<u8>, SetUnion<_>>: key lattice totally ordered (documented side condition)
pub type DomSt = DomPair<Max<u8>, SetUnionHashSet<u8>>;
#[derive(Clone)]
pub enum DomMsg {
    Full(DomSt),
    Alt(DomPair<Max<u8>, SetUnionBTreeSet<u8>>),
    Small(DomPair<Max<u8>, SetUnionSingletonSet<u8>>),
}
pub struct DomPairGen {
    d: u8,
    inits: Vec<DomSt>,
}
impl LatticeGen for DomPairGen {
    const NAME: &'static str = "dom_pair";
    type State = DomSt;
    type Msg = DomMsg;
    fn new(sim: &mut Sim, n: usize) -> Self {
        let d = dom(sim);
        let nb = nonbottom_start(sim);
        let inits = (0..n)
            .map(|_| {
                if !nb {
                    return Default::default();
                }
                DomPair::new(Max::new(sim.choose("key", 0, 2) as u8), SetUnion::new(subset(mask(sim, d), d).into_iter().collect()))
            })
            .collect();
        DomPairGen { d, inits }
    }
    fn init(&self, i: usize) -> DomSt {
        self.inits[i].clone()
    }
    fn delta(&mut self, sim: &mut Sim, _i: usize, st: &DomSt) -> DomMsg {
        let d = self.d;
        // timestamps: mostly at or just above the replica's current one (collisions between
        // replicas are wanted: equal keys merge their values)
        let cur = *st.as_reveal_ref().0.as_reveal_ref();
        let key = match sim.weighted("key_kind", &[3, 3, 1]) {
            0 => cur,
            1 => cur.saturating_add(1),
            _ => sim.choose("key", 0, 4) as u8,
        };
        if sim.flip("small", 1, 2) {
            DomMsg::Small(DomPair::new(Max::new(key), SetUnion::new(SingletonSet(item(sim, d)))))
        } else {
            DomMsg::Alt(DomPair::new(Max::new(key), SetUnion::new(subset(mask(sim, d), d).into_iter().collect())))
        }
    }
    fn snapshot(&self, sim: &mut Sim, st: &DomSt) -> DomMsg {
        if sim.flip("wire_alt", 1, 2) { DomMsg::Alt(LatticeFrom::lattice_from(st.clone())) } else { DomMsg::Full(st.clone()) }
    }
    fn merge(st: &mut DomSt, m: DomMsg) -> bool {
        on!(m, DomMsg[Full, Alt, Small], |m| Merge::merge(st, m))
    }
    fn eq(a: &DomSt, b: &DomSt) -> bool {
        a == b
    }
    fn msg_le(m: &DomMsg, st: &DomSt) -> Option<bool> {
        on!(m, DomMsg[Full, Alt, Small], |m| Some(m <= st))
    }
    fn show(st: &DomSt) -> String {
        st.canon()
    }
    fn show_msg(m: &DomMsg) -> String {
        on!(m, DomMsg[Full, Alt, Small], |m| m.canon())
    }
}

// ---- VecUnion<SetUnion<_>>
pub type VuSt = VecUnion<SetUnionBTreeSet<u8>>;
#[derive(Clone)]
pub enum VuMsg {
    Full(VuSt),
    Alt(VecUnion<SetUnionHashSet<u8>>),
    Small(VecUnion<SetUnionOptionSet<u8>>),
}
pub struct VecUnionGen {
    d: u8,
    inits: Vec<VuSt>,
}
impl LatticeGen for VecUnionGen {
    const NAME: &'static str = "vec_union";
    type State = VuSt;
    type Msg = VuMsg;
    fn new(sim: &mut Sim, n: usize) -> Self {
        let d = dom(sim);
        let nb = nonbottom_start(sim);
        let inits = (0..n)
            .map(|_| {
                let len = if nb { sim.choose("len", 0, 3) as usize } else { 0 };
                VecUnion::new((0..len).map(|_| SetUnion::new(subset(mask(sim, d), d).into_iter().collect())).collect())
            })
            .collect();
        VecUnionGen { d, inits }
    }
    fn init(&self, i: usize) -> VuSt {
        self.inits[i].clone()
    }
    fn delta(&mut self, sim: &mut Sim, _i: usize, _st: &VuSt) -> VuMsg {
        let d = self.d;
        let len = sim.choose("len", 0, 3) as usize;
        if sim.flip("small", 1, 2) {
            VuMsg::Small(VecUnion::new(
                (0..len).map(|_| SetUnion::new(OptionSet(if sim.flip("none", 1, 2) { None } else { Some(item(sim, d)) }))).collect(),
            ))
        } else {
            VuMsg::Alt(VecUnion::new((0..len).map(|_| SetUnion::new(subset(mask(sim, d), d).into_iter().collect())).collect()))
        }
    }
    fn snapshot(&self, sim: &mut Sim, st: &VuSt) -> VuMsg {
        if sim.flip("wire_alt", 1, 2) { VuMsg::Alt(LatticeFrom::lattice_from(st.clone())) } else { VuMsg::Full(st.clone()) }
    }
    fn merge(st: &mut VuSt, m: VuMsg) -> bool {
        on!(m, VuMsg[Full, Alt, Small], |m| Merge::merge(st, m))
    }
    fn eq(a: &VuSt, b: &VuSt) -> bool {
        a == b
    }
    fn msg_le(m: &VuMsg, st: &VuSt) -> Option<bool> {
        on!(m, VuMsg[Full, Alt, Small], |m| Some(m <= st))
    }
    fn show(st: &VuSt) -> String {
        st.canon()
    }
    fn show_msg(m: &VuMsg) -> String {
        on!(m, VuMsg[Full, Alt, Small], |m| m.canon())
    }
}

// ---- #[derive(Lattice)] structs (named and tuple), three fields, generic carriers
#[derive(Clone, Debug, Default, Lattice)]
pub struct Derived<KeySet, PerKey> {
    pub keys: SetUnion<KeySet>,
    pub epoch: Max<u8>,
    pub low: MapUnion<PerKey>,
}
#[derive(Clone, Debug, Lattice)]
pub struct DerivedTuple<S>(pub WithBot<SetUnion<S>>, pub Min<u8>, pub Conflict<u8>);

impl<A: Canon, B: Canon> Canon for Derived<A, B> {
    fn canon(&self) -> String {
        format!("Derived{{keys:{},epoch:{},low:{}}}", self.keys.canon(), self.epoch.canon(), self.low.canon())
    }
}
impl<S: Canon> Canon for DerivedTuple<S> {
    fn canon(&self) -> String {
        format!("DerivedTuple({},{},{})", self.0.canon(), self.1.canon(), self.2.canon())
    }
}
pub type DvSt = Derived<HashSet<u8>, BTreeMap<u8, Min<u8>>>;
#[derive(Clone)]
pub enum DvMsg {
    Full(DvSt),
    Alt(Derived<BTreeSet<u8>, HashMap<u8, Min<u8>>>),
    Small(Derived<SingletonSet<u8>, OptionMap<u8, Min<u8>>>),
}
pub struct DerivedGen {
    d: u8,
    inits: Vec<DvSt>,
}
impl LatticeGen for DerivedGen {
    const NAME: &'static str = "derived_struct";
    type State = DvSt;
    type Msg = DvMsg;
    fn new(sim: &mut Sim, n: usize) -> Self {
        let d = dom(sim);
        let nb = nonbottom_start(sim);
        let inits = (0..n)
            .map(|_| {
                if !nb {
                    return Derived { keys: Default::default(), epoch: Default::default(), low: Default::default() };
                }
                let keys = SetUnion::new(subset(mask(sim, d), d).into_iter().collect());
                let epoch = Max::new(sim.choose("epoch", 0, 3) as u8);
                let ks = subset(mask(sim, d), d);
                let low = MapUnion::new(ks.into_iter().map(|k| (k, Min::<u8>::from_code(sim.choose("val", 0, 3) as u8))).collect::<BTreeMap<_, _>>());
                Derived { keys, epoch, low }
            })
            .collect();
        DerivedGen { d, inits }
    }
    fn init(&self, i: usize) -> DvSt {
        self.inits[i].clone()
    }
    fn delta(&mut self, sim: &mut Sim, _i: usize, st: &DvSt) -> DvMsg {
        let d = self.d;
        // each field grows independently; often only the last ones do
        let keys = SetUnion::new(SingletonSet(if sim.flip("old_key", 1, 2) {
            #[allow(clippy::disallowed_methods)]
            st.keys.as_reveal_ref().iter().copied().min().unwrap_or(0)
        } else {
            item(sim, d)
        }));
        let epoch = Max::new(sim.choose("epoch", 0, 3) as u8);
        let low = MapUnion::new(OptionMap(if sim.flip("none", 1, 3) { None } else { Some((item(sim, d), Min::<u8>::from_code(sim.choose("val", 0, 3) as u8))) }));
        DvMsg::Small(Derived { keys, epoch, low })
    }
    fn snapshot(&self, sim: &mut Sim, st: &DvSt) -> DvMsg {
        if sim.flip("wire_alt", 1, 2) { DvMsg::Alt(LatticeFrom::lattice_from(st.clone())) } else { DvMsg::Full(st.clone()) }
    }
    fn merge(st: &mut DvSt, m: DvMsg) -> bool {
        on!(m, DvMsg[Full, Alt, Small], |m| Merge::merge(st, m))
    }
    fn eq(a: &DvSt, b: &DvSt) -> bool {
        a == b
    }
    fn msg_le(m: &DvMsg, st: &DvSt) -> Option<bool> {
        on!(m, DvMsg[Full, Alt, Small], |m| Some(m <= st))
    }
    fn show(st: &DvSt) -> String {
        st.canon()
    }
    fn show_msg(m: &DvMsg) -> String {
        on!(m, DvMsg[Full, Alt, Small], |m| m.canon())
    }
}

pub type DtSt = DerivedTuple<HashSet<u8>>;
#[derive(Clone)]
pub enum DtMsg {
    Full(DtSt),
    Alt(DerivedTuple<BTreeSet<u8>>),
    Small(DerivedTuple<SingletonSet<u8>>),
}
pub struct DerivedTupleGen {
    d: u8,
    tag: u8,
    inits: Vec<DtSt>,
}
impl LatticeGen for DerivedTupleGen {
    const NAME: &'static str = "derived_tuple";
    type State = DtSt;
    type Msg = DtMsg;
    fn new(sim: &mut Sim, n: usize) -> Self {
        let d = dom(sim);
        let tag = item(sim, d);
        let nb = nonbottom_start(sim);
        let inits = (0..n)
            .map(|_| {
                if !nb {
                    return DerivedTuple(Default::default(), Default::default(), Conflict::new(Some(tag)));
                }
                let a = if sim.flip("bot", 1, 3) { WithBot::new(None) } else { WithBot::new(Some(SetUnion::new(subset(mask(sim, d), d).into_iter().collect()))) };
                DerivedTuple(a, Min::<u8>::from_code(sim.choose("val", 0, 3) as u8), Conflict::new(Some(tag)))
            })
            .collect();
        DerivedTupleGen { d, tag, inits }
    }
    fn init(&self, i: usize) -> DtSt {
        self.inits[i].clone()
    }
    fn delta(&mut self, sim: &mut Sim, _i: usize, _st: &DtSt) -> DtMsg {
        let d = self.d;
        let a = if sim.flip("bot", 1, 3) { WithBot::new(None) } else { WithBot::new(Some(SetUnion::new(SingletonSet(item(sim, d))))) };
        let b = Min::<u8>::from_code(sim.choose("val", 0, 3) as u8);
        let c = match sim.weighted("tag", &[8, 2, 1]) {
            0 => Conflict::new(Some(self.tag)),
            1 => Conflict::new(Some(item(sim, d))),
            _ => Conflict::new(None),
        };
        DtMsg::Small(DerivedTuple(a, b, c))
    }
    fn snapshot(&self, sim: &mut Sim, st: &DtSt) -> DtMsg {
        if sim.flip("wire_alt", 1, 2) { DtMsg::Alt(LatticeFrom::lattice_from(st.clone())) } else { DtMsg::Full(st.clone()) }
    }
    fn merge(st: &mut DtSt, m: DtMsg) -> bool {
        on!(m, DtMsg[Full, Alt, Small], |m| Merge::merge(st, m))
    }
    fn eq(a: &DtSt, b: &DtSt) -> bool {
        a == b
    }
    fn msg_le(m: &DtMsg, st: &DtSt) -> Option<bool> {
        on!(m, DtMsg[Full, Alt, Small], |m| Some(m <= st))
    }
    fn show(st: &DtSt) -> String {
        st.canon()
    }
    fn show_msg(m: &DtMsg) -> String {
        on!(m, DtMsg[Full, Alt, Small], |m| m.canon())
    }
}

// =============================================================================================
// UnionFind over HashMap / BTreeMap replicas; wire carriers HashMap / BTreeMap / VecMap /
// ArrayMap / OptionMap / SingletonMap. The value is the partition of 0..4.
// =============================================================================================

#[derive(Clone)]
pub enum UfSt {
    H(UnionFindHashMap<u8>),
    B(UnionFindBTreeMap<u8>),
}
#[derive(Clone)]
pub enum UfMsg {
    H(UnionFindHashMap<u8>),
    B(UnionFindBTreeMap<u8>),
    V(UnionFindVec<u8>),
    A(UnionFindArrayMap<u8, 2>),
    O(UnionFindOptionMap<u8>),
    S(UnionFindSingletonMap<u8>),
}
pub struct UnionFindGen {
    d: u8,
    inits: Vec<UfSt>,
}
const UF_DOM: u8 = 5;
/// canonical text of the partition: for every element the smallest element of its class
fn uf_partition(st: &UfSt) -> String {
    let mut s = String::from("classes[");
    for x in 0..UF_DOM {
        let rep = (0..=x)
            .find(|&y| on!(st, UfSt[H, B], |u| u.same(x, y).into_reveal()))
            .unwrap_or(x);
        s.push((b'0' + rep) as char);
    }
    s.push(']');
    s
}
impl LatticeGen for UnionFindGen {
    const NAME: &'static str = "union_find";
    type State = UfSt;
    type Msg = UfMsg;
    fn new(sim: &mut Sim, n: usize) -> Self {
        let d = sim.choose("domain", 3, UF_DOM as u64) as u8;
        let nb = nonbottom_start(sim);
        let inits = (0..n)
            .map(|_| {
                // start values are built through the public `union` API
                let unions = if nb { sim.choose("unions", 0, 2) } else { 0 };
                if sim.choose("carrier", 0, 1) == 0 {
                    let mut u = UnionFindHashMap::<u8>::default();
                    for _ in 0..unions {
                        u.union(item(sim, d), item(sim, d));
                    }
                    UfSt::H(u)
                } else {
                    let mut u = UnionFindBTreeMap::<u8>::default();
                    for _ in 0..unions {
                        u.union(item(sim, d), item(sim, d));
                    }
                    UfSt::B(u)
                }
            })
            .collect();
        UnionFindGen { d, inits }
    }
    fn init(&self, i: usize) -> UfSt {
        self.inits[i].clone()
    }
    fn delta(&mut self, sim: &mut Sim, _i: usize, _st: &UfSt) -> UfMsg {
        let d = self.d;
        let pair = |sim: &mut Sim| (item(sim, d), Cell::new(item(sim, d)));
        match sim.choose("delta_kind", 0, 5) {
            0 => UfMsg::S(UnionFind::new(SingletonMap::from(pair(sim)))),
            1 => UfMsg::O(UnionFind::new(OptionMap(if sim.flip("none", 1, 5) { None } else { Some(pair(sim)) }))),
            2 => {
                let ks = two_items(sim, d);
                UfMsg::A(UnionFind::new(ArrayMap { keys: ks, vals: [Cell::new(item(sim, d)), Cell::new(item(sim, d))] }))
            }
            3 => {
                let ks = subset(mask(sim, d), d);
                let vs = ks.iter().map(|_| Cell::new(item(sim, d))).collect();
                UfMsg::V(UnionFind::new(VecMap::new(ks, vs)))
            }
            // a hash/btree-backed union-find built through the public `union` API
            4 => {
                let mut u = UnionFindHashMap::<u8>::default();
                for _ in 0..sim.choose("unions", 0, 2) {
                    u.union(item(sim, d), item(sim, d));
                }
                UfMsg::H(u)
            }
            _ => {
                let mut u = UnionFindBTreeMap::<u8>::default();
                for _ in 0..sim.choose("unions", 0, 2) {
                    u.union(item(sim, d), item(sim, d));
                }
                UfMsg::B(u)
            }
        }
    }
    fn snapshot(&self, sim: &mut Sim, st: &UfSt) -> UfMsg {
        if sim.flip("wire_btree", 1, 2) {
            on!(st.clone(), UfSt[H, B], |s| UfMsg::B(LatticeFrom::lattice_from(s)))
        } else {
            on!(st.clone(), UfSt[H, B], |s| UfMsg::H(LatticeFrom::lattice_from(s)))
        }
    }
    fn merge(st: &mut UfSt, m: UfMsg) -> bool {
        cross2!(st, UfSt[H, B], m, UfMsg[H, B, V, A, O, S], |s, m| Merge::merge(s, m))
    }
    fn eq(a: &UfSt, b: &UfSt) -> bool {
        cross2!(a, UfSt[H, B], b, UfSt[H, B], |x, y| x == y)
    }
    fn msg_le(m: &UfMsg, st: &UfSt) -> Option<bool> {
        // PartialOrd needs MapMut on both sides: hash/btree carriers only
        cross2!(st, UfSt[H, B], m, UfMsg[H, B], |s, m| Some(m <= s), else None)
    }
    fn show(st: &UfSt) -> String {
        uf_partition(st)
    }
    fn show_msg(m: &UfMsg) -> String {
        on!(m, UfMsg[H, B, V, A, O, S], |m| m.canon())
    }
}

// =============================================================================================
// Point nested in other lattices. Legal usage: within one run equal positions always carry equal
// point values (Pair / derived field: one value per run; DomPair: one value per key, as in a
// last-writer-wins register whose timestamps are unique per written value). The C01 clause
// "point lattices only ever merge equal values" is exercised by `inequal_point_msg`.
// =============================================================================================

type Pt = Point<u8, ()>;

// ---- DomPair<Max<u8>, Point>
pub type DpSt = DomPair<Max<u8>, Pt>;
pub struct DomPairPointGen {
    d: u8,
    salt: u8,
    inits: Vec<DpSt>,
}
impl DomPairPointGen {
    /// the one value ever written under timestamp `key` in this run
    fn val_of(&self, key: u8) -> u8 {
        (key.wrapping_mul(3).wrapping_add(self.salt)) % self.d
    }
}
impl LatticeGen for DomPairPointGen {
    const NAME: &'static str = "dom_pair_point";
    type State = DpSt;
    type Msg = DpSt;
    fn new(sim: &mut Sim, n: usize) -> Self {
        let d = dom(sim);
        let salt = item(sim, d);
        let mut g = DomPairPointGen { d, salt, inits: vec![] };
        let nb = nonbottom_start(sim);
        g.inits = (0..n)
            .map(|_| {
                let key = if nb { sim.choose("key", 0, 2) as u8 } else { 0 };
                DomPair::new(Max::new(key), Point::new(g.val_of(key)))
            })
            .collect();
        g
    }
    fn init(&self, i: usize) -> DpSt {
        self.inits[i].clone()
    }
    fn delta(&mut self, sim: &mut Sim, _i: usize, st: &DpSt) -> DpSt {
        let cur = *st.as_reveal_ref().0.as_reveal_ref();
        let key = match sim.weighted("key_kind", &[3, 3, 1]) {
            0 => cur,
            1 => cur.saturating_add(1),
            _ => sim.choose("key", 0, 4) as u8,
        };
        DomPair::new(Max::new(key), Point::new(self.val_of(key)))
    }
    fn snapshot(&self, _sim: &mut Sim, st: &DpSt) -> DpSt {
        LatticeFrom::lattice_from(st.clone())
    }
    fn merge(st: &mut DpSt, m: DpSt) -> bool {
        Merge::merge(st, m)
    }
    fn eq(a: &DpSt, b: &DpSt) -> bool {
        a == b
    }
    fn msg_le(m: &DpSt, st: &DpSt) -> Option<bool> {
        Some(m <= st)
    }
    fn show(st: &DpSt) -> String {
        st.canon()
    }
    fn show_msg(m: &DpSt) -> String {
        m.canon()
    }
    const HAS_INEQUAL_POINT: bool = true;
    /// equal key (so the value lattices are merged), different point value
    fn inequal_point_msg(&self, sim: &mut Sim, st: &DpSt) -> Option<DpSt> {
        let (k, v) = st.as_reveal_ref();
        Some(DomPair::new(Max::new(*k.as_reveal_ref()), Point::new(other_point(sim, self.d, v.val))))
    }
}

// ---- Pair<SetUnion<_>, Point>
pub type PpSt = Pair<SetUnionHashSet<u8>, Pt>;
#[derive(Clone)]
pub enum PpMsg {
    Full(PpSt),
    Alt(Pair<SetUnionBTreeSet<u8>, Pt>),
    Small(Pair<SetUnionSingletonSet<u8>, Pt>),
}
pub struct PairPointGen {
    d: u8,
    inits: Vec<PpSt>,
}
impl LatticeGen for PairPointGen {
    const NAME: &'static str = "pair_point";
    type State = PpSt;
    type Msg = PpMsg;
    fn new(sim: &mut Sim, n: usize) -> Self {
        let d = dom(sim);
        let p = item(sim, d);
        let nb = nonbottom_start(sim);
        let inits = (0..n)
            .map(|_| Pair::new(SetUnion::new(if nb { subset(mask(sim, d), d) } else { vec![] }.into_iter().collect()), Point::new(p)))
            .collect();
        PairPointGen { d, inits }
    }
    fn init(&self, i: usize) -> PpSt {
        self.inits[i].clone()
    }
    fn delta(&mut self, sim: &mut Sim, _i: usize, st: &PpSt) -> PpMsg {
        PpMsg::Small(Pair::new(SetUnion::new(SingletonSet(item(sim, self.d))), Point::new(st.b.val)))
    }
    fn snapshot(&self, sim: &mut Sim, st: &PpSt) -> PpMsg {
        if sim.flip("wire_alt", 1, 2) { PpMsg::Alt(LatticeFrom::lattice_from(st.clone())) } else { PpMsg::Full(st.clone()) }
    }
    fn merge(st: &mut PpSt, m: PpMsg) -> bool {
        on!(m, PpMsg[Full, Alt, Small], |m| Merge::merge(st, m))
    }
    fn eq(a: &PpSt, b: &PpSt) -> bool {
        a == b
    }
    fn msg_le(m: &PpMsg, st: &PpSt) -> Option<bool> {
        on!(m, PpMsg[Full, Alt, Small], |m| Some(m <= st))
    }
    fn show(st: &PpSt) -> String {
        st.canon()
    }
    fn show_msg(m: &PpMsg) -> String {
        on!(m, PpMsg[Full, Alt, Small], |m| m.canon())
    }
    const HAS_INEQUAL_POINT: bool = true;
    fn inequal_point_msg(&self, sim: &mut Sim, st: &PpSt) -> Option<PpMsg> {
        Some(PpMsg::Small(Pair::new(SetUnion::new(SingletonSet(item(sim, self.d))), Point::new(other_point(sim, self.d, st.b.val)))))
    }
}

// ---- #[derive(Lattice)] struct with a Point field in the middle
#[derive(Clone, Debug, Lattice)]
pub struct DerivedPoint<S> {
    pub keys: SetUnion<S>,
    pub tag: Point<u8, ()>,
    pub epoch: Max<u8>,
}
impl<S: Canon> Canon for DerivedPoint<S> {
    fn canon(&self) -> String {
        format!("DerivedPoint{{keys:{},tag:{},epoch:{}}}", self.keys.canon(), self.tag.canon(), self.epoch.canon())
    }
}
pub type DqSt = DerivedPoint<BTreeSet<u8>>;
#[derive(Clone)]
pub enum DqMsg {
    Full(DqSt),
    Alt(DerivedPoint<HashSet<u8>>),
    Small(DerivedPoint<OptionSet<u8>>),
}
pub struct DerivedPointGen {
    d: u8,
    inits: Vec<DqSt>,
}
impl LatticeGen for DerivedPointGen {
    const NAME: &'static str = "derived_point";
    type State = DqSt;
    type Msg = DqMsg;
    fn new(sim: &mut Sim, n: usize) -> Self {
        let d = dom(sim);
        let p = item(sim, d);
        let nb = nonbottom_start(sim);
        let inits = (0..n)
            .map(|_| DerivedPoint {
                keys: SetUnion::new(if nb { subset(mask(sim, d), d) } else { vec![] }.into_iter().collect()),
                tag: Point::new(p),
                epoch: Max::new(if nb { sim.choose("epoch", 0, 3) as u8 } else { 0 }),
            })
            .collect();
        DerivedPointGen { d, inits }
    }
    fn init(&self, i: usize) -> DqSt {
        self.inits[i].clone()
    }
    fn delta(&mut self, sim: &mut Sim, _i: usize, st: &DqSt) -> DqMsg {
        let k = if sim.flip("none", 1, 3) { None } else { Some(item(sim, self.d)) };
        DqMsg::Small(DerivedPoint { keys: SetUnion::new(OptionSet(k)), tag: Point::new(st.tag.val), epoch: Max::new(sim.choose("epoch", 0, 3) as u8) })
    }
    fn snapshot(&self, sim: &mut Sim, st: &DqSt) -> DqMsg {
        if sim.flip("wire_alt", 1, 2) { DqMsg::Alt(LatticeFrom::lattice_from(st.clone())) } else { DqMsg::Full(st.clone()) }
    }
    fn merge(st: &mut DqSt, m: DqMsg) -> bool {
        on!(m, DqMsg[Full, Alt, Small], |m| Merge::merge(st, m))
    }
    fn eq(a: &DqSt, b: &DqSt) -> bool {
        a == b
    }
    fn msg_le(m: &DqMsg, st: &DqSt) -> Option<bool> {
        on!(m, DqMsg[Full, Alt, Small], |m| Some(m <= st))
    }
    fn show(st: &DqSt) -> String {
        st.canon()
    }
    fn show_msg(m: &DqMsg) -> String {
        on!(m, DqMsg[Full, Alt, Small], |m| m.canon())
    }
    const HAS_INEQUAL_POINT: bool = true;
    fn inequal_point_msg(&self, sim: &mut Sim, st: &DqSt) -> Option<DqMsg> {
        let k = Some(item(sim, self.d));
        Some(DqMsg::Small(DerivedPoint { keys: SetUnion::new(OptionSet(k)), tag: Point::new(other_point(sim, self.d, st.tag.val)), epoch: Max::new(sim.choose("epoch", 0, 3) as u8) }))
    }
}

// =============================================================================================
// WithTop over inner lattices that have a reachable top of their own: `Some(inner top)` is still
// strictly below the explicit top `None` (WithTop's PartialEq/PartialOrd do not collapse them).
// =============================================================================================

impl Simple for WithTop<Max<bool>> {
    const NAME: &'static str = "with_top_max_bool";
    fn initial(sim: &mut Sim, _d: u8, nb: bool) -> Self {
        WithTop::new(Some(Max::new(nb && sim.flip("true", 1, 2))))
    }
    fn gen_delta(sim: &mut Sim, _d: u8, _cur: &Self) -> Self {
        match sim.weighted("delta_kind", &[3, 4, 3]) {
            0 => WithTop::new(Some(Max::new(false))),
            1 => WithTop::new(Some(Max::new(true))), // the inner top
            _ => WithTop::new(None),                 // the explicit top
        }
    }
}
impl Simple for WithTop<Min<u32>> {
    const NAME: &'static str = "with_top_min_u32";
    fn initial(sim: &mut Sim, _d: u8, nb: bool) -> Self {
        WithTop::new(Some(Min::new(if nb { *sim.pick("val", &[u32::MAX, 2, 1, 0]) } else { u32::MAX })))
    }
    fn gen_delta(sim: &mut Sim, _d: u8, _cur: &Self) -> Self {
        match sim.weighted("delta_kind", &[2, 2, 3, 3]) {
            0 => WithTop::new(Some(Min::new(2))),
            1 => WithTop::new(Some(Min::new(1))),
            2 => WithTop::new(Some(Min::new(0))), // the inner top
            _ => WithTop::new(None),              // the explicit top
        }
    }
}
impl Simple for WithTop<WithTop<SetUnionHashSet<u8>>> {
    const NAME: &'static str = "with_top_nested";
    fn initial(sim: &mut Sim, d: u8, nb: bool) -> Self {
        WithTop::new(Some(WithTop::new(Some(SetUnion::new(if nb { subset(mask(sim, d), d) } else { vec![] }.into_iter().collect())))))
    }
    fn gen_delta(sim: &mut Sim, d: u8, _cur: &Self) -> Self {
        match sim.weighted("delta_kind", &[4, 3, 3]) {
            0 => WithTop::new(Some(WithTop::new(Some(SetUnion::new(subset(mask(sim, d), d).into_iter().collect()))))),
            1 => WithTop::new(Some(WithTop::new(None))), // the inner top
            _ => WithTop::new(None),                     // the explicit top
        }
    }
}
