//! Tombstone lattices: `SetUnionWithTombstones` / `MapUnionWithTombstones` over the hash-set,
//! roaring-bitmap and FST tombstone back ends.
//!
//! * single-stack generators (C01 / C02): one back end per scenario;
//! * tri-stack generators (C05): the three back ends execute the identical schedule in lock-step
//!   next to a model (`inserted_seen`, `tomb_seen`).
//!
//! Legal usage only (doc comments of the lattice modules): a delete is a delta holding the key in
//! its tombstone set (`…TombstoneOnlySet` / `…TombstoneSingletonSetOnly`), an insert is a delta
//! holding the key live; no delta holds the same key both live and tombstoned; roaring keys are
//! `u64`, FST keys are `String`, the hash set takes any `Hash + Eq` key.

use std::collections::{BTreeMap, BTreeSet, HashMap, HashSet};
use std::hash::Hash;
use std::marker::PhantomData;

use lattices::collections::{EmptyMap, EmptySet, OptionSet, SingletonMap, SingletonSet, VecMap};
use lattices::map_union_with_tombstones::{MapUnionWithTombstones, MapUnionWithTombstonesFstString, MapUnionWithTombstonesRoaring};
use lattices::set_union::{SetUnion, SetUnionHashSet, SetUnionSingletonSet, SetUnionVec};
use lattices::set_union_with_tombstones::{SetUnionWithTombstones, SetUnionWithTombstonesFstString, SetUnionWithTombstonesRoaring};
use lattices::tombstone::{FstTombstoneSet, RoaringTombstoneSet};
use lattices::{LatticeFrom, Merge};
use simcore::Sim;

use crate::canon::Canon;
use crate::gens::subset;
use crate::net::LatticeGen;
use crate::{cross2, on};

pub const NKEYS: usize = 6;

/// Key domain: index 0..6 <-> a `u64` key (roaring, hash) / a `String` key (FST).
pub trait Key: Clone + Ord + Hash + Eq + Canon + Default {
    fn key(i: usize) -> Self;
    fn index(&self) -> usize {
        (0..NKEYS).find(|&i| Self::key(i) == *self).unwrap_or(usize::MAX)
    }
}
/// `u64` keys above `u32::MAX` whose low halves collide with small keys.
const K64: [u64; NKEYS] = [0, 1, 7, 1 << 32, (1 << 32) | 1, (7 << 40) | 7];
/// `String` keys: empty, prefixes of each other, non-ASCII.
const KSTR: [&str; NKEYS] = ["", "a", "ab", "b", "ba", "\u{e9}"];
impl Key for u64 {
    fn key(i: usize) -> u64 {
        K64[i]
    }
}
impl Key for String {
    fn key(i: usize) -> String {
        KSTR[i].to_string()
    }
}

/// Sorted items of a set-like carrier (harness-side observation through the public API).
pub trait ItemsOf<K> {
    fn items(&self) -> Vec<K>;
}
impl<K: Key> ItemsOf<K> for HashSet<K> {
    fn items(&self) -> Vec<K> {
        #[allow(clippy::disallowed_methods)]
        let mut v: Vec<K> = self.iter().cloned().collect();
        v.sort();
        v
    }
}
impl<K: Key> ItemsOf<K> for BTreeSet<K> {
    fn items(&self) -> Vec<K> {
        self.iter().cloned().collect()
    }
}
impl<K: Key> ItemsOf<K> for Vec<K> {
    fn items(&self) -> Vec<K> {
        let mut v = self.clone();
        v.sort();
        v
    }
}
impl<K: Key> ItemsOf<K> for SingletonSet<K> {
    fn items(&self) -> Vec<K> {
        vec![self.0.clone()]
    }
}
impl<K: Key> ItemsOf<K> for OptionSet<K> {
    fn items(&self) -> Vec<K> {
        self.0.iter().cloned().collect()
    }
}
impl<K: Key> ItemsOf<K> for EmptySet<K> {
    fn items(&self) -> Vec<K> {
        vec![]
    }
}
impl ItemsOf<u64> for RoaringTombstoneSet {
    fn items(&self) -> Vec<u64> {
        // public API: Clone + IntoIterator (ascending)
        self.clone().into_iter().collect()
    }
}
impl ItemsOf<String> for FstTombstoneSet<String> {
    fn items(&self) -> Vec<String> {
        let mut v: Vec<String> = self.clone().into_iter().collect();
        v.sort();
        v
    }
}

fn idx_mask<K: Key>(v: &[K]) -> u64 {
    let mut m = 0u64;
    for k in v {
        let i = k.index();
        m |= if i < NKEYS { 1 << i } else { 1 << 63 }; // bit 63 = a key outside the domain
    }
    m
}
fn show_keys<K: Key>(v: &[K]) -> String {
    let mut s = String::from("{");
    for (i, k) in v.iter().enumerate() {
        if i > 0 {
            s.push(',');
        }
        s.push_str(&k.canon());
    }
    s.push('}');
    s
}

/// What `as_reveal_ref()` shows of a set-with-tombstones value.
pub trait SetReveal<K> {
    fn live(&self) -> Vec<K>;
    fn tombs(&self) -> Vec<K>;
}
impl<K: Key, S: ItemsOf<K>, T: ItemsOf<K>> SetReveal<K> for SetUnionWithTombstones<S, T> {
    fn live(&self) -> Vec<K> {
        self.as_reveal_ref().0.items()
    }
    fn tombs(&self) -> Vec<K> {
        self.as_reveal_ref().1.items()
    }
}
fn show_set<K: Key, X: SetReveal<K>>(x: &X) -> String {
    format!("live{} tombs{}", show_keys(&x.live()), show_keys(&x.tombs()))
}

/// Sorted (key, sorted value items) of a map-like carrier; bottom (empty) values are skipped
/// because the lattice's own equality ignores them.
pub trait EntriesOf<K> {
    fn entries(&self) -> Vec<(K, Vec<u8>)>;
}
fn val_items<S>(v: &SetUnion<S>) -> Vec<u8>
where
    S: Clone + IntoIterator<Item = u8>,
{
    let mut x: Vec<u8> = v.as_reveal_ref().clone().into_iter().collect();
    x.sort();
    x.dedup();
    x
}
impl<K: Key, S: Clone + IntoIterator<Item = u8>> EntriesOf<K> for HashMap<K, SetUnion<S>> {
    fn entries(&self) -> Vec<(K, Vec<u8>)> {
        #[allow(clippy::disallowed_methods)]
        let mut v: Vec<(K, Vec<u8>)> = self.iter().map(|(k, v)| (k.clone(), val_items(v))).filter(|e| !e.1.is_empty()).collect();
        v.sort();
        v
    }
}
impl<K: Key, S: Clone + IntoIterator<Item = u8>> EntriesOf<K> for BTreeMap<K, SetUnion<S>> {
    fn entries(&self) -> Vec<(K, Vec<u8>)> {
        self.iter().map(|(k, v)| (k.clone(), val_items(v))).filter(|e| !e.1.is_empty()).collect()
    }
}
impl<K: Key, S: Clone + IntoIterator<Item = u8>> EntriesOf<K> for VecMap<K, SetUnion<S>> {
    fn entries(&self) -> Vec<(K, Vec<u8>)> {
        let mut v: Vec<(K, Vec<u8>)> =
            self.keys.iter().zip(self.vals.iter()).map(|(k, v)| (k.clone(), val_items(v))).filter(|e| !e.1.is_empty()).collect();
        v.sort();
        v
    }
}
impl<K: Key, S: Clone + IntoIterator<Item = u8>> EntriesOf<K> for SingletonMap<K, SetUnion<S>> {
    fn entries(&self) -> Vec<(K, Vec<u8>)> {
        vec![(self.0.clone(), val_items(&self.1))]
    }
}
impl<K: Key, V> EntriesOf<K> for EmptyMap<K, V> {
    fn entries(&self) -> Vec<(K, Vec<u8>)> {
        vec![]
    }
}
pub trait MapReveal<K> {
    fn live(&self) -> Vec<(K, Vec<u8>)>;
    fn tombs(&self) -> Vec<K>;
}
impl<K: Key, M: EntriesOf<K>, T: ItemsOf<K>> MapReveal<K> for MapUnionWithTombstones<M, T> {
    fn live(&self) -> Vec<(K, Vec<u8>)> {
        self.as_reveal_ref().0.entries()
    }
    fn tombs(&self) -> Vec<K> {
        self.as_reveal_ref().1.items()
    }
}
fn show_map<K: Key, X: MapReveal<K>>(x: &X) -> String {
    let mut s = String::from("live{");
    for (i, (k, v)) in x.live().iter().enumerate() {
        if i > 0 {
            s.push(',');
        }
        s.push_str(&format!("{}:{:?}", k.canon(), v));
    }
    s.push_str("} tombs");
    s.push_str(&show_keys(&x.tombs()));
    s
}

// ---- type aliases -----------------------------------------------------------------------------
pub type SH<K> = SetUnionWithTombstones<HashSet<K>, HashSet<K>>;
pub type SB<K> = SetUnionWithTombstones<BTreeSet<K>, HashSet<K>>;
pub type SR = SetUnionWithTombstonesRoaring;
pub type SF = SetUnionWithTombstonesFstString;
pub type SIns<K> = SetUnionWithTombstones<SingletonSet<K>, EmptySet<K>>;
pub type SDel<K> = SetUnionWithTombstones<EmptySet<K>, SingletonSet<K>>;
pub type SOpt<K> = SetUnionWithTombstones<OptionSet<K>, OptionSet<K>>;
pub type SMix<K> = SetUnionWithTombstones<Vec<K>, Vec<K>>;

pub type V8 = SetUnionHashSet<u8>;
pub type MH<K> = MapUnionWithTombstones<HashMap<K, V8>, HashSet<K>>;
pub type MB<K> = MapUnionWithTombstones<BTreeMap<K, V8>, HashSet<K>>;
pub type MR = MapUnionWithTombstonesRoaring<V8>;
pub type MF = MapUnionWithTombstonesFstString<V8>;
pub type MIns<K> = MapUnionWithTombstones<SingletonMap<K, SetUnionSingletonSet<u8>>, EmptySet<K>>;
pub type MDel<K> = MapUnionWithTombstones<EmptyMap<K, SetUnionSingletonSet<u8>>, SingletonSet<K>>;
pub type MMix<K> = MapUnionWithTombstones<VecMap<K, SetUnionVec<u8>>, Vec<K>>;

// ---- delta descriptions (back-end independent), so three stacks can build the same delta ------
#[derive(Clone, Copy, Debug, PartialEq)]
pub enum DeltaSpec {
    /// insert key `k` (maps: with value item `v`)
    Ins(usize, u8),
    /// tombstone key `k`
    Del(usize),
    /// option carriers: maybe insert `a`, maybe tombstone `b` (a != b)
    Opt(Option<usize>, Option<usize>, u8),
    /// vec carriers: insert the keys of `ins`, tombstone the keys of `del` (disjoint)
    Mix(u64, u64, u8),
}
impl DeltaSpec {
    pub fn generate(sim: &mut Sim, nk: usize, with_opt: bool) -> DeltaSpec {
        let k = |sim: &mut Sim| sim.choose("key", 0, nk as u64 - 1) as usize;
        let v = |sim: &mut Sim| sim.choose("val", 0, 2) as u8;
        match sim.weighted("tomb_delta", &[5, 3, if with_opt { 2 } else { 0 }, 2]) {
            0 => DeltaSpec::Ins(k(sim), v(sim)),
            1 => DeltaSpec::Del(k(sim)),
            2 => {
                let a = k(sim);
                let b = (a + sim.choose("key2", 1, nk as u64 - 1) as usize) % nk;
                let ia = !sim.flip("no_ins", 1, 4);
                let ib = !sim.flip("no_del", 1, 4);
                DeltaSpec::Opt(ia.then_some(a), ib.then_some(b), v(sim))
            }
            _ => {
                let del = sim.choose("del_mask", 0, (1 << nk) - 1);
                let ins = sim.choose("ins_mask", 0, (1 << nk) - 1) & !del;
                DeltaSpec::Mix(ins, del, v(sim))
            }
        }
    }
    /// (keys inserted, keys tombstoned) as index masks
    pub fn masks(&self) -> (u64, u64) {
        match *self {
            DeltaSpec::Ins(k, _) => (1 << k, 0),
            DeltaSpec::Del(k) => (0, 1 << k),
            DeltaSpec::Opt(a, b, _) => (a.map_or(0, |a| 1 << a), b.map_or(0, |b| 1 << b)),
            DeltaSpec::Mix(i, d, _) => (i, d),
        }
    }
}
/// Start value of a replica: disjoint (live, tombstoned) key masks (`nb` false: bottom).
fn start_masks(sim: &mut Sim, nk: usize, nb: bool) -> (u64, u64) {
    if !nb {
        return (0, 0);
    }
    let tomb = sim.choose("start_tombs", 0, (1u64 << nk) - 1);
    let live = sim.choose("start_live", 0, (1u64 << nk) - 1) & !tomb;
    (live, tomb)
}
/// Non-bottom value item masks (subsets of {0,1,2}) for the live keys of a map start value.
fn start_vals(sim: &mut Sim, live: u64) -> [u8; NKEYS] {
    let mut out = [0u8; NKEYS];
    for k in subset(live, NKEYS as u8) {
        out[k as usize] = sim.choose("start_val", 1, 7) as u8;
    }
    out
}
fn start_entries<K: Key>(vals: &[u8; NKEYS]) -> Vec<(K, V8)> {
    (0..NKEYS).filter(|&k| vals[k] != 0).map(|k| (K::key(k), SetUnion::new(subset(vals[k] as u64, 3).into_iter().collect()))).collect()
}
fn keys_of<K: Key>(mask: u64) -> Vec<K> {
    subset(mask, NKEYS as u8).into_iter().map(|i| K::key(i as usize)).collect()
}

#[derive(Clone)]
pub enum SetDelta<K> {
    Ins(SIns<K>),
    Del(SDel<K>),
    Opt(SOpt<K>),
    Mix(SMix<K>),
}
impl<K: Key> SetDelta<K> {
    pub fn build(d: &DeltaSpec) -> Self {
        match *d {
            DeltaSpec::Ins(k, _) => SetDelta::Ins(SetUnionWithTombstones::new(SingletonSet(K::key(k)), EmptySet::default())),
            DeltaSpec::Del(k) => SetDelta::Del(SetUnionWithTombstones::new(EmptySet::default(), SingletonSet(K::key(k)))),
            DeltaSpec::Opt(a, b, _) => SetDelta::Opt(SetUnionWithTombstones::new(OptionSet(a.map(K::key)), OptionSet(b.map(K::key)))),
            DeltaSpec::Mix(i, t, _) => SetDelta::Mix(SetUnionWithTombstones::new(keys_of(i), keys_of(t))),
        }
    }
    fn show(&self) -> String {
        match self {
            SetDelta::Ins(x) => format!("insert[{}]", show_set(x)),
            SetDelta::Del(x) => format!("delete[{}]", show_set(x)),
            SetDelta::Opt(x) => format!("option[{}]", show_set(x)),
            SetDelta::Mix(x) => format!("vec[{}]", show_set(x)),
        }
    }
}
#[derive(Clone)]
pub enum MapDelta<K> {
    Ins(MIns<K>),
    Del(MDel<K>),
    Mix(MMix<K>),
}
impl<K: Key> MapDelta<K> {
    pub fn build(d: &DeltaSpec) -> Self {
        match *d {
            DeltaSpec::Ins(k, v) => {
                MapDelta::Ins(MapUnionWithTombstones::new(SingletonMap(K::key(k), SetUnion::new(SingletonSet(v))), EmptySet::default()))
            }
            DeltaSpec::Del(k) => MapDelta::Del(MapUnionWithTombstones::new(EmptyMap(PhantomData, PhantomData), SingletonSet(K::key(k)))),
            DeltaSpec::Opt(..) => unreachable!("no option carrier for map deltas"),
            DeltaSpec::Mix(i, t, v) => {
                let ks: Vec<K> = keys_of(i);
                // every inserted key carries the non-bottom value {v} (or {v, v+1}: a two-item value)
                let vs = ks.iter().enumerate().map(|(j, _)| SetUnion::new(if j % 2 == 0 { vec![v] } else { vec![v, (v + 1) % 3] })).collect();
                MapDelta::Mix(MapUnionWithTombstones::new(VecMap::new(ks, vs), keys_of(t)))
            }
        }
    }
    fn show(&self) -> String {
        match self {
            MapDelta::Ins(x) => format!("insert[{}]", show_map(x)),
            MapDelta::Del(x) => format!("delete[{}]", show_map(x)),
            MapDelta::Mix(x) => format!("vec[{}]", show_map(x)),
        }
    }
    /// per inserted key: bit mask of the value items this delta carries
    fn val_masks(d: &DeltaSpec) -> [u8; NKEYS] {
        let mut out = [0u8; NKEYS];
        match *d {
            DeltaSpec::Ins(k, v) => out[k] = 1 << v,
            DeltaSpec::Mix(i, _, v) => {
                for (j, k) in subset(i, NKEYS as u8).into_iter().enumerate() {
                    out[k as usize] = if j % 2 == 0 { 1 << v } else { (1 << v) | (1 << ((v + 1) % 3)) };
                }
            }
            _ => {}
        }
        out
    }
}

// =============================================================================================
// Single-stack generators (C01 / C02)
// =============================================================================================

macro_rules! set_tomb_gen {
    ($Gen:ident, $St:ident, $Msg:ident, $name:literal, $K:ty,
     states: [$($SV:ident : $STy:ty),+], st_list: $sl:tt, msg_list: $ml:tt, le_list: $ll:tt, eq: $eqmode:ident) => {
        #[derive(Clone)]
        pub enum $St { $( $SV($STy) ),+ }
        #[derive(Clone)]
        pub enum $Msg {
            $( $SV($STy), )+
            /// a hash-set backed peer's full state on the wire
            HH(SH<$K>),
            Ins(SIns<$K>), Del(SDel<$K>), Opt(SOpt<$K>), Mix(SMix<$K>),
        }
        pub struct $Gen { nk: usize, inits: Vec<$St> }
        impl LatticeGen for $Gen {
            const NAME: &'static str = $name;
            type State = $St;
            type Msg = $Msg;
            fn new(sim: &mut Sim, n: usize) -> Self {
                let nk = sim.choose("keys", 2, NKEYS as u64) as usize;
                let nvar = [$( stringify!($SV) ),+].len() as u64;
                let nb = crate::gens::nonbottom_start(sim);
                let inits = (0..n).map(|_| {
                    // a legal start value: live keys and tombstones disjoint
                    let (live, tomb) = start_masks(sim, nk, nb);
                    let all = [$( $St::$SV(SetUnionWithTombstones::new(keys_of::<$K>(live).into_iter().collect(), keys_of::<$K>(tomb).into_iter().collect())) ),+];
                    all[sim.choose("carrier", 0, nvar - 1) as usize].clone()
                }).collect();
                $Gen { nk, inits }
            }
            fn init(&self, i: usize) -> $St {
                self.inits[i].clone()
            }
            fn delta(&mut self, sim: &mut Sim, _i: usize, _st: &$St) -> $Msg {
                let spec = DeltaSpec::generate(sim, self.nk, true);
                match SetDelta::<$K>::build(&spec) {
                    SetDelta::Ins(x) => $Msg::Ins(x),
                    SetDelta::Del(x) => $Msg::Del(x),
                    SetDelta::Opt(x) => $Msg::Opt(x),
                    SetDelta::Mix(x) => $Msg::Mix(x),
                }
            }
            fn snapshot(&self, sim: &mut Sim, st: &$St) -> $Msg {
                if sim.flip("wire_hash_backed", 1, 3) {
                    // REAL: LatticeFrom into the hash-set backed representation
                    on!(st.clone(), $St $sl, |s| $Msg::HH(LatticeFrom::lattice_from(s)))
                } else {
                    match st.clone() { $( $St::$SV(s) => $Msg::$SV(s) ),+ }
                }
            }
            fn merge(st: &mut $St, m: $Msg) -> bool {
                cross2!(st, $St $sl, m, $Msg $ml, |s, m| Merge::merge(s, m))
            }
            fn eq(a: &$St, b: &$St) -> bool {
                set_tomb_gen!(@eq $eqmode, a, b, $St, $sl, $K)
            }
            #[allow(unused_variables)]
            fn msg_le(m: &$Msg, st: &$St) -> Option<bool> {
                cross2!(st, $St $sl, m, $Msg $ll, |s, m| Some(m <= s), else None)
            }
            fn heavy(&self) -> bool {
                $name.ends_with("_fst")
            }
            fn show(st: &$St) -> String {
                on!(st, $St $sl, |s| show_set::<$K, _>(s))
            }
            fn show_msg(m: &$Msg) -> String {
                on!(m, $Msg $ml, |m| show_set::<$K, _>(m))
            }
        }
    };
    (@eq own, $a:ident, $b:ident, $St:ident, $sl:tt, $K:ty) => {
        cross2!($a, $St $sl, $b, $St $sl, |x, y| x == y)
    };
    // back ends without PartialEq (roaring, FST): equality of what as_reveal_ref() shows
    (@eq reveal, $a:ident, $b:ident, $St:ident, $sl:tt, $K:ty) => {
        cross2!($a, $St $sl, $b, $St $sl, |x, y| SetReveal::<$K>::live(x) == SetReveal::<$K>::live(y)
            && SetReveal::<$K>::tombs(x) == SetReveal::<$K>::tombs(y))
    };
}

set_tomb_gen!(SetTombHashGen, SthSt, SthMsg, "set_tomb_hash", u64,
    states: [H: SH<u64>, B: SB<u64>], st_list: [H, B], msg_list: [H, B, HH, Ins, Del, Opt, Mix],
    le_list: [H, B, HH, Ins, Del, Opt], eq: own);
set_tomb_gen!(SetTombRoaringGen, StrSt, StrMsg, "set_tomb_roaring", u64,
    states: [R: SR], st_list: [R], msg_list: [R, HH, Ins, Del, Opt, Mix],
    le_list: [], eq: reveal);
set_tomb_gen!(SetTombFstGen, StfSt, StfMsg, "set_tomb_fst", String,
    states: [F: SF], st_list: [F], msg_list: [F, HH, Ins, Del, Opt, Mix],
    le_list: [], eq: reveal);

macro_rules! map_tomb_gen {
    ($Gen:ident, $St:ident, $Msg:ident, $name:literal, $K:ty,
     states: [$($SV:ident : $STy:ty),+], st_list: $sl:tt, msg_list: $ml:tt, le_list: $ll:tt, eq: $eqmode:ident) => {
        #[derive(Clone)]
        pub enum $St { $( $SV($STy) ),+ }
        #[derive(Clone)]
        pub enum $Msg {
            $( $SV($STy), )+
            HH(MH<$K>),
            Ins(MIns<$K>), Del(MDel<$K>), Mix(MMix<$K>),
        }
        pub struct $Gen { nk: usize, inits: Vec<$St> }
        impl LatticeGen for $Gen {
            const NAME: &'static str = $name;
            type State = $St;
            type Msg = $Msg;
            fn new(sim: &mut Sim, n: usize) -> Self {
                let nk = sim.choose("keys", 2, NKEYS as u64) as usize;
                let nvar = [$( stringify!($SV) ),+].len() as u64;
                let nb = crate::gens::nonbottom_start(sim);
                let inits = (0..n).map(|_| {
                    let (live, tomb) = start_masks(sim, nk, nb);
                    let vals = start_vals(sim, live);
                    let all = [$( $St::$SV(MapUnionWithTombstones::new(start_entries::<$K>(&vals).into_iter().collect(), keys_of::<$K>(tomb).into_iter().collect())) ),+];
                    all[sim.choose("carrier", 0, nvar - 1) as usize].clone()
                }).collect();
                $Gen { nk, inits }
            }
            fn init(&self, i: usize) -> $St {
                self.inits[i].clone()
            }
            fn delta(&mut self, sim: &mut Sim, _i: usize, _st: &$St) -> $Msg {
                let spec = DeltaSpec::generate(sim, self.nk, false);
                match MapDelta::<$K>::build(&spec) {
                    MapDelta::Ins(x) => $Msg::Ins(x),
                    MapDelta::Del(x) => $Msg::Del(x),
                    MapDelta::Mix(x) => $Msg::Mix(x),
                }
            }
            fn snapshot(&self, sim: &mut Sim, st: &$St) -> $Msg {
                if sim.flip("wire_hash_backed", 1, 3) {
                    on!(st.clone(), $St $sl, |s| $Msg::HH(LatticeFrom::lattice_from(s)))
                } else {
                    match st.clone() { $( $St::$SV(s) => $Msg::$SV(s) ),+ }
                }
            }
            fn merge(st: &mut $St, m: $Msg) -> bool {
                cross2!(st, $St $sl, m, $Msg $ml, |s, m| Merge::merge(s, m))
            }
            fn eq(a: &$St, b: &$St) -> bool {
                map_tomb_gen!(@eq $eqmode, a, b, $St, $sl, $K)
            }
            #[allow(unused_variables)]
            fn msg_le(m: &$Msg, st: &$St) -> Option<bool> {
                cross2!(st, $St $sl, m, $Msg $ll, |s, m| Some(m <= s), else None)
            }
            fn heavy(&self) -> bool {
                $name.ends_with("_fst")
            }
            fn show(st: &$St) -> String {
                on!(st, $St $sl, |s| show_map::<$K, _>(s))
            }
            fn show_msg(m: &$Msg) -> String {
                on!(m, $Msg $ml, |m| show_map::<$K, _>(m))
            }
        }
    };
    (@eq own, $a:ident, $b:ident, $St:ident, $sl:tt, $K:ty) => {
        cross2!($a, $St $sl, $b, $St $sl, |x, y| x == y)
    };
    (@eq reveal, $a:ident, $b:ident, $St:ident, $sl:tt, $K:ty) => {
        cross2!($a, $St $sl, $b, $St $sl, |x, y| MapReveal::<$K>::live(x) == MapReveal::<$K>::live(y)
            && MapReveal::<$K>::tombs(x) == MapReveal::<$K>::tombs(y))
    };
}

map_tomb_gen!(MapTombHashGen, MthSt, MthMsg, "map_tomb_hash", u64,
    states: [H: MH<u64>, B: MB<u64>], st_list: [H, B], msg_list: [H, B, HH, Ins, Del, Mix],
    le_list: [H, B, HH, Ins, Del], eq: own);
map_tomb_gen!(MapTombRoaringGen, MtrSt, MtrMsg, "map_tomb_roaring", u64,
    states: [R: MR], st_list: [R], msg_list: [R, HH, Ins, Del, Mix],
    le_list: [], eq: reveal);
map_tomb_gen!(MapTombFstGen, MtfSt, MtfMsg, "map_tomb_fst", String,
    states: [F: MF], st_list: [F], msg_list: [F, HH, Ins, Del, Mix],
    le_list: [], eq: reveal);

// =============================================================================================
// Tri-stack generators (C05): hash-set, roaring and FST back ends in lock-step + model
// =============================================================================================

/// Per-replica model: which inserts / tombstones have causally reached the replica.
#[derive(Clone, Copy, PartialEq, Eq, Debug, Default)]
pub struct Model {
    /// per key: value items of all inserts seen (sets: bit 0 only)
    pub vals: [u8; NKEYS],
    pub tomb: u64,
}
impl Model {
    fn ins(&self) -> u64 {
        (0..NKEYS).filter(|&k| self.vals[k] != 0).fold(0, |m, k| m | 1 << k)
    }
    fn live(&self) -> u64 {
        self.ins() & !self.tomb
    }
    fn absorb(&mut self, o: &Model) {
        for k in 0..NKEYS {
            self.vals[k] |= o.vals[k];
        }
        self.tomb |= o.tomb;
    }
}

/// One FST merge costs ~0.4 ms (the FST is rebuilt on every `extend`), about 1000x a hash or
/// roaring merge; the FST stack therefore takes part in one run out of `FST_ONE_IN` (per-run knob,
/// recorded like every other decision); the hash and roaring stacks take part in every run.
const FST_ONE_IN: u64 = 16;

const BACKENDS: [&str; 3] = ["hash", "roaring", "fst"];

fn mask_str(m: u64) -> String {
    format!("{:?}", subset(m, NKEYS as u8))
}

fn tri_observe(sim: &mut Sim, before: &Model, m: &Model) {
    if m.tomb & before.live() != 0 {
        sim.probe("tomb_after_insert_remote");
    }
    if m.live() & before.tomb != 0 {
        sim.probe("insert_after_tomb");
    }
}

/// The C05 state oracle shared by the set and the map tri-stacks. `lives[b]` / `tombs[b]`: index
/// masks of the revealed live keys / tombstones of back end `b` (`None`: stack not in this run).
fn tri_check(lives: &[Option<u64>; 3], tombs: &[Option<u64>; 3], model: &Model, flags_differ: Option<[bool; 3]>, shown: &str) -> Option<(&'static str, String)> {
    const RES: [&str; 3] = ["c05_resurrected_hash", "c05_resurrected_roaring", "c05_resurrected_fst"];
    const BOTH: [&str; 3] = ["c05_live_and_tombstoned_hash", "c05_live_and_tombstoned_roaring", "c05_live_and_tombstoned_fst"];
    const LIVE: [&str; 3] = ["c05_live_ne_inserted_minus_tombstoned_hash", "c05_live_ne_inserted_minus_tombstoned_roaring", "c05_live_ne_inserted_minus_tombstoned_fst"];
    const DL: [&str; 3] = ["", "c05_backends_differ_live_roaring_vs_hash", "c05_backends_differ_live_fst_vs_hash"];
    const DT: [&str; 3] = ["", "c05_backends_differ_tombstones_roaring_vs_hash", "c05_backends_differ_tombstones_fst_vs_hash"];
    for b in 0..3 {
        let (Some(live), Some(tomb)) = (lives[b], tombs[b]) else { continue };
        if live & model.tomb != 0 {
            return Some((RES[b], format!("{} back end: key(s) #{} are live although a tombstone for them has reached this replica; {shown}", BACKENDS[b], mask_str(live & model.tomb))));
        }
        if live & tomb != 0 {
            return Some((BOTH[b], format!("{} back end: key(s) #{} are both live and tombstoned in the revealed state; {shown}", BACKENDS[b], mask_str(live & tomb))));
        }
        if live != model.live() {
            return Some((LIVE[b], format!("{} back end: live keys #{} != inserted_seen - tomb_seen = #{}; {shown}", BACKENDS[b], mask_str(live), mask_str(model.live()))));
        }
    }
    for b in 1..3 {
        if lives[b].is_some() && lives[b] != lives[0] {
            return Some((DL[b], format!("revealed live sets differ between the {} and hash back ends; {shown}", BACKENDS[b])));
        }
        if tombs[b].is_some() && tombs[b] != tombs[0] {
            return Some((DT[b], format!("revealed tombstone sets differ between the {} and hash back ends; {shown}", BACKENDS[b])));
        }
    }
    if let Some(f) = flags_differ {
        return Some(("c05_backends_differ_merge_flag", format!("merge returned {f:?} on the hash/roaring/fst back ends for the same delivery; {shown}")));
    }
    None
}

fn note_flags(slot: &mut Option<[bool; 3]>, a: bool, b: bool, c: Option<bool>) {
    if a != b || c.is_some_and(|c| c != a) {
        slot.get_or_insert([a, b, c.unwrap_or(a)]);
    }
}

// ---- set tri-stack
#[derive(Clone)]
pub struct TriSet {
    h: SH<u64>,
    r: SR,
    f: Option<SF>,
    model: Model,
    flags_differ: Option<[bool; 3]>,
}
#[derive(Clone)]
pub enum TriSetWire {
    /// each stack receives the sender's state in its own representation
    Own(SH<u64>, SR, Option<SF>),
    /// each stack receives the sender's state converted to the hash-set backed representation
    HashBacked(SH<u64>, SH<u64>, Option<SH<String>>),
    Delta(DeltaSpec),
}
#[derive(Clone)]
pub struct TriSetMsg {
    wire: TriSetWire,
    model: Model,
}
pub struct TriSetGen {
    nk: usize,
    fst_on: bool,
    inits: Vec<TriSet>,
}

impl LatticeGen for TriSetGen {
    const NAME: &'static str = "set_tomb_3backends";
    type State = TriSet;
    type Msg = TriSetMsg;
    fn new(sim: &mut Sim, n: usize) -> Self {
        let fst_on = sim.flip("fst_stack", 1, FST_ONE_IN);
        if fst_on {
            sim.probe("fst_stack_in_run");
        }
        let nk = sim.choose("keys", 2, NKEYS as u64) as usize;
        let nb = crate::gens::nonbottom_start(sim);
        let inits = (0..n)
            .map(|_| {
                // the same legal start value (live and tombstoned keys disjoint) in every back end
                let (live, tomb) = start_masks(sim, nk, nb);
                let mut model = Model { tomb, ..Default::default() };
                for k in subset(live, NKEYS as u8) {
                    model.vals[k as usize] = 1;
                }
                TriSet {
                    h: SetUnionWithTombstones::new(keys_of::<u64>(live).into_iter().collect(), keys_of::<u64>(tomb).into_iter().collect()),
                    r: SetUnionWithTombstones::new(keys_of::<u64>(live).into_iter().collect(), keys_of::<u64>(tomb).into_iter().collect()),
                    f: fst_on.then(|| SetUnionWithTombstones::new(keys_of::<String>(live).into_iter().collect(), keys_of::<String>(tomb).into_iter().collect())),
                    model,
                    flags_differ: None,
                }
            })
            .collect();
        TriSetGen { nk, fst_on, inits }
    }
    fn heavy(&self) -> bool {
        self.fst_on
    }
    fn init(&self, i: usize) -> TriSet {
        self.inits[i].clone()
    }
    fn delta(&mut self, sim: &mut Sim, _i: usize, _st: &TriSet) -> TriSetMsg {
        let spec = DeltaSpec::generate(sim, self.nk, true);
        let (ins, del) = spec.masks();
        let mut model = Model::default();
        for k in subset(ins, NKEYS as u8) {
            model.vals[k as usize] = 1;
        }
        model.tomb = del;
        TriSetMsg { wire: TriSetWire::Delta(spec), model }
    }
    fn snapshot(&self, sim: &mut Sim, st: &TriSet) -> TriSetMsg {
        let wire = if sim.flip("wire_hash_backed", 1, 3) {
            // REAL: LatticeFrom roaring -> hash-backed, FST -> hash-backed
            TriSetWire::HashBacked(st.h.clone(), LatticeFrom::lattice_from(st.r.clone()), st.f.clone().map(LatticeFrom::lattice_from))
        } else {
            TriSetWire::Own(st.h.clone(), st.r.clone(), st.f.clone())
        };
        TriSetMsg { wire, model: st.model }
    }
    fn merge(st: &mut TriSet, m: TriSetMsg) -> bool {
        let (a, b, c) = match m.wire {
            TriSetWire::Own(h, r, f) => (st.h.merge(h), st.r.merge(r), st.f.as_mut().zip(f).map(|(s, f)| s.merge(f))),
            TriSetWire::HashBacked(h, r, f) => (st.h.merge(h), st.r.merge(r), st.f.as_mut().zip(f).map(|(s, f)| s.merge(f))),
            TriSetWire::Delta(spec) => {
                let a = on!(SetDelta::<u64>::build(&spec), SetDelta[Ins, Del, Opt, Mix], |d| st.h.merge(d));
                let b = on!(SetDelta::<u64>::build(&spec), SetDelta[Ins, Del, Opt, Mix], |d| st.r.merge(d));
                let c = st.f.as_mut().map(|s| on!(SetDelta::<String>::build(&spec), SetDelta[Ins, Del, Opt, Mix], |d| s.merge(d)));
                (a, b, c)
            }
        };
        st.model.absorb(&m.model);
        note_flags(&mut st.flags_differ, a, b, c);
        a
    }
    fn eq(a: &TriSet, b: &TriSet) -> bool {
        a.h == b.h
            && SetReveal::<u64>::live(&a.r) == SetReveal::<u64>::live(&b.r)
            && SetReveal::<u64>::tombs(&a.r) == SetReveal::<u64>::tombs(&b.r)
            && match (&a.f, &b.f) {
                (Some(x), Some(y)) => SetReveal::<String>::live(x) == SetReveal::<String>::live(y) && SetReveal::<String>::tombs(x) == SetReveal::<String>::tombs(y),
                (None, None) => true,
                _ => false,
            }
            && a.model == b.model
    }
    fn msg_le(_m: &TriSetMsg, _st: &TriSet) -> Option<bool> {
        None
    }
    fn show(st: &TriSet) -> String {
        format!(
            "hash[{}] roaring[{}] fst[{}] model[inserted_seen #{} tomb_seen #{}]",
            show_set::<u64, _>(&st.h),
            show_set::<u64, _>(&st.r),
            st.f.as_ref().map_or("not in this run".to_string(), |f| show_set::<String, _>(f)),
            mask_str(st.model.ins()),
            mask_str(st.model.tomb)
        )
    }
    fn show_msg(m: &TriSetMsg) -> String {
        match &m.wire {
            TriSetWire::Own(h, ..) => format!("state(own repr)[{}]", show_set::<u64, _>(h)),
            TriSetWire::HashBacked(h, ..) => format!("state(hash-backed repr)[{}]", show_set::<u64, _>(h)),
            TriSetWire::Delta(s) => format!("{} / {}", SetDelta::<u64>::build(s).show(), SetDelta::<String>::build(s).show()),
        }
    }
    fn check(&self, st: &TriSet) -> Option<(&'static str, String)> {
        let lives = [
            Some(idx_mask(&SetReveal::<u64>::live(&st.h))),
            Some(idx_mask(&SetReveal::<u64>::live(&st.r))),
            st.f.as_ref().map(|f| idx_mask(&SetReveal::<String>::live(f))),
        ];
        let tombs = [
            Some(idx_mask(&SetReveal::<u64>::tombs(&st.h))),
            Some(idx_mask(&SetReveal::<u64>::tombs(&st.r))),
            st.f.as_ref().map(|f| idx_mask(&SetReveal::<String>::tombs(f))),
        ];
        tri_check(&lives, &tombs, &st.model, st.flags_differ, &Self::show(st))
    }
    fn observe(sim: &mut Sim, before: &TriSet, m: &TriSetMsg) {
        tri_observe(sim, &before.model, &m.model)
    }
}

// ---- map tri-stack
#[derive(Clone)]
pub struct TriMap {
    h: MH<u64>,
    r: MR,
    f: Option<MF>,
    model: Model,
    flags_differ: Option<[bool; 3]>,
}
#[derive(Clone)]
pub enum TriMapWire {
    Own(MH<u64>, MR, Option<MF>),
    HashBacked(MH<u64>, MH<u64>, Option<MH<String>>),
    Delta(DeltaSpec),
}
#[derive(Clone)]
pub struct TriMapMsg {
    wire: TriMapWire,
    model: Model,
}
pub struct TriMapGen {
    nk: usize,
    fst_on: bool,
    inits: Vec<TriMap>,
}
fn live_vals<K: Key>(e: &[(K, Vec<u8>)]) -> [u8; NKEYS] {
    let mut out = [0u8; NKEYS];
    for (k, v) in e {
        let i = k.index();
        if i < NKEYS {
            out[i] = v.iter().fold(0, |m, x| m | 1 << x);
        }
    }
    out
}
fn entry_keys<K: Key>(e: &[(K, Vec<u8>)]) -> Vec<K> {
    e.iter().map(|x| x.0.clone()).collect()
}
impl LatticeGen for TriMapGen {
    const NAME: &'static str = "map_tomb_3backends";
    type State = TriMap;
    type Msg = TriMapMsg;
    fn new(sim: &mut Sim, n: usize) -> Self {
        let fst_on = sim.flip("fst_stack", 1, FST_ONE_IN);
        if fst_on {
            sim.probe("fst_stack_in_run");
        }
        let nk = sim.choose("keys", 2, NKEYS as u64) as usize;
        let nb = crate::gens::nonbottom_start(sim);
        let inits = (0..n)
            .map(|_| {
                let (live, tomb) = start_masks(sim, nk, nb);
                let vals = start_vals(sim, live);
                TriMap {
                    h: MapUnionWithTombstones::new(start_entries::<u64>(&vals).into_iter().collect(), keys_of::<u64>(tomb).into_iter().collect()),
                    r: MapUnionWithTombstones::new(start_entries::<u64>(&vals).into_iter().collect(), keys_of::<u64>(tomb).into_iter().collect()),
                    f: fst_on.then(|| MapUnionWithTombstones::new(start_entries::<String>(&vals).into_iter().collect(), keys_of::<String>(tomb).into_iter().collect())),
                    model: Model { vals, tomb },
                    flags_differ: None,
                }
            })
            .collect();
        TriMapGen { nk, fst_on, inits }
    }
    fn heavy(&self) -> bool {
        self.fst_on
    }
    fn init(&self, i: usize) -> TriMap {
        self.inits[i].clone()
    }
    fn delta(&mut self, sim: &mut Sim, _i: usize, _st: &TriMap) -> TriMapMsg {
        let spec = DeltaSpec::generate(sim, self.nk, false);
        let model = Model { vals: MapDelta::<u64>::val_masks(&spec), tomb: spec.masks().1 };
        TriMapMsg { wire: TriMapWire::Delta(spec), model }
    }
    fn snapshot(&self, sim: &mut Sim, st: &TriMap) -> TriMapMsg {
        let wire = if sim.flip("wire_hash_backed", 1, 3) {
            TriMapWire::HashBacked(st.h.clone(), LatticeFrom::lattice_from(st.r.clone()), st.f.clone().map(LatticeFrom::lattice_from))
        } else {
            TriMapWire::Own(st.h.clone(), st.r.clone(), st.f.clone())
        };
        TriMapMsg { wire, model: st.model }
    }
    fn merge(st: &mut TriMap, m: TriMapMsg) -> bool {
        let (a, b, c) = match m.wire {
            TriMapWire::Own(h, r, f) => (st.h.merge(h), st.r.merge(r), st.f.as_mut().zip(f).map(|(s, f)| s.merge(f))),
            TriMapWire::HashBacked(h, r, f) => (st.h.merge(h), st.r.merge(r), st.f.as_mut().zip(f).map(|(s, f)| s.merge(f))),
            TriMapWire::Delta(spec) => {
                let a = on!(MapDelta::<u64>::build(&spec), MapDelta[Ins, Del, Mix], |d| st.h.merge(d));
                let b = on!(MapDelta::<u64>::build(&spec), MapDelta[Ins, Del, Mix], |d| st.r.merge(d));
                let c = st.f.as_mut().map(|s| on!(MapDelta::<String>::build(&spec), MapDelta[Ins, Del, Mix], |d| s.merge(d)));
                (a, b, c)
            }
        };
        st.model.absorb(&m.model);
        note_flags(&mut st.flags_differ, a, b, c);
        a
    }
    fn eq(a: &TriMap, b: &TriMap) -> bool {
        a.h == b.h
            && MapReveal::<u64>::live(&a.r) == MapReveal::<u64>::live(&b.r)
            && MapReveal::<u64>::tombs(&a.r) == MapReveal::<u64>::tombs(&b.r)
            && match (&a.f, &b.f) {
                (Some(x), Some(y)) => MapReveal::<String>::live(x) == MapReveal::<String>::live(y) && MapReveal::<String>::tombs(x) == MapReveal::<String>::tombs(y),
                (None, None) => true,
                _ => false,
            }
            && a.model == b.model
    }
    fn msg_le(_m: &TriMapMsg, _st: &TriMap) -> Option<bool> {
        None
    }
    fn show(st: &TriMap) -> String {
        format!(
            "hash[{}] roaring[{}] fst[{}] model[value items seen per key {:?} tomb_seen #{}]",
            show_map::<u64, _>(&st.h),
            show_map::<u64, _>(&st.r),
            st.f.as_ref().map_or("not in this run".to_string(), |f| show_map::<String, _>(f)),
            st.model.vals,
            mask_str(st.model.tomb)
        )
    }
    fn show_msg(m: &TriMapMsg) -> String {
        match &m.wire {
            TriMapWire::Own(h, ..) => format!("state(own repr)[{}]", show_map::<u64, _>(h)),
            TriMapWire::HashBacked(h, ..) => format!("state(hash-backed repr)[{}]", show_map::<u64, _>(h)),
            TriMapWire::Delta(s) => format!("{} / {}", MapDelta::<u64>::build(s).show(), MapDelta::<String>::build(s).show()),
        }
    }
    fn check(&self, st: &TriMap) -> Option<(&'static str, String)> {
        let (eh, er) = (MapReveal::<u64>::live(&st.h), MapReveal::<u64>::live(&st.r));
        let ef = st.f.as_ref().map(|f| MapReveal::<String>::live(f));
        let lives = [Some(idx_mask(&entry_keys(&eh))), Some(idx_mask(&entry_keys(&er))), ef.as_ref().map(|e| idx_mask(&entry_keys(e)))];
        let tombs = [
            Some(idx_mask(&MapReveal::<u64>::tombs(&st.h))),
            Some(idx_mask(&MapReveal::<u64>::tombs(&st.r))),
            st.f.as_ref().map(|f| idx_mask(&MapReveal::<String>::tombs(f))),
        ];
        let shown = Self::show(st);
        if let Some(v) = tri_check(&lives, &tombs, &st.model, st.flags_differ, &shown) {
            return Some(v);
        }
        // the value of every live key is the merge of all values inserted for it that reached us
        const VAL: [&str; 3] = ["c05_live_value_ne_merged_inserts_hash", "c05_live_value_ne_merged_inserts_roaring", "c05_live_value_ne_merged_inserts_fst"];
        let vals = [Some(live_vals(&eh)), Some(live_vals(&er)), ef.as_ref().map(|e| live_vals(e))];
        for b in 0..3 {
            let Some(v) = vals[b] else { continue };
            for k in subset(st.model.live(), NKEYS as u8) {
                if v[k as usize] != st.model.vals[k as usize] {
                    return Some((VAL[b], format!("{} back end: value of live key #{k} has items {:#b}, merged inserted values are {:#b}; {shown}", BACKENDS[b], v[k as usize], st.model.vals[k as usize])));
                }
            }
        }
        None
    }
    fn observe(sim: &mut Sim, before: &TriMap, m: &TriMapMsg) {
        tri_observe(sim, &before.model, &m.model)
    }
}
