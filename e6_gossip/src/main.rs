//! E6 `e6_gossip` — replicated lattice state under a faulty network (DESIGN.md §4 E6):
//! C01 (merge is ACI, operational form: replicas converge under any delivery schedule),
//! C02 (merge returns true exactly when the receiver grew), C05 (tombstone lattices never
//! resurrect; hash-set / roaring / FST back ends observably identical).
mod canon;
mod gens;
mod net;
mod tomb;

use net::{LatticeGen, Mode};
use simcore::runner::{Engine, Prop, Scenario};
use simcore::{Outcome, Sim};

fn c01<G: LatticeGen>(sim: &mut Sim) -> Outcome {
    net::run::<G>(sim, Mode::C01)
}
fn c02<G: LatticeGen>(sim: &mut Sim) -> Outcome {
    net::run::<G>(sim, Mode::C02)
}
fn c05<G: LatticeGen>(sim: &mut Sim) -> Outcome {
    net::run::<G>(sim, Mode::C05)
}

macro_rules! scenarios {
    ($f:ident; $( $G:ty : $w:expr ),* $(,)?) => {
        vec![ $( Scenario { name: <$G as LatticeGen>::NAME, weight: $w, run: $f::<$G> } ),* ]
    };
}

macro_rules! all_types {
    ($f:ident) => {
        scenarios!($f;
            gens::SetUnionGen: 48,
            gens::MapMaxGen: 32,
            gens::MapSetGen: 48,
            gens::MapBotGen: 32,
            gens::SimpleGen<lattices::Max<u8>>: 12,
            gens::SimpleGen<lattices::Min<u8>>: 12,
            gens::WithBotGen: 32,
            gens::WithTopGen: 32,
            gens::PairGen: 48,
            gens::DomPairGen: 48,
            gens::SimpleGen<lattices::Conflict<u8>>: 16,
            gens::SimpleGen<lattices::Point<u8, ()>>: 8,
            gens::DomPairPointGen: 16,
            gens::PairPointGen: 16,
            gens::DerivedPointGen: 16,
            gens::SimpleGen<lattices::WithTop<lattices::Max<bool>>>: 12,
            gens::SimpleGen<lattices::WithTop<lattices::Min<u32>>>: 12,
            gens::SimpleGen<lattices::WithTop<lattices::WithTop<lattices::set_union::SetUnionHashSet<u8>>>>: 12,
            gens::VecUnionGen: 48,
            gens::UnionFindGen: 48,
            gens::SimpleGen<()>: 2,
            gens::DerivedGen: 48,
            gens::DerivedTupleGen: 32,
            tomb::SetTombHashGen: 48,
            tomb::SetTombRoaringGen: 32,
            tomb::SetTombFstGen: 1,
            tomb::MapTombHashGen: 48,
            tomb::MapTombRoaringGen: 32,
            tomb::MapTombFstGen: 1,
        )
    };
}

const REAL_LATTICES: &[&str] = &[
    "lattices::{Merge, LatticeFrom, IsBot, PartialEq, PartialOrd} impls of SetUnion (HashSet/BTreeSet replicas; HashSet/BTreeSet/Vec/ArraySet/OptionSet/SingletonSet on the wire), MapUnion (HashMap/BTreeMap replicas; + VecMap/ArrayMap/OptionMap/SingletonMap on the wire) of Max, of SetUnion, of WithBot<Max>; Max, Min, WithBot<SetUnion>, WithTop<SetUnion>, Pair<SetUnion, MapUnion<Max>>, DomPair<Max, SetUnion>, Conflict, Point (alone and nested: DomPair<Max, Point>, Pair<SetUnion, Point>, a derived struct field), WithTop<Max<bool>>, WithTop<Min<u32>>, WithTop<WithTop<SetUnion>>, VecUnion<SetUnion>, UnionFind (HashMap/BTreeMap replicas, six wire carriers), ()",
    "lattices_macro #[derive(Lattice)] on a named three-field generic struct and on a tuple struct",
    "SetUnionWithTombstones / MapUnionWithTombstones with HashSet, RoaringTombstoneSet and FstTombstoneSet<String> tombstone back ends (lattices::tombstone), delta forms SingletonSet/EmptySet/OptionSet/Vec/SingletonMap/EmptyMap/VecMap",
];
const STUBS: &[&str] = &[
    "replicas (one lattice value + last durable snapshot), local update generators over element domains of 2-4 (keys 2-6 for tombstone types)",
    "network: (time, seq)-ordered event queue with latency jitter, drop, duplicate, partition/heal, slow replica",
    "crash / restart from the last durable snapshot; a local update is acknowledged once a snapshot contains it",
    "gossip protocols: state-push (periodic full state to a peer / all peers) and flag-driven (forward to ring neighbours iff merge returned true)",
    "model of causality: per replica the set of update ids it has seen (bit set carried by messages and snapshots)",
];

fn main() {
    let engine = Engine {
        name: "e6_gossip",
        props: vec![
            Prop {
                id: "C01",
                scenarios: all_types!(c01),
                quick_runs: 400_000,
                thorough_runs: 20_000_000,
                rule: "one scenario per lattice type; each run draws knobs (3-5 replicas, horizon, drop/duplicate rates, jitter, slow replica, gossip and persist periods, crash and partition episodes, carriers per replica, element domain 2-4) and then a schedule: 0-6 local updates per replica (merge of a generated delta, wire carriers differ from replica carriers), periodic state-push gossip, message fates; then n fault-free anti-entropy rounds. Types containing a Point are additionally offered, at a seeded subset of deliveries and on a clone, a message whose point value differs from the receiver's: that merge must be refused (panic, caught inside the scenario); returning normally is a violation. Distinct = distinct hash of the realised decision trace (+ scenario); non-trivial = at least one update was issued AND at least one message was delivered AND at least one fault fired (drop, duplicate, reorder, partition drop, crash, slow replica, loss at a down replica).",
                time_unit: "events",
                real: REAL_LATTICES,
                stubs: STUBS,
                assumptions: &[
                    "sampled schedules over values reachable by gossip from generated deltas; not the property's bounded-exhaustive 'all triples of all values'",
                    "DomPair is instantiated with a totally ordered key lattice (Max<u8>) and Point is only ever merged with equal values: the documented side conditions are assumed by the generators, not tested",
                    "equality is the lattice type's own PartialEq; for the roaring/FST tombstone types (which have none) it is equality of what as_reveal_ref() shows, bottom-valued map entries ignored",
                    "array/vec wire carriers are generated duplicate-free; union-find wire maps are arbitrary (item,parent) edge lists",
                    "a mutant that stays a semilattice under the type's own equality (e.g. MapUnion keeping bottom-valued keys) is invisible to C01 by definition; C02 sees it",
                ],
                required_probes: &["partition_drop", "crash_restart", "crash_lost_volatile_updates", "duplicate_delivered", "reordered", "fork_check", "redelivery_check", "fold_check", "flag_false", "flag_true", "issued_update_lost_unacknowledged", "point_inequal_merge_refused"],
            },
            Prop {
                id: "C02",
                scenarios: all_types!(c02),
                quick_runs: 400_000,
                thorough_runs: 20_000_000,
                rule: "same replicas, fault model and generators as C01 but the flag-driven protocol on a (uni- or bidirectional) ring: during the fault phase a replica forwards its state to its neighbours iff merge returned true (local update or delivery); when faults stop every replica sends its state once to each neighbour and the flood runs to quiescence. Every merge call (local update, delivery, re-delivery) is checked against a clone taken before it. Distinct = distinct hash of the realised decision trace (+ scenario); non-trivial = at least one update issued AND one message delivered AND one fault fired.",
                time_unit: "events",
                real: REAL_LATTICES,
                stubs: STUBS,
                assumptions: &[
                    "sampled pairs (state, message) reachable by gossip, not all pairs of values",
                    "flag == (before != after) uses the type's own PartialEq (revealed parts for roaring/FST tombstone types)",
                    "'false => message <= state' is checked only where that pair of carrier types implements PartialOrd (consistency only; the order itself is C03, not claimed)",
                    "flood quiescence budget: 2 * n * degree * (issued updates + 2) + 16 sends after the kick-off; sound because a value that is a join of a subset of the issued updates can strictly grow at most once per update",
                ],
                required_probes: &["partition_drop", "crash_restart", "duplicate_delivered", "reordered", "redelivery_check", "flag_false", "flag_true", "le_checked"],
            },
            Prop {
                id: "C05",
                scenarios: scenarios!(c05; tomb::TriSetGen: 1, tomb::TriMapGen: 1),
                quick_runs: 80_000,
                thorough_runs: 4_000_000,
                rule: "three replica stacks (HashSet, RoaringTombstoneSet, FstTombstoneSet<String> tombstone back ends; u64 keys above 2^32 with colliding low halves, String keys incl. the empty string, prefixes and non-ASCII) execute the identical schedule in lock-step next to a per-replica model (inserted_seen, tomb_seen, value items seen per key). Local operations: insert delta (key live), delete delta (key in the tombstone set), option/vec deltas mixing both on disjoint keys; state-push gossip (own representation or converted to the hash-backed representation by LatticeFrom) under drop/duplicate/reorder/partition/crash-restart/slow replica; n fault-free rounds. Oracle after every event that touched a replica. Distinct = distinct hash of the realised decision trace (+ scenario); non-trivial = at least one update issued AND one message delivered AND one fault fired.",
                time_unit: "events",
                real: &[
                    "SetUnionWithTombstones<HashSet<u64>, HashSet<u64>>, SetUnionWithTombstonesRoaring, SetUnionWithTombstonesFstString: Merge (state and delta forms), LatticeFrom, as_reveal_ref",
                    "MapUnionHashMapWithTombstoneHashSet<u64, SetUnionHashSet<u8>>, MapUnionWithTombstonesRoaring, MapUnionWithTombstonesFstString: Merge, LatticeFrom, as_reveal_ref",
                    "lattices::tombstone::{RoaringTombstoneSet, FstTombstoneSet<String>, TombstoneSet for HashSet}",
                ],
                stubs: STUBS,
                assumptions: &[
                    "sampled merge histories over 2-6 keys, 3-5 replicas; not all histories",
                    "no delta or state ever holds the same key both live and tombstoned on input (documented invariant of legal usage); map inserts carry non-bottom values",
                    "the tombstone set itself is compared across back ends, not against the model (the property states live contents, non-resurrection, disjointness and back-end equivalence)",
                    "merge's boolean result is treated as an observable result for back-end equivalence",
                ],
                required_probes: &["partition_drop", "crash_restart", "duplicate_delivered", "reordered", "fork_check", "tomb_after_insert_remote", "insert_after_tomb", "flag_false", "flag_true"],
            },
        ],
    };
    // debugging aid (not used by the registered commands): restrict every property to one scenario
    let mut engine = engine;
    if let Ok(only) = std::env::var("E6_ONLY") {
        for p in &mut engine.props {
            p.scenarios.retain(|s| s.name == only);
        }
        engine.props.retain(|p| !p.scenarios.is_empty());
    }
    simcore::runner::main(engine);
}
