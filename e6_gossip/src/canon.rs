//! Canonical (hash-iteration-order independent) text of lattice values, for event logs, state
//! fingerprints and violation details. Never used to decide an oracle.

use std::cell::Cell;
use std::collections::{BTreeMap, BTreeSet, HashMap, HashSet};
use std::fmt::Write as _;
use std::hash::Hash;

use lattices::collections::{
    ArrayMap, ArraySet, EmptyMap, EmptySet, OptionMap, OptionSet, SingletonMap, SingletonSet, VecMap,
};
use lattices::map_union::MapUnion;
use lattices::set_union::SetUnion;
use lattices::union_find::UnionFind;
use lattices::{Conflict, DomPair, Max, Min, Pair, Point, VecUnion, WithBot, WithTop};

pub trait Canon {
    fn canon(&self) -> String;
}

macro_rules! canon_display {
    ($($t:ty),*) => { $( impl Canon for $t { fn canon(&self) -> String { format!("{self}") } } )* };
}
canon_display!(u8, u16, u32, u64, i8, i32, bool);
impl Canon for String {
    fn canon(&self) -> String {
        format!("{self:?}")
    }
}
impl Canon for () {
    fn canon(&self) -> String {
        "()".into()
    }
}

pub fn join_sorted<T: Canon + Ord>(mut v: Vec<&T>) -> String {
    v.sort();
    let mut s = String::from("{");
    for (i, x) in v.iter().enumerate() {
        if i > 0 {
            s.push(',');
        }
        s.push_str(&x.canon());
    }
    s.push('}');
    s
}

pub fn join_sorted_kv<K: Canon + Ord, V: Canon>(mut v: Vec<(&K, &V)>) -> String {
    v.sort_by(|a, b| a.0.cmp(b.0));
    let mut s = String::from("{");
    for (i, (k, x)) in v.iter().enumerate() {
        if i > 0 {
            s.push(',');
        }
        let _ = write!(s, "{}:{}", k.canon(), x.canon());
    }
    s.push('}');
    s
}

// ---- plain collections (the harness never iterates a std hash collection without sorting)
impl<T: Canon + Ord + Hash> Canon for HashSet<T> {
    fn canon(&self) -> String {
        #[allow(clippy::disallowed_methods)]
        join_sorted(self.iter().collect())
    }
}
impl<T: Canon + Ord> Canon for BTreeSet<T> {
    fn canon(&self) -> String {
        join_sorted(self.iter().collect())
    }
}
impl<T: Canon + Ord> Canon for Vec<T> {
    fn canon(&self) -> String {
        join_sorted(self.iter().collect())
    }
}
impl<T: Canon + Ord, const N: usize> Canon for ArraySet<T, N> {
    fn canon(&self) -> String {
        join_sorted(self.0.iter().collect())
    }
}
impl<T: Canon + Ord> Canon for OptionSet<T> {
    fn canon(&self) -> String {
        join_sorted(self.0.iter().collect())
    }
}
impl<T: Canon + Ord> Canon for SingletonSet<T> {
    fn canon(&self) -> String {
        format!("{{{}}}", self.0.canon())
    }
}
impl<T> Canon for EmptySet<T> {
    fn canon(&self) -> String {
        "{}".into()
    }
}
impl<K: Canon + Ord + Hash, V: Canon> Canon for HashMap<K, V> {
    fn canon(&self) -> String {
        join_sorted_kv(self.iter().collect())
    }
}
impl<K: Canon + Ord, V: Canon> Canon for BTreeMap<K, V> {
    fn canon(&self) -> String {
        join_sorted_kv(self.iter().collect())
    }
}
impl<K: Canon + Ord, V: Canon> Canon for VecMap<K, V> {
    fn canon(&self) -> String {
        join_sorted_kv(self.keys.iter().zip(self.vals.iter()).collect())
    }
}
impl<K: Canon + Ord, V: Canon, const N: usize> Canon for ArrayMap<K, V, N> {
    fn canon(&self) -> String {
        join_sorted_kv(self.keys.iter().zip(self.vals.iter()).collect())
    }
}
impl<K: Canon + Ord, V: Canon> Canon for OptionMap<K, V> {
    fn canon(&self) -> String {
        join_sorted_kv(self.0.iter().map(|(k, v)| (k, v)).collect())
    }
}
impl<K: Canon + Ord, V: Canon> Canon for SingletonMap<K, V> {
    fn canon(&self) -> String {
        format!("{{{}:{}}}", self.0.canon(), self.1.canon())
    }
}
impl<K, V> Canon for EmptyMap<K, V> {
    fn canon(&self) -> String {
        "{}".into()
    }
}
impl<T: Canon + Copy> Canon for Cell<T> {
    fn canon(&self) -> String {
        self.get().canon()
    }
}

// ---- lattices
impl<S: Canon> Canon for SetUnion<S> {
    fn canon(&self) -> String {
        self.as_reveal_ref().canon()
    }
}
impl<M: Canon> Canon for MapUnion<M> {
    fn canon(&self) -> String {
        self.as_reveal_ref().canon()
    }
}
impl<T: Canon> Canon for Max<T> {
    fn canon(&self) -> String {
        format!("Max({})", self.as_reveal_ref().canon())
    }
}
impl<T: Canon> Canon for Min<T> {
    fn canon(&self) -> String {
        format!("Min({})", self.as_reveal_ref().canon())
    }
}
impl<T: Canon> Canon for WithBot<T> {
    fn canon(&self) -> String {
        match self.as_reveal_ref() {
            None => "Bot".into(),
            Some(x) => format!("Some({})", x.canon()),
        }
    }
}
impl<T: Canon> Canon for WithTop<T> {
    fn canon(&self) -> String {
        match self.as_reveal_ref() {
            None => "Top".into(),
            Some(x) => format!("Some({})", x.canon()),
        }
    }
}
impl<A: Canon, B: Canon> Canon for Pair<A, B> {
    fn canon(&self) -> String {
        let (a, b) = self.as_reveal_ref();
        format!("Pair({},{})", a.canon(), b.canon())
    }
}
impl<A: Canon, B: Canon> Canon for DomPair<A, B> {
    fn canon(&self) -> String {
        let (a, b) = self.as_reveal_ref();
        format!("Dom({}=>{})", a.canon(), b.canon())
    }
}
impl<T: Canon> Canon for Conflict<T> {
    fn canon(&self) -> String {
        match self.as_reveal_ref() {
            None => "Conflict".into(),
            Some(x) => format!("Just({})", x.canon()),
        }
    }
}
impl<T: Canon, P> Canon for Point<T, P> {
    fn canon(&self) -> String {
        format!("Point({})", self.val.canon())
    }
}
impl<T: Canon> Canon for VecUnion<T> {
    fn canon(&self) -> String {
        let v: Vec<String> = self.as_reveal_ref().iter().map(|x| x.canon()).collect();
        format!("[{}]", v.join(","))
    }
}
/// Union-find: the raw parent map as wire text (sorted by key). The *value* is the partition;
/// replica states are shown through `uf_partition` in the generator, not through this impl.
impl<M: Canon> Canon for UnionFind<M> {
    fn canon(&self) -> String {
        format!("uf{}", self.as_reveal_ref().canon())
    }
}
