//! E6 core: discrete-event simulation of replicas holding one lattice value each, gossiping over
//! a faulty network (DESIGN.md §4 E6, §5 C01/C02/C05).
//!
//! Real code: every `G::merge`, `G::eq`, `G::msg_le`, `G::snapshot` call ends in `lattices`
//! trait impls. Stubs: replicas, durable snapshots, the network, the gossip protocols, the model
//! of "which local updates has this replica causally seen" (`known`, a bit set of update ids).

use std::collections::{BTreeMap, BTreeSet};

use simcore::{Outcome, Sim, Violation};

/// Which property's oracle set is active (the fault model and the replicas are the same).
#[derive(Clone, Copy, PartialEq, Eq, Debug)]
pub enum Mode {
    /// state-push gossip; convergence, fold, idempotence and fork (both orders) oracles
    C01,
    /// flag-driven gossip on a cycle; flag oracle on every merge, flood converges and quiesces
    C02,
    /// state-push gossip over three tombstone back ends in lock-step (the `G` is a tri-stack)
    C05,
}

/// One lattice type under test: generator of deltas, wire forms, and the real operations.
pub trait LatticeGen: Sized {
    const NAME: &'static str;
    type State: Clone;
    type Msg: Clone;

    /// Per-run set-up; draws the type's own knobs (domain size, carriers, common initial value).
    fn new(sim: &mut Sim, n: usize) -> Self;
    /// Start value of replica `i` (drawn in `new`; may differ between replicas unless the type's
    /// documented precondition forbids it). It counts as a durable, acknowledged update of `i`.
    fn init(&self, i: usize) -> Self::State;
    /// A generated local update for replica `i` currently holding `st` (legal usage only).
    fn delta(&mut self, sim: &mut Sim, i: usize, st: &Self::State) -> Self::Msg;
    /// The full state as a wire message; the carrier is chosen by `sim`.
    fn snapshot(&self, sim: &mut Sim, st: &Self::State) -> Self::Msg;
    /// REAL: `Merge::merge`.
    fn merge(st: &mut Self::State, m: Self::Msg) -> bool;
    /// REAL: the type's own `PartialEq` (where the type has none: equality of the revealed parts).
    fn eq(a: &Self::State, b: &Self::State) -> bool;
    /// REAL: `Some(m <= st)` where this pair of types implements `PartialOrd`, else `None`.
    fn msg_le(m: &Self::Msg, st: &Self::State) -> Option<bool>;
    /// Canonical (hash-order independent) text of a state / a message.
    fn show(st: &Self::State) -> String;
    fn show_msg(m: &Self::Msg) -> String;
    /// Canonical fingerprint fed into the event log hash.
    fn fp(st: &Self::State) -> u64 {
        simcore::fnv_str(&Self::show(st))
    }
    /// Extra invariant evaluated after every event that touched `st` (C05 model oracle).
    /// Returns (class suffix, detail).
    fn check(&self, _st: &Self::State) -> Option<(&'static str, String)> {
        None
    }
    /// Types containing a `Point`: a message that is legal in every respect except that its point
    /// value differs from the receiver's (C01: "point lattices only ever merge equal values", i.e.
    /// such a merge must be refused). `None`: the type has no such clause.
    const HAS_INEQUAL_POINT: bool = false;
    fn inequal_point_msg(&self, _sim: &mut Sim, _st: &Self::State) -> Option<Self::Msg> {
        None
    }
    /// True when one merge of this run's type costs ~0.4 ms (FST tombstone set: every merge
    /// rebuilds the FST): such runs issue fewer updates and skip the optional in-run fold checks.
    fn heavy(&self) -> bool {
        false
    }
    /// Reach probes that need to look at (state before, message) of a delivery.
    fn observe(_sim: &mut Sim, _before: &Self::State, _m: &Self::Msg) {}
}

enum Ev<G: LatticeGen> {
    Local(usize),
    Persist(usize),
    Gossip(usize),
    Deliver { from: usize, to: usize, msg: G::Msg, known: u64, no: u64, dup: bool },
    Crash(usize, u64),
    Restart(usize),
    PartStart(u32, u64),
    Heal,
}

struct Replica<G: LatticeGen> {
    st: G::State,
    up: bool,
    durable: G::State,
    known: u64,
    durable_known: u64,
}

struct Knobs {
    n: usize,
    horizon: u64,
    drop_pct: u64,
    dup_pct: u64,
    jitter: u64,
    slow: Option<usize>,
    slow_extra: u64,
    gossip_period: u64,
    persist_period: u64,
    sync_persist_pct: u64,
    fork_pct: u64,
    idem_pct: u64,
    fold_pct: u64,
    fanout_all: bool,
    bidir: bool,
    poison_pct: u64,
}

struct World<'s, G: LatticeGen> {
    sim: &'s mut Sim,
    mode: Mode,
    g: G,
    k: Knobs,
    reps: Vec<Replica<G>>,
    q: BTreeMap<(u64, u64), Ev<G>>,
    qseq: u64,
    now: u64,
    /// partition: bit i set = replica i is on side A; `None` = connected
    part: Option<u32>,
    updates: Vec<G::Msg>,
    issued: u64,
    acked: u64,
    send_no: u64,
    /// highest send number delivered so far per (from, to)
    last_no: Vec<u64>,
    /// send numbers delivered so far (second copy of a duplicate = already present)
    delivered_nos: BTreeSet<u64>,
    faults_on: bool,
    viol: Option<Violation>,
    events: u64,
    delivered: u64,
    sends_after_kickoff: u64,
    flood: bool,
    /// sensitivity aid (env E6_C02_RUN_LEVEL_ONLY, never set by the registered commands): switch
    /// the per-merge flag oracle off to show that the run-level flood oracles catch flag errors too
    run_level_only: bool,
}

fn bits(mut m: u64) -> impl Iterator<Item = usize> {
    std::iter::from_fn(move || {
        if m == 0 {
            None
        } else {
            let i = m.trailing_zeros() as usize;
            m &= m - 1;
            Some(i)
        }
    })
}

impl<'s, G: LatticeGen> World<'s, G> {
    fn fail(&mut self, oracle: &str, detail: String) {
        if self.viol.is_none() {
            // the generic gossip oracles are reported under the property they run for
            let oracle = if self.mode == Mode::C05 { oracle.replace("c01_", "c05_") } else { oracle.to_string() };
            self.viol = Some(Violation::new(format!("{oracle}/{}", G::NAME), detail));
        }
    }

    /// Stamp the history: `code` feeds the determinism hash, the text is built only when verbose.
    fn log(&mut self, code: u64, f: impl FnOnce(&Self) -> String) {
        let s = if self.sim.verbose { Some(f(self)) } else { None };
        self.sim.event(code, || s.unwrap_or_default());
    }

    fn push(&mut self, at: u64, ev: Ev<G>) {
        self.qseq += 1;
        self.q.insert((at, self.qseq), ev);
    }

    fn cut(&self, a: usize, b: usize) -> bool {
        match self.part {
            Some(m) => ((m >> a) & 1) != ((m >> b) & 1),
            None => false,
        }
    }

    fn neighbours(&self, i: usize) -> Vec<usize> {
        let n = self.k.n;
        let mut v = vec![(i + 1) % n];
        if self.k.bidir && n > 2 {
            v.push((i + n - 1) % n);
        }
        v
    }

    /// The single place where the real `merge` runs on a replica's state (local update, delivery,
    /// re-delivery). In C02 mode the flag oracle is evaluated here, on every call.
    fn do_merge(&mut self, r: usize, m: &G::Msg, what: &str) -> bool {
        let need_before = self.mode == Mode::C02 && !self.run_level_only;
        let before = if need_before { Some(self.reps[r].st.clone()) } else { None };
        let flag = G::merge(&mut self.reps[r].st, m.clone());
        self.sim.probe(if flag { "flag_true" } else { "flag_false" });
        if let Some(before) = before {
            let changed = !G::eq(&before, &self.reps[r].st);
            if flag && !changed {
                let d = format!(
                    "{what} at R{r}: merge returned true but the value is == the value before: state {} merged {}",
                    G::show(&before),
                    G::show_msg(m)
                );
                self.fail("c02_spurious_true", d);
            } else if !flag && changed {
                let d = format!(
                    "{what} at R{r}: merge returned false but the value changed: {} merged {} -> {}",
                    G::show(&before),
                    G::show_msg(m),
                    G::show(&self.reps[r].st)
                );
                self.fail("c02_missed_change", d);
            } else if !flag {
                match G::msg_le(m, &before) {
                    Some(true) => self.sim.probe("le_checked"),
                    Some(false) => {
                        let d = format!(
                            "{what} at R{r}: merge returned false but the message {} is not <= the state {} by the type's PartialOrd",
                            G::show_msg(m),
                            G::show(&before)
                        );
                        self.fail("c02_false_but_not_le", d);
                    }
                    None => {}
                }
            }
        }
        flag
    }

    fn after_touch(&mut self, r: usize) {
        if let Some((cls, d)) = self.g.check(&self.reps[r].st) {
            let d = format!("R{r}: {d}");
            self.fail(cls, d);
        }
    }

    fn latency(&mut self, from: usize, to: usize) -> u64 {
        let mut l = 1;
        if self.k.jitter > 0 {
            l += self.sim.choose("jitter", 0, self.k.jitter);
        }
        if self.k.slow == Some(from) || self.k.slow == Some(to) {
            l += self.k.slow_extra;
            self.sim.fault("slow_replica");
        }
        l
    }

    /// Send the current state of `from` to `to` through the (possibly faulty) network.
    fn send_state(&mut self, from: usize, to: usize) {
        let msg = self.g.snapshot(self.sim, &self.reps[from].st);
        let known = self.reps[from].known;
        self.send_no += 1;
        let no = self.send_no;
        if self.flood {
            self.sends_after_kickoff += 1;
        }
        if self.faults_on {
            if self.cut(from, to) {
                self.sim.fault("partition_drop");
                self.log(0x100 + (from * 8 + to) as u64, |w| format!("t={} R{from}->R{to} send #{no} dropped by the partition", w.now));
                return;
            }
            if self.k.drop_pct > 0 && self.sim.flip("drop", self.k.drop_pct, 100) {
                self.sim.fault("drop");
                self.log(0x140 + (from * 8 + to) as u64, |w| format!("t={} R{from}->R{to} send #{no} dropped", w.now));
                return;
            }
        }
        let l = self.latency(from, to);
        let at = self.now + l;
        if self.faults_on && self.k.dup_pct > 0 && self.sim.flip("dup", self.k.dup_pct, 100) {
            self.sim.fault("duplicate");
            let l2 = self.latency(from, to);
            let at2 = self.now + l2;
            self.push(at2, Ev::Deliver { from, to, msg: msg.clone(), known, no, dup: true });
        }
        self.log(0x180 + (from * 8 + to) as u64, |w| format!("t={} R{from}->R{to} send #{no} (arrives t={at}) {}", w.now, G::show_msg(&msg)));
        self.push(at, Ev::Deliver { from, to, msg, known, no, dup: false });
    }

    fn forward(&mut self, r: usize) {
        for nb in self.neighbours(r) {
            self.send_state(r, nb);
        }
    }

    fn local_update(&mut self, r: usize) {
        if !self.reps[r].up {
            self.sim.probe("update_skipped_replica_down");
            return;
        }
        if self.updates.len() >= 60 {
            return;
        }
        let delta = self.g.delta(self.sim, r, &self.reps[r].st);
        let id = self.updates.len();
        self.updates.push(delta.clone());
        self.issued |= 1 << id;
        let flag = self.do_merge(r, &delta, "local update");
        self.reps[r].known |= 1 << id;
        self.after_touch(r);
        let fp = G::fp(&self.reps[r].st);
        self.log(fp ^ 0x1000 ^ flag as u64, |w| {
            format!("t={} R{r} local update u{id} {} -> flag {flag}, state {}", w.now, G::show_msg(&delta), G::show(&w.reps[r].st))
        });
        if self.k.sync_persist_pct > 0 && self.sim.flip("sync_persist", self.k.sync_persist_pct, 100) {
            self.persist(r);
        }
        if self.mode == Mode::C02 && flag {
            self.forward(r);
        }
    }

    fn persist(&mut self, r: usize) {
        if !self.reps[r].up {
            return;
        }
        self.reps[r].durable = self.reps[r].st.clone();
        self.reps[r].durable_known = self.reps[r].known;
        self.acked |= self.reps[r].known;
        self.log(0x2000 + r as u64, |w| format!("t={} R{r} persisted (updates {:#b} durable => acknowledged)", w.now, w.reps[r].known));
    }

    fn crash(&mut self, r: usize, down_for: u64) {
        if !self.reps[r].up {
            return;
        }
        self.reps[r].up = false;
        self.sim.fault("crash");
        self.log(0x2100 + r as u64, |w| format!("t={} R{r} CRASH (volatile state lost)", w.now));
        let at = self.now + down_for;
        self.push(at, Ev::Restart(r));
    }

    fn restart(&mut self, r: usize) {
        if self.reps[r].up {
            return;
        }
        let lost = self.reps[r].known & !self.reps[r].durable_known;
        self.reps[r].st = self.reps[r].durable.clone();
        self.reps[r].known = self.reps[r].durable_known;
        self.reps[r].up = true;
        self.sim.probe("crash_restart");
        if lost != 0 {
            self.sim.probe("crash_lost_volatile_updates");
        }
        self.after_touch(r);
        let fp = G::fp(&self.reps[r].st);
        self.log(fp ^ 0x2200, |w| format!("t={} R{r} RESTART from durable snapshot {} (volatile updates lost: {lost:#b})", w.now, G::show(&w.reps[r].st)));
    }

    /// Another in-flight message for `to` (first in delivery order), for the fork check.
    fn other_in_flight(&self, to: usize) -> Option<G::Msg> {
        for ev in self.q.values() {
            if let Ev::Deliver { to: t, msg, .. } = ev {
                if *t == to {
                    return Some(msg.clone());
                }
            }
        }
        None
    }

    fn deliver(&mut self, from: usize, to: usize, msg: G::Msg, mknown: u64, no: u64, dup: bool) {
        if !self.reps[to].up {
            self.sim.fault("lost_at_down_replica");
            self.log(0x300 + (from * 8 + to) as u64, |w| format!("t={} R{from}->R{to} #{no} lost: receiver is down", w.now));
            return;
        }
        if self.faults_on && self.cut(from, to) {
            self.sim.fault("partition_drop");
            self.log(0x340 + (from * 8 + to) as u64, |w| format!("t={} R{from}->R{to} #{no} cut in flight by the partition", w.now));
            return;
        }
        self.delivered += 1;
        let li = from * 8 + to;
        if no < self.last_no[li] {
            // a message sent earlier on this link arrives after a later one
            self.sim.fault("reordered");
        }
        if no > self.last_no[li] {
            self.last_no[li] = no;
        }
        if !self.delivered_nos.insert(no) {
            // the second copy of a duplicated send (whichever arrives second)
            self.sim.probe("duplicate_delivered");
        }
        // ---- C01 (iii): fork the replica and deliver two in-flight messages in both orders
        if self.mode != Mode::C02 && self.k.fork_pct > 0 && self.sim.flip("fork", self.k.fork_pct, 100) {
            if let Some(m2) = self.other_in_flight(to) {
                self.sim.probe("fork_check");
                let mut a = self.reps[to].st.clone();
                let mut b = self.reps[to].st.clone();
                G::merge(&mut a, msg.clone());
                G::merge(&mut a, m2.clone());
                G::merge(&mut b, m2.clone());
                G::merge(&mut b, msg.clone());
                if !G::eq(&a, &b) {
                    let d = format!(
                        "fork of R{to} holding {}: delivering {} then {} gives {}, the other order gives {}",
                        G::show(&self.reps[to].st),
                        G::show_msg(&msg),
                        G::show_msg(&m2),
                        G::show(&a),
                        G::show(&b)
                    );
                    self.fail("c01_order_dependent", d);
                    return;
                }
            }
        }
        // ---- C01, Point clause: a merge of inequal point values must be refused (it panics in
        // the real code); tried on a clone at a seeded subset of deliveries, in the build profile
        // of the check itself. The panic is the expected outcome and is caught here.
        if G::HAS_INEQUAL_POINT && self.mode == Mode::C01 && self.sim.flip("inequal_point", self.k.poison_pct, 100) {
            if let Some(bad) = self.g.inequal_point_msg(self.sim, &self.reps[to].st) {
                let mut victim = self.reps[to].st.clone();
                let shown_before = G::show(&victim);
                let r = std::panic::catch_unwind(std::panic::AssertUnwindSafe(|| {
                    let flag = G::merge(&mut victim, bad.clone());
                    (flag, G::show(&victim))
                }));
                match r {
                    Err(_) => {
                        self.sim.probe("point_inequal_merge_refused");
                        self.log(0x5800 + to as u64, |w| format!("t={} R{to} was offered {} with an inequal point value: merge refused (panicked), as required", w.now, G::show_msg(&bad)));
                    }
                    Ok((flag, after)) => {
                        let d = format!(
                            "R{to} holding {shown_before} merged {} whose point value differs: merge returned {flag} instead of refusing (panicking); value afterwards {after}",
                            G::show_msg(&bad)
                        );
                        self.fail("c01_point_inequal_merge_accepted", d);
                        return;
                    }
                }
            }
        }
        G::observe(self.sim, &self.reps[to].st, &msg);
        let flag = self.do_merge(to, &msg, "delivery");
        self.reps[to].known |= mknown;
        self.after_touch(to);
        let fp = G::fp(&self.reps[to].st);
        self.log(fp ^ (0x4000 + li as u64) ^ ((flag as u64) << 20), |w| {
            format!(
                "t={} R{from}->R{to} deliver #{no}{} {} -> flag {flag}, state {}",
                w.now,
                if dup { " (dup copy)" } else { "" },
                G::show_msg(&msg),
                G::show(&w.reps[to].st)
            )
        });
        if self.viol.is_some() {
            return;
        }
        // ---- C01 (iii): re-deliver the message just merged: the value must stay ==
        if self.k.idem_pct > 0 && self.sim.flip("redeliver", self.k.idem_pct, 100) {
            self.sim.probe("redelivery_check");
            let after = self.reps[to].st.clone();
            let flag2 = self.do_merge(to, &msg, "re-delivery");
            if !G::eq(&after, &self.reps[to].st) {
                let d = format!(
                    "R{to}: re-delivering the already merged {} changed the value {} -> {}",
                    G::show_msg(&msg),
                    G::show(&after),
                    G::show(&self.reps[to].st)
                );
                self.fail("c01_not_idempotent", d);
                return;
            }
            self.after_touch(to);
            self.log(0x5000 + to as u64 + ((flag2 as u64) << 8), |w| format!("t={} R{to} re-delivery of #{no}: flag {flag2}, value unchanged", w.now));
        }
        // ---- C01 (ii) at the point of use: the value is the fold of the updates seen
        if self.mode != Mode::C02 && self.k.fold_pct > 0 && self.sim.flip("foldcheck", self.k.fold_pct, 100) {
            self.check_fold(to, "during the run");
        }
        if self.mode == Mode::C02 && flag {
            self.forward(to);
        }
    }

    /// Oracle C01 (ii): the replica's value == left fold, in issue order, of the updates it has
    /// causally seen (its own durable/volatile ones plus what messages carried).
    fn check_fold(&mut self, r: usize, when: &str) {
        self.sim.probe("fold_check");
        // base: the replica's own start value (update id r); then every other update it has seen
        let mut acc = self.g.init(r);
        for id in bits(self.reps[r].known & !(1 << r)) {
            G::merge(&mut acc, self.updates[id].clone());
        }
        if !G::eq(&self.reps[r].st, &acc) {
            let ups: Vec<String> = bits(self.reps[r].known & !(1 << r)).map(|id| format!("u{id}={}", G::show_msg(&self.updates[id]))).collect();
            let d = format!(
                "{when}: R{r} holds {} but its start value {} merged, in issue order, with the updates it has seen [{}] is {}",
                G::show(&self.reps[r].st),
                G::show(&self.g.init(r)),
                ups.join(", "),
                G::show(&acc)
            );
            self.fail("c01_not_fold_of_updates", d);
        }
    }

    fn step(&mut self, t: u64, ev: Ev<G>) {
        self.now = t;
        self.events += 1;
        match ev {
            Ev::Local(r) => self.local_update(r),
            Ev::Persist(r) => {
                self.persist(r);
                let at = t + self.k.persist_period;
                if at < self.k.horizon {
                    self.push(at, Ev::Persist(r));
                }
            }
            Ev::Gossip(r) => {
                if self.reps[r].up {
                    if self.k.fanout_all {
                        for p in 0..self.k.n {
                            if p != r {
                                self.send_state(r, p);
                            }
                        }
                    } else {
                        let p = self.sim.choose("peer", 0, self.k.n as u64 - 2) as usize;
                        let p = if p >= r { p + 1 } else { p };
                        self.send_state(r, p);
                    }
                }
                let per = if self.k.slow == Some(r) { self.k.gossip_period * 2 } else { self.k.gossip_period };
                let at = t + per;
                if at < self.k.horizon {
                    self.push(at, Ev::Gossip(r));
                }
            }
            Ev::Deliver { from, to, msg, known, no, dup } => self.deliver(from, to, msg, known, no, dup),
            Ev::Crash(r, d) => self.crash(r, d),
            Ev::Restart(r) => self.restart(r),
            Ev::PartStart(mask, dur) => {
                if self.part.is_none() && self.faults_on {
                    self.part = Some(mask);
                    self.sim.probe("partition_started");
                    self.log(0x6000 + mask as u64, |_| format!("t={t} PARTITION: replicas {mask:#b} cut off from the rest"));
                    self.push(t + dur, Ev::Heal);
                }
            }
            Ev::Heal => {
                if self.part.take().is_some() {
                    self.log(0x6100, |_| format!("t={t} partition healed"));
                }
            }
        }
    }

    /// Run queued events with time < `until` (`None` = until the queue is empty).
    fn drain(&mut self, until: Option<u64>, budget: u64) -> bool {
        let mut steps = 0;
        loop {
            let Some((&(t, s), _)) = self.q.first_key_value() else { return true };
            if let Some(u) = until {
                if t >= u {
                    return true;
                }
            }
            let ev = self.q.remove(&(t, s)).unwrap();
            self.step(t, ev);
            if self.viol.is_some() {
                return true;
            }
            steps += 1;
            if steps >= budget {
                return false;
            }
        }
    }
}

pub fn run<G: LatticeGen>(sim: &mut Sim, mode: Mode) -> Outcome {
    // ---------------- knobs first (swarm style)
    let n = sim.choose("replicas", 3, 5) as usize;
    let g = G::new(sim, n);
    let heavy = g.heavy();
    let horizon = *sim.pick("horizon", &[30u64, 20, 45, 60]);
    let drop_pct = *sim.pick("drop_pct", &[0u64, 0, 10, 30]);
    let dup_pct = *sim.pick("dup_pct", &[0u64, 0, 15, 40]);
    let jitter = *sim.pick("jitter_max", &[0u64, 2, 6, 12]);
    let slow = if sim.flip("slow_on", 1, 4) { Some(sim.choose("slow_who", 0, n as u64 - 1) as usize) } else { None };
    let slow_extra = if slow.is_some() { sim.choose("slow_extra", 2, 10) } else { 0 };
    let gossip_period = sim.choose("gossip_period", 2, 7);
    let persist_period = *sim.pick("persist_period", &[4u64, 2, 9, 1000]);
    let sync_persist_pct = *sim.pick("sync_persist_pct", &[100u64, 0, 30, 70]);
    let fork_pct = *sim.pick("fork_pct", &[0u64, 20, 50]) / if heavy { 4 } else { 1 };
    let idem_pct = *sim.pick("redeliver_pct", &[0u64, 15, 40]) / if heavy { 4 } else { 1 };
    let fold_pct = *sim.pick("foldcheck_pct", &[0u64, 10, 30]) * (!heavy as u64);
    let fanout_all = sim.flip("fanout_all", 1, 3);
    let bidir = sim.flip("bidir", 1, 2);
    let crash_on = sim.flip("crash_on", 1, 2);
    let part_on = sim.flip("partition_on", 1, 2);
    let poison_pct = if G::HAS_INEQUAL_POINT { *sim.pick("inequal_point_pct", &[0u64, 10, 30]) } else { 0 };
    let k = Knobs {
        n, horizon, drop_pct, dup_pct, jitter, slow, slow_extra, gossip_period, persist_period,
        sync_persist_pct, fork_pct, idem_pct, fold_pct, fanout_all, bidir, poison_pct,
    };
    let mut reps = Vec::with_capacity(n);
    // start values: update ids 0..n, update i is known to (and durable at) replica i from t=0
    let mut updates = Vec::new();
    for i in 0..n {
        let st = g.init(i);
        updates.push(g.snapshot(sim, &st));
        reps.push(Replica::<G> { durable: st.clone(), st, up: true, known: 1 << i, durable_known: 1 << i });
    }
    let start_ids = (1u64 << n) - 1;
    let mut w = World::<G> {
        sim, mode, g, k, reps,
        q: BTreeMap::new(), qseq: 0, now: 0, part: None, updates, issued: start_ids, acked: start_ids,
        send_no: 0, last_no: vec![0; 64], delivered_nos: BTreeSet::new(), faults_on: true, viol: None, events: 0, delivered: 0,
        sends_after_kickoff: 0, flood: false,
        run_level_only: std::env::var_os("E6_C02_RUN_LEVEL_ONLY").is_some(),
    };
    for r in 0..n {
        let fp = G::fp(&w.reps[r].st);
        w.log(fp ^ 0x50, |w| format!("R{r} starts with {} (durable, acknowledged as update u{r})", G::show(&w.reps[r].st)));
    }
    // ---------------- the schedule of spontaneous events
    for r in 0..n {
        let ups = w.sim.choose("updates", 0, if heavy { 3 } else { 6 });
        for _ in 0..ups {
            let at = w.sim.choose("update_at", 0, horizon - 1);
            w.push(at, Ev::Local(r));
        }
        if mode != Mode::C02 {
            let ph = w.sim.choose("gossip_phase", 0, gossip_period - 1);
            w.push(ph, Ev::Gossip(r));
        }
        if persist_period < horizon {
            let ph = w.sim.choose("persist_phase", 0, persist_period - 1);
            w.push(ph, Ev::Persist(r));
        }
    }
    if crash_on {
        let c = w.sim.choose("crashes", 1, 3);
        for _ in 0..c {
            let who = w.sim.choose("crash_who", 0, n as u64 - 1) as usize;
            let at = w.sim.choose("crash_at", 1, horizon - 1);
            let d = w.sim.choose("crash_down", 1, 12);
            w.push(at, Ev::Crash(who, d));
        }
    }
    if part_on {
        let c = w.sim.choose("partitions", 1, 2);
        for _ in 0..c {
            let mask = w.sim.choose("part_mask", 1, (1u64 << n) - 2) as u32;
            let at = w.sim.choose("part_at", 0, horizon - 1);
            let d = w.sim.choose("part_len", 2, 25);
            w.push(at, Ev::PartStart(mask, d));
        }
    }

    // ---------------- fault phase
    if !w.drain(Some(horizon), 100_000) {
        if mode == Mode::C02 {
            // flag-driven forwarding: with truthful flags a replica forwards at most once per update
            // it had not seen (<= 7n updates), so 10^5 events before the horizon means that merge
            // keeps answering `true` without the value growing
            let d = format!("flag-driven forwarding did not settle during the fault phase: {} events before t={horizon} with {} update(s) on {n} replicas", w.events, w.updates.len());
            w.fail("c02_flood_not_quiescent", d);
        } else {
            w.fail("HARNESS/fault_phase_budget", "fault phase exceeded its event budget".into());
        }
    }
    if w.viol.is_none() {
        // faults stop: heal, restart everybody from the durable snapshot
        w.faults_on = false;
        w.now = w.now.max(horizon);
        if w.part.take().is_some() {
            w.log(0x6100, |_| "partition healed (end of fault phase)".to_string());
        }
        for r in 0..n {
            w.restart(r);
        }
        w.log(0x7000, |w| format!("---- end of fault phase at t={horizon}; {} update(s) issued, acknowledged {:#b}", w.updates.len(), w.acked));
        if mode != Mode::C02 && !heavy {
            for r in 0..n {
                if w.viol.is_none() {
                    w.check_fold(r, "at the end of the fault phase");
                }
            }
        }
    }

    // ---------------- fault-free anti-entropy tail
    let issued_n = w.updates.len() as u64; // start values included
    let local_updates = issued_n - n as u64;
    if w.viol.is_none() {
        match mode {
            Mode::C01 | Mode::C05 => {
                // bounded number of rounds: every replica pushes its state (ring successor, or to
                // all); in-flight messages of the fault phase are delivered as well (stale ones)
                // all-to-all: one round converges (two are run); ring: n-1 rounds needed (n are run)
                let rounds = if fanout_all { 2 } else { n };
                for round in 0..rounds {
                    for r in 0..n {
                        if fanout_all {
                            for p in 0..n {
                                if p != r {
                                    w.send_state(r, p);
                                }
                            }
                        } else {
                            w.send_state(r, (r + 1) % n);
                        }
                    }
                    if !w.drain(None, 100_000) {
                        w.fail("HARNESS/tail_budget", "tail round exceeded its event budget".into());
                    }
                    if w.viol.is_some() {
                        break;
                    }
                    w.log(0x7100 + round as u64, |_| format!("---- anti-entropy round {round} done"));
                }
            }
            Mode::C02 => {
                // kick-off: every replica sends its state once to each neighbour; from then on a
                // replica forwards only when merge returned true
                w.flood = true;
                for r in 0..n {
                    w.forward(r);
                }
                // Each replica's value can strictly grow at most once per update it has not seen
                // yet (values are joins of subsets of the issued updates), so the number of sends
                // after the kick-off is bounded by n * deg * (1 + issued). Twice that is the budget.
                let deg = if bidir && n > 2 { 2 } else { 1 };
                let budget = 2 * (n as u64) * deg * (issued_n + 2) + 16;
                loop {
                    let Some((&(t, s), _)) = w.q.first_key_value() else { break };
                    let ev = w.q.remove(&(t, s)).unwrap();
                    w.step(t, ev);
                    if w.viol.is_some() {
                        break;
                    }
                    if w.sends_after_kickoff > budget {
                        let states: Vec<String> = (0..n).map(|r| format!("R{r}={}", G::show(&w.reps[r].st))).collect();
                        let d = format!(
                            "flag-driven flood did not quiesce: {} sends after the kick-off (bound for {} update(s) on {} replicas: {}); states {}",
                            w.sends_after_kickoff, issued_n, n, budget, states.join(" ")
                        );
                        w.fail("c02_flood_not_quiescent", d);
                        break;
                    }
                }
            }
        }
    }

    // ---------------- end-state oracles
    if w.viol.is_none() {
        for r in 1..n {
            if !G::eq(&w.reps[0].st, &w.reps[r].st) || !G::eq(&w.reps[r].st, &w.reps[0].st) {
                let d = format!(
                    "after the fault-free tail R0 holds {} but R{r} holds {}",
                    G::show(&w.reps[0].st),
                    G::show(&w.reps[r].st)
                );
                let cls = match mode {
                    Mode::C01 => "c01_diverged",
                    Mode::C02 => "c02_flood_diverged",
                    Mode::C05 => "c05_diverged",
                };
                w.fail(cls, d);
                break;
            }
        }
    }
    if w.viol.is_none() && mode != Mode::C02 {
        // (all replicas are == at this point; heavy types fold at one replica only)
        for r in 0..(if heavy { 1 } else { n }) {
            if w.viol.is_none() {
                w.check_fold(r, "after the tail");
            }
        }
    }
    if w.viol.is_none() {
        // harness self-check of the update model: acknowledged ⊆ survived ⊆ issued, and after the
        // tail every replica has seen the same set of updates
        // (flag-driven flood: an update whose content was already subsumed is not forwarded, so
        // the id sets may differ there although the values are equal; survived = union)
        let survived = (0..n).fold(0, |m, r| m | w.reps[r].known);
        for r in 0..n {
            if mode != Mode::C02 && w.reps[r].known != survived {
                w.fail("HARNESS/known_sets_differ", format!("R{r} known {:#b} vs all {:#b}", w.reps[r].known, survived));
            }
        }
        if w.acked & !survived != 0 || survived & !w.issued != 0 {
            w.fail("HARNESS/ack_bounds", format!("acked {:#b} survived {:#b} issued {:#b}", w.acked, survived, w.issued));
        }
        if survived != w.issued {
            w.sim.probe("issued_update_lost_unacknowledged");
        }
    }
    for r in 0..n {
        let fp = G::fp(&w.reps[r].st);
        w.sim.state(fp);
    }
    w.log(0x7fff, |w| {
        let states: Vec<String> = (0..n).map(|r| format!("R{r}={}", G::show(&w.reps[r].st))).collect();
        format!("---- final: {}", states.join(" "))
    });
    let nontrivial = w.delivered > 0 && local_updates > 0 && w.sim.nonbenign > 0;
    Outcome { violation: w.viol, nontrivial, sim_time: w.events, discarded: false }
}
