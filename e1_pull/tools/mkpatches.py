#!/usr/bin/env python3
"""Generate the sensitivity patches /verif/sensitivity/{C11,C13}/mutN.diff from (file, old, new) edits."""
import difflib, os, sys
REPO = "/repo"
P = "dfir_pipes/src/pull/"
MUT = {
 "C11": [
  ("Zip forgets to keep the item it already pulled from the left input when the right one is Pending",
   P+"zip.rs",
   "                *this.buffer = Some(Either::Left((left_item, left_meta)));\n                PullStep::pending()",
   "                let _ = (left_item, left_meta);\n                PullStep::pending()"),
  ("FlatMapStream clears `current` when the inner stream is Pending (rest of the inner stream is lost)",
   P+"flat_map_stream.rs",
   "                    core::task::Poll::Pending => {\n                        return PullStep::Pending(Yes);",
   "                    core::task::Poll::Pending => {\n                        this.current.as_mut().set(None);\n                        return PullStep::Pending(Yes);"),
  ("Chain polls `second` while `first` is Pending",
   P+"chain.rs",
   "            PullStep::Pending(_) => {\n                return PullStep::pending();\n            }",
   "            PullStep::Pending(_) => {\n                // fall through: try the second pull meanwhile\n            }"),
  ("Skip decrements `remaining` on Pending",
   P+"skip.rs",
   "                PullStep::Pending(can_pend) => PullStep::Pending(can_pend),",
   "                PullStep::Pending(can_pend) => {\n                    *this.remaining = this.remaining.saturating_sub(1);\n                    PullStep::Pending(can_pend)\n                }"),
  ("Take does not zero `remaining` when the upstream ends (re-pulls an ended upstream)",
   P+"take.rs",
   "            PullStep::Ended(_) => {\n                *this.remaining = 0;\n                PullStep::Ended(Yes)",
   "            PullStep::Ended(_) => {\n                PullStep::Ended(Yes)"),
  ("CrossSingleton::size_hint keeps the item pull's lower bound before the singleton arrived",
   P+"cross_singleton.rs",
   "        let (mut lower, upper) = self.item_pull.size_hint();\n        if self.singleton_state.borrow().is_none() {\n            lower = 0;\n        }\n        (lower, upper)",
   "        let (lower, upper) = self.item_pull.size_hint();\n        (lower, upper)"),
  ("ZipLongest ends when the right side ended while the left side is only Pending",
   P+"zip_longest.rs",
   "            (PullStep::Pending(_), PullStep::Ended(_)) => PullStep::pending(),",
   "            (PullStep::Pending(_), PullStep::Ended(_)) => PullStep::ended(),"),
  ("FilterMapAsync answers Pending (without any waker registered) after a future resolved to None",
   P+"filter_map_async.rs",
   "                    core::task::Poll::Ready(None) => {\n                        this.current.as_mut().set(None);\n                        continue;",
   "                    core::task::Poll::Ready(None) => {\n                        this.current.as_mut().set(None);\n                        return PullStep::Pending(Yes);"),
  ("SendPush forgets that the pull ended: a Pending poll_finalize makes it pull again",
   P+"send_push.rs",
   "                    PullStep::Ended(_) => {\n                        *this.pull_ended = true;\n                        break;",
   "                    PullStep::Ended(_) => {\n                        break;"),
  ("SkipWhile never leaves skipping mode",
   P+"skip_while.rs",
   "                    *this.skipping = false;\n",
   ""),
 ],
 "C13": [
  ("probe drops the first match of a probe (returns the second, queues the rest)",
   P+"half_join_state/set.rs",
   "        let first = iter.next();\n        self.current_matches.extend(iter);\n        first",
   "        let _dropped = iter.next();\n        let first = iter.next();\n        self.current_matches.extend(iter);\n        first"),
  ("set-state build returns true for a duplicate entry (duplicate is probed again)",
   P+"half_join_state/set.rs",
   "                    self.len += 1;\n                    return true;\n                }\n            }",
   "                    self.len += 1;\n                }\n                return true;\n            }"),
  ("drain-then-enumerate path treats a Pending input as drained",
   P+"symmetric_hash_join.rs",
   "                PullStep::Pending(_) => std::task::Poll::Pending,\n                PullStep::Ended(_) => std::task::Poll::Ready(()),",
   "                PullStep::Pending(_) | PullStep::Ended(_) => std::task::Poll::Ready(()),"),
  ("incremental join ends when one side ended and only the other one is Pending",
   P+"symmetric_hash_join.rs",
   "            if lhs_step.is_pending() || rhs_step.is_pending() {",
   "            if lhs_step.is_pending() && rhs_step.is_pending() {"),
  ("multiset-state build overwrites the values of an existing key instead of appending",
   P+"half_join_state/multiset.rs",
   "            Entry::Occupied(mut e) => {\n                e.get_mut().push(v.into_owned());",
   "            Entry::Occupied(mut e) => {\n                *e.get_mut() = smallvec![v.into_owned()];"),
  ("set-state clear() keeps the table (a 'tick side leaks into the next tick)",
   P+"half_join_state/set.rs",
   "    fn clear(&mut self) {\n        self.table.clear();",
   "    fn clear(&mut self) {"),
 ],
}
for prop, muts in MUT.items():
    os.makedirs(f"/verif/sensitivity/{prop}", exist_ok=True)
    for i,(what,path,old,new) in enumerate(muts,1):
        src=open(os.path.join(REPO,path)).read()
        if src.count(old)!=1:
            print(f"{prop} mut{i}: pattern occurs {src.count(old)} times in {path}", file=sys.stderr); sys.exit(1)
        dst=src.replace(old,new)
        d="".join(difflib.unified_diff(src.splitlines(True),dst.splitlines(True),"a/"+path,"b/"+path))
        open(f"/verif/sensitivity/{prop}/mut{i}.diff","w").write(d)
        print(f"{prop} mut{i}: {what}")
