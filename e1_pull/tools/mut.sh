#!/bin/bash
# Run inside a scratch copy of /verif made by tools/mutant_run.sh (cwd = <scratch>/verif):
#   tools/mutant_run.sh e1pull /verif/sensitivity/C11/mutN.diff bash e1_pull/tools/mut.sh C11 [extra args]
# Builds e1_pull against the patched repo copy with a
# shared target dir (same scratch path every time => only dfir_pipes + e1_pull rebuild), runs quick.
set -u
ID="$1"; shift
export CARGO_TARGET_DIR=/var/tmp/verif-scratch-e1_pull-muttarget
(cd e1_pull && cargo build --release --offline 2>&1 | tail -3) || exit 2
[ -x "$CARGO_TARGET_DIR/release/e1_pull" ] || { echo "build failed"; exit 2; }
"$CARGO_TARGET_DIR/release/e1_pull" "$ID" --tier quick "$@" 2>&1 | grep -v '^KNOWN-FINDING' | cut -c1-900
exit ${PIPESTATUS[0]}
