//! Scenario data for C11 (item lists, scripts, closure parameters), the two "sides" a catalogue
//! expression is instantiated on (real pulls vs. std iterators), and type erasure of the pulls.
#![allow(dead_code)]

use std::any::Any;
use std::marker::PhantomData;
use std::pin::Pin;
use std::task::Context;

use dfir_pipes::pull::{self, FusedPull, Pull, PullStep};
use dfir_pipes::{Context as PipesContext, Yes};
use simcore::Sim;

use crate::stubs::*;

// ---------------------------------------------------------------------------------------------
// Closure library: plain functions of (run-time parameters, item)

#[derive(Clone, Copy, Debug)]
pub struct Params {
    /// additive constant for `map`
    pub k: u8,
    /// predicate = membership in this bit set
    pub mask: u8,
    /// count for skip / take
    pub n: usize,
    /// inner iterable length per item value
    pub lens: [u8; 8],
    /// pending answers of the future created for item value x
    pub fut_pend: [u8; 8],
    /// pending answers before each position of an inner stream (indexed by (x+i)&7)
    pub st_pend: [u8; 8],
    pub vague_inner: bool,
    pub wake: WakeMode,
}

impl Params {
    pub fn draw(sim: &mut Sim, pend_style: u64) -> Params {
        let k = sim.choose("p.k", 0, 7) as u8;
        let mask = sim.choose("p.mask", 0, 255) as u8;
        let n = sim.choose("p.n", 0, 5) as usize;
        let mut lens = [0u8; 8];
        let lw = sim.choose("p.lens", 0, 0xFFFF);
        for (i, l) in lens.iter_mut().enumerate() {
            *l = ((lw >> (2 * i)) & 3) as u8;
        }
        let mut fut_pend = [0u8; 8];
        let mut st_pend = [0u8; 8];
        if pend_style > 0 {
            let den = if pend_style == 1 { 6 } else { 2 };
            for p in fut_pend.iter_mut() {
                if sim.flip("p.fut_pend", 1, den) {
                    *p = 1 + sim.choose("p.fut_n", 0, 1) as u8;
                }
            }
            for p in st_pend.iter_mut() {
                if sim.flip("p.st_pend", 1, den) {
                    *p = 1 + sim.choose("p.st_n", 0, 1) as u8;
                }
            }
        }
        let vague_inner = sim.flip("p.vague_inner", 1, 4);
        let wake = draw_wake(sim);
        Params { k, mask, n, lens, fut_pend, st_pend, vague_inner, wake }
    }
    pub fn f1(self, x: u8) -> u8 {
        (x.wrapping_add(self.k)) & 7
    }
    pub fn pred(self, x: &u8) -> bool {
        (self.mask >> (*x & 7)) & 1 == 1
    }
    pub fn fm(self, x: u8) -> Option<u8> {
        if self.pred(&x) { Some(self.f1(x)) } else { None }
    }
    pub fn ix(self, i: usize, x: u8) -> u8 {
        ((i as u8).wrapping_mul(3).wrapping_add(x)) & 7
    }
    pub fn pair(self, x: u8, y: u8) -> u8 {
        (x.wrapping_mul(3).wrapping_add(y).wrapping_add(self.k)) & 7
    }
    pub fn inner_items(self, x: u8) -> Vec<u8> {
        let n = self.lens[(x & 7) as usize];
        (0..n).map(|i| (x.wrapping_add(i).wrapping_mul(3)) & 7).collect()
    }
    /// inner iterable made by a `flat_map` closure
    pub fn inner(self, x: u8) -> Inner {
        Inner { items: self.inner_items(x), vague: self.vague_inner, origin: 0 }
    }
    /// inner iterable that is an item on its way into `flatten`
    pub fn inner_fl(self, x: u8) -> Inner {
        Inner { items: self.inner_items(x), vague: self.vague_inner, origin: 1 }
    }
    pub fn insp(self, x: &u8) {
        RT.with(|r| r.inspect.set(r.inspect.get().wrapping_mul(31).wrapping_add(*x as u64 + 1)));
    }
    pub fn fut(self, x: u8) -> SimFuture<Option<u8>> {
        SimFuture::new(self.fm(x), self.fut_pend[(x & 7) as usize], self.wake)
    }
    /// inner stream for item x (unfused: must not be polled after it returned `None`)
    pub fn st(self, x: u8) -> SimStream<u8, Un> {
        self.st_o(x, 0)
    }
    /// inner stream that is an item on its way into `flatten_stream`
    pub fn st_fl(self, x: u8) -> SimStream<u8, Un> {
        self.st_o(x, 1)
    }
    fn st_o(self, x: u8, origin: u8) -> SimStream<u8, Un> {
        let items = self.inner_items(x);
        let pend: Vec<u8> = (0..=items.len()).map(|i| self.st_pend[((x as usize) + i) & 7]).collect();
        let (wl, wh) = if self.vague_inner { (1, None) } else { (0, Some(0)) };
        SimStream::new_inner(Script::new(7, items, pend, wl, wh, self.wake), origin)
    }
}

pub fn draw_wake(sim: &mut Sim) -> WakeMode {
    match sim.choose("wake", 0, 3) {
        0 | 1 => WakeMode::Now,
        2 => WakeMode::Later(0),
        _ => WakeMode::Later(1 + sim.choose("wake_d", 0, 3) as u8),
    }
}

// ---------------------------------------------------------------------------------------------
// Sources

#[derive(Clone, Debug)]
pub struct SrcData {
    pub items: Vec<u8>,
    pub pend: Vec<u8>,
    pub widen_lo: u8,
    pub widen_hi: Option<u8>,
    pub wake: WakeMode,
}

impl SrcData {
    /// pend_style: 0 none, 1 sparse, 2 dense + bursts, 3 edges only (before first / before end)
    pub fn draw(sim: &mut Sim, max_len: u64, pend_style: u64) -> SrcData {
        let len = sim.choose("len", 0, max_len) as usize;
        let items: Vec<u8> = (0..len).map(|_| sim.choose("item", 0, 7) as u8).collect();
        let mut pend = vec![0u8; len + 1];
        match pend_style {
            0 => {}
            3 => {
                if sim.flip("pend_first", 1, 2) {
                    pend[0] = 1 + sim.choose("pend_n", 0, 2) as u8;
                }
                if sim.flip("pend_last", 1, 2) {
                    pend[len] += 1 + sim.choose("pend_n", 0, 2) as u8;
                }
            }
            s => {
                let den = if s == 1 { 6 } else { 2 };
                for p in pend.iter_mut() {
                    if sim.flip("pend", 1, den) {
                        *p = 1 + if s == 2 { sim.choose("pend_n", 0, 2) as u8 } else { 0 };
                    }
                }
            }
        }
        let (widen_lo, widen_hi) = match sim.choose("hint", 0, 3) {
            0 | 1 => (0, Some(0)),
            2 => (sim.choose("hint_lo", 0, 3) as u8, Some(sim.choose("hint_hi", 0, 3) as u8)),
            _ => (sim.choose("hint_lo", 0, 3) as u8, None),
        };
        let wake = draw_wake(sim);
        SrcData { items, pend, widen_lo, widen_hi, wake }
    }
    /// number of items delivered before the first `Pending` (what `stream_ready` sees in one tick)
    pub fn ready_prefix(&self) -> usize {
        self.pend.iter().position(|p| *p > 0).unwrap_or(self.items.len()).min(self.items.len())
    }
    fn script<T: Clone>(&self, id: u8, items: Vec<T>) -> Script<T> {
        Script::new(id, items, self.pend.clone(), self.widen_lo, self.widen_hi, self.wake)
    }
}

pub struct Gen {
    pub srcs: Vec<SrcData>,
    pub p: Params,
    pub q: Params,
    /// pre-set external singleton state for `cross_singleton_state`
    pub preset: Option<u8>,
    /// `stream_ready` shapes: reference sees only the ready prefix (tick mode)
    pub ready_tick: bool,
}

/// Pull side of source `i`.
pub struct SrcP<'g, K, Z> {
    g: &'g Gen,
    i: usize,
    _m: PhantomData<fn() -> (K, Z)>,
}
impl<'g, K: CtxKind, Z: FuseKind> SrcP<'g, K, Z> {
    pub fn new(g: &'g Gen, i: usize) -> Self {
        SrcP { g, i, _m: PhantomData }
    }
    fn d(&self) -> &SrcData {
        &self.g.srcs[self.i]
    }
    pub fn u8s(self) -> SimPull<u8, K, Z> {
        SimPull::new(self.d().script(self.i as u8, self.d().items.clone()))
    }
    /// items are inner iterables (for `flatten`)
    pub fn inners(self) -> SimPull<Inner, K, Z> {
        let p = self.g.p;
        SimPull::new(self.d().script(self.i as u8, self.d().items.iter().map(|x| p.inner_fl(*x)).collect()))
    }
    /// items are inner streams (for `flatten_stream`)
    pub fn streams(self) -> SimPull<SimStream<u8, Un>, K, Z> {
        let p = self.g.p;
        SimPull::new(self.d().script(self.i as u8, self.d().items.iter().map(|x| p.st_fl(*x)).collect()))
    }
    /// `(k, v)` pairs: k = x & 3, v = x >> 2 ... used by keyed terminals and join shapes
    pub fn kvs(self) -> SimPull<(u8, u8), K, Z> {
        SimPull::new(self.d().script(self.i as u8, self.d().items.iter().map(|x| (x & 3, x >> 2)).collect()))
    }
    pub fn sim_stream(self) -> SimStream<u8, Z> {
        SimStream::new(self.d().script(self.i as u8, self.d().items.clone()))
    }
    /// the real `pull::stream` adapter over a `SimStream`
    pub fn stream(self) -> pull::Stream<SimStream<u8, Z>> {
        pull::stream(self.sim_stream())
    }
    /// the real `pull::stream_ready` adapter over a `SimStream`, with the tick waker
    pub fn stream_ready(self) -> pull::StreamReady<SimStream<u8, Z>> {
        let w = RT.with(|r| r.tick_waker.borrow().clone()).unwrap_or_else(simcore::exec::noop_waker);
        pull::stream_ready(self.sim_stream(), w)
    }
    /// the real `pull::iter` source (never pends)
    pub fn iter(self) -> pull::Iter<std::vec::IntoIter<u8>> {
        pull::iter(self.d().items.clone())
    }
}

/// Reference side of source `i`: std iterators over the same item lists.
pub struct SrcR<'g> {
    g: &'g Gen,
    i: usize,
}
impl<'g> SrcR<'g> {
    pub fn new(g: &'g Gen, i: usize) -> Self {
        SrcR { g, i }
    }
    fn d(&self) -> &SrcData {
        &self.g.srcs[self.i]
    }
    pub fn u8s(self) -> std::vec::IntoIter<u8> {
        self.d().items.clone().into_iter()
    }
    pub fn inners(self) -> std::vec::IntoIter<Inner> {
        let p = self.g.p;
        self.d().items.iter().map(|x| p.inner_fl(*x)).collect::<Vec<_>>().into_iter()
    }
    pub fn streams(self) -> std::vec::IntoIter<SimStream<u8, Un>> {
        let p = self.g.p;
        self.d().items.iter().map(|x| p.st_fl(*x)).collect::<Vec<_>>().into_iter()
    }
    pub fn kvs(self) -> std::vec::IntoIter<(u8, u8)> {
        self.d().items.iter().map(|x| (x & 3, x >> 2)).collect::<Vec<_>>().into_iter()
    }
    pub fn stream(self) -> std::vec::IntoIter<u8> {
        self.u8s()
    }
    pub fn stream_ready(self) -> std::vec::IntoIter<u8> {
        let mut v = self.d().items.clone();
        if self.g.ready_tick {
            v.truncate(self.d().ready_prefix());
        }
        v.into_iter()
    }
    pub fn iter(self) -> std::vec::IntoIter<u8> {
        self.u8s()
    }
}

// ---------------------------------------------------------------------------------------------
// Extension traits so that one expression can be instantiated on both sides

pub trait RefExt: Iterator + Sized {
    fn filter_map_async<B, F>(self, mut f: F) -> impl Iterator<Item = B>
    where
        F: FnMut(Self::Item) -> SimFuture<Option<B>>,
    {
        self.filter_map(move |x| f(x).take_out())
    }
    fn flat_map_stream<B: Clone, Z, F>(self, mut f: F) -> impl Iterator<Item = B>
    where
        F: FnMut(Self::Item) -> SimStream<B, Z>,
    {
        self.flat_map(move |x| f(x).into_items())
    }
    fn flatten_stream<B: Clone, Z>(self) -> impl Iterator<Item = B>
    where
        Self: Iterator<Item = SimStream<B, Z>>,
    {
        self.flat_map(|s| s.into_items())
    }
    /// pair every item with the first item of `s`; nothing if `s` is empty
    fn cross_singleton<S>(self, mut s: S) -> impl Iterator<Item = (Self::Item, S::Item)>
    where
        S: Iterator,
        S::Item: Clone,
    {
        let v = s.next();
        self.map_while(move |x| v.clone().map(|v| (x, v)))
    }
    /// `stream(stream_compat(pull))` is the identity
    fn roundtrip(self) -> Self {
        self
    }
}
impl<I: Iterator> RefExt for I {}

pub trait PullExt: Pull + Sized {
    fn roundtrip(self) -> pull::Stream<pull::StreamCompat<Self>> {
        pull::stream(pull::stream_compat(self))
    }
}
impl<P: Pull> PullExt for P {}

// ---------------------------------------------------------------------------------------------
// Type erasure

pub type Step = PullStep<u64, (), Yes, Yes>;

pub trait DynPull {
    fn pull_dyn(&mut self, cx: &mut Context<'_>) -> Step;
    fn hint(&self) -> (usize, Option<usize>);
}

struct Erased<P> {
    // NB: field order = drop order; the pull may borrow from `keep`
    pull: Pin<Box<P>>,
    #[allow(dead_code)]
    keep: Vec<Box<dyn Any>>,
}
impl<P> DynPull for Erased<P>
where
    P: Pull,
    P::Item: Enc,
{
    fn pull_dyn(&mut self, cx: &mut Context<'_>) -> Step {
        let ctx = <P::Ctx<'_> as PipesContext<'_>>::from_task(cx);
        match self.pull.as_mut().pull(ctx) {
            PullStep::Ready(x, _m) => PullStep::Ready(enc1(&x), ()),
            PullStep::Pending(_) => PullStep::Pending(Yes),
            PullStep::Ended(_) => PullStep::Ended(Yes),
        }
    }
    fn hint(&self) -> (usize, Option<usize>) {
        self.pull.size_hint()
    }
}

pub struct Built<'g> {
    pub pull: Box<dyn DynPull + 'g>,
    /// the shape's type implements `FusedPull`
    pub fused: bool,
}

pub fn erase<'g, P>(pull: P, fused: bool, keep: Vec<Box<dyn Any>>) -> Built<'g>
where
    P: Pull + 'g,
    P::Item: Enc,
{
    Built { pull: Box::new(Erased { pull: Box::pin(pull), keep }), fused }
}

/// Compile-time statement: this shape's type implements `FusedPull`.
pub fn require_fused<P: FusedPull>(_: &P) {}

/// Autoref-specialisation probe: does the concrete type implement `FusedPull`?
pub struct FusedProbe<'a, T>(pub &'a T);
pub trait ViaFused {
    fn is_fused_pull(&self) -> bool;
}
impl<'a, T: FusedPull> ViaFused for FusedProbe<'a, T> {
    fn is_fused_pull(&self) -> bool {
        true
    }
}
pub trait ViaAny {
    fn is_fused_pull(&self) -> bool;
}
impl<'a, T> ViaAny for &FusedProbe<'a, T> {
    fn is_fused_pull(&self) -> bool {
        false
    }
}

/// External state with a stable address that outlives the erased pull (dropped after it).
pub fn ext_state<T: 'static>(keep: &mut Vec<Box<dyn Any>>, v: T) -> &'static mut T {
    let mut b = Box::new(v);
    let p: *mut T = &mut *b;
    keep.push(b);
    // SAFETY: the box is kept alive in `keep`, which `Erased` drops after the pull; the box's heap
    // address is stable; nothing else touches the value while the pull lives.
    unsafe { &mut *p }
}

/// The erased shape as a `Pull` again, so that the real terminal futures run over any shape.
///
/// A buggy pull may produce items forever without ever pending; the terminal futures would then
/// spin inside one poll. After `DYN_PULL_CAP` pulls the shape is forced to end and the run state
/// notes it (`Rt::cap_hit`), which the caller reports as a livelock violation.
pub struct DynShape<'g>(pub Box<dyn DynPull + 'g>, pub u64);
pub const DYN_PULL_CAP: u64 = 6000;
impl<'g> Unpin for DynShape<'g> {}
impl<'g> Pull for DynShape<'g> {
    type Ctx<'c> = Context<'c>;
    type Item = u64;
    type Meta = ();
    type CanPend = Yes;
    type CanEnd = Yes;
    fn pull(self: Pin<&mut Self>, ctx: &mut Context<'_>) -> Step {
        let this = self.get_mut();
        this.1 += 1;
        if this.1 > DYN_PULL_CAP {
            RT.with(|r| r.cap_hit.set(true));
            return PullStep::Ended(Yes);
        }
        this.0.pull_dyn(ctx)
    }
    fn size_hint(&self) -> (usize, Option<usize>) {
        self.0.hint()
    }
}
