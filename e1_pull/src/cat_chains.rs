//! Hand-picked depth-3/4 chains: a buffering combinator (`zip`, `zip_longest`, `flat_map`,
//! `flatten`, `cross_singleton`, `chain`, `flat_map_stream`, `flatten_stream`, `filter_map_async`)
//! under and over pending sources; the real non-scripted sources (`iter`, `once`, `empty`,
//! `repeat`, `from_fn`, `poll_fn`, `Either`); `stream` / `stream_ready` adapters.

use std::any::Any;

use dfir_pipes::itertools::Either;
#[allow(unused_imports)]
use dfir_pipes::itertools::Itertools;
#[allow(unused_imports)]
use dfir_pipes::pull::{self, Pull, PullStep};
use dfir_pipes::{No, Yes};

use crate::cat::{Ready, Shape, ToU8};
use crate::scen::*;
use crate::stubs::*;

pub fn chains(v: &mut Vec<Shape>) {
    // ---- buffering combinators under / over each other (both context kinds)
    shape2!(v, "3/zip(flat_map(a),skip(b))", any, "zip", |g, _k, a: Un, b: Un|
        apply!(flat_map, a.u8s(), g.p).zip(apply!(skip, b.u8s(), g.q)));
    shape2!(v, "3/chain(take(a),flat_map(b))", any, "chain", |g, _k, a: Un, b: Un|
        apply!(take, a.u8s(), g.p).chain(apply!(flat_map, b.u8s(), g.q)));
    shape2!(v, "3/flat_map(zip(a,b))", any, "flat_map", |g, _k, a: Un, b: Un| {
        let pp = g.p;
        a.u8s().zip(b.u8s()).flat_map(move |(x, y)| pp.inner(pp.pair(x, y)))
    });
    shape2!(v, "4/zip_longest(fuse(chain(a,b)),flatten(c))", fused, "zip_longest", |g, _k, a: Fz, b: Un, c: Fz|
        a.u8s().chain(b.u8s()).fuse().zip_longest(c.inners().flatten()));
    shape2!(v, "3/zip(zip(a,b),c)", any, "zip", |g, _k, a: Un, b: Un, c: Un| a.u8s().zip(b.u8s()).zip(c.u8s()));
    shape2!(v, "3/zip(a,zip(b,c))", any, "zip", |g, _k, a: Un, b: Un, c: Un| a.u8s().zip(b.u8s().zip(c.u8s())));
    shape2!(v, "3/zip_longest(zip_longest(a,b),c)", fused, "zip_longest", |g, _k, a: Fz, b: Fz, c: Fz| {
        let pp = g.p;
        a.u8s().zip_longest(b.u8s()).map(move |t| t.to_u8(pp)).zip_longest(c.u8s())
    });
    shape2!(v, "3/zip_longest(a,zip_longest(b,c))", fused, "zip_longest", |g, _k, a: Fz, b: Fz, c: Fz| {
        let pp = g.p;
        a.u8s().zip_longest(b.u8s().zip_longest(c.u8s()).map(move |t| t.to_u8(pp)))
    });
    shape2!(v, "3/chain(chain(a,b),c)", fused, "chain", |g, _k, a: Fz, b: Fz, c: Fz| a.u8s().chain(b.u8s()).chain(c.u8s()));
    shape2!(v, "3/chain(a,chain(b,c))", any, "chain", |g, _k, a: Fz, b: Fz, c: Un| a.u8s().chain(b.u8s().chain(c.u8s())));
    shape2!(v, "3/cross(cross(a,b),c)", any, "cross_singleton", |g, _k, a: Un, b: Un, c: Un|
        a.u8s().cross_singleton(b.u8s()).cross_singleton(c.u8s()));
    shape2!(v, "3/cross(a,zip(b,c))", any, "cross_singleton", |g, _k, a: Un, b: Un, c: Un|
        a.u8s().cross_singleton(b.u8s().zip(c.u8s())));
    shape2!(v, "3/cross(zip(a,b),flat_map(c))", any, "cross_singleton", |g, _k, a: Un, b: Un, c: Un|
        a.u8s().zip(b.u8s()).cross_singleton(apply!(flat_map, c.u8s(), g.p)));
    shape2!(v, "3/flat_map(flat_map(flat_map(a)))", fused, "flat_map", |g, _k, a: Fz|
        apply!(flat_map, apply!(flat_map, apply!(flat_map, a.u8s(), g.p), g.q), g.p));
    shape2!(v, "3/flatten(map(zip(a,b)))", any, "flatten", |g, _k, a: Un, b: Un| {
        let pp = g.p;
        a.u8s().zip(b.u8s()).map(move |(x, y)| pp.inner_fl(pp.pair(x, y))).flatten()
    });
    shape2!(v, "3/take(zip(a,flat_map(b)))", fused, "zip", |g, _k, a: Un, b: Un|
        apply!(take, a.u8s().zip(apply!(flat_map, b.u8s(), g.q)), g.p));
    shape2!(v, "3/skip(zip_longest(flatten(a),b))", fused, "zip_longest", |g, _k, a: Fz, b: Fz|
        a.inners().flatten().zip_longest(b.u8s()).skip(g.p.n));
    shape2!(v, "3/take_while(chain(a,filter(b)))", any, "chain", |g, _k, a: Fz, b: Un|
        apply!(take_while, a.u8s().chain(apply!(filter, b.u8s(), g.q)), g.p));
    shape2!(v, "4/skip_while(flat_map(chain(a,b)))", fused, "flat_map", |g, _k, a: Fz, b: Fz|
        apply!(skip_while, apply!(flat_map, a.u8s().chain(b.u8s()), g.q), g.p));
    shape2!(v, "4/enumerate(zip(flat_map(a),b))", any, "zip", |g, _k, a: Un, b: Un|
        apply!(flat_map, a.u8s(), g.p).zip(b.u8s()).enumerate());
    shape2!(v, "3/fuse(zip(take_while(a),b))", fused, "zip", |g, _k, a: Un, b: Un|
        apply!(take_while, a.u8s(), g.p).zip(b.u8s()).fuse());
    shape2!(v, "4/take(chain(take(a),take(b)))", fused, "chain", |g, _k, a: Un, b: Un|
        apply!(take, a.u8s(), g.p).chain(apply!(take, b.u8s(), g.q)).take(g.p.k as usize));
    shape2!(v, "3/chain(fuse(zip(a,b)),zip(c,d))", any, "chain", |g, _k, a: Un, b: Un, c: Un, d: Un|
        a.u8s().zip(b.u8s()).fuse().chain(c.u8s().zip(d.u8s())));
    shape2!(v, "3/zip(chain(a,b),chain(c,d))", any, "zip", |g, _k, a: Fz, b: Un, c: Fz, d: Un|
        a.u8s().chain(b.u8s()).zip(c.u8s().chain(d.u8s())));
    shape2!(v, "3/zip_longest(take(a),skip(b))", fused, "zip_longest", |g, _k, a: Un, b: Fz|
        apply!(take, a.u8s(), g.p).zip_longest(apply!(skip, b.u8s(), g.q)));
    shape2!(v, "3/cross_state(zip(a,b),c)", any, "cross_singleton", |g, k, a: Un, b: Un, c: Un|
        a.u8s().zip(b.u8s()).cross_singleton_state(c.u8s(), ext_state(&mut k, g.preset)) ;
        { let pre = g.preset; let cc = c.u8s(); a.u8s().zip(b.u8s()).cross_singleton(pre.into_iter().chain(cc)) });
    shape2!(v, "3/zip(skip_while(a),take_while(b))", any, "zip", |g, _k, a: Un, b: Un|
        apply!(skip_while, a.u8s(), g.p).zip(apply!(take_while, b.u8s(), g.q)));
    shape2!(v, "3/chain(filter_map(a),enumerate(b))", fused, "chain", |g, _k, a: Fz, b: Fz|
        apply!(filter_map, a.u8s(), g.p).chain(apply!(enumerate, b.u8s(), g.q)));

    // ---- async buffering combinators under / over pending sources (task context only)
    shape!(v, "3/cross(fma(a),b)", TaskC, any, "cross_singleton", No, |g, _k, a: Un, b: Un|
        apply!(fma, a.u8s(), g.p).cross_singleton(b.u8s()));
    shape!(v, "3/cross(flat_map(a),fma(b))", TaskC, any, "cross_singleton", No, |g, _k, a: Un, b: Un|
        apply!(flat_map, a.u8s(), g.p).cross_singleton(apply!(fma, b.u8s(), g.q)));
    shape!(v, "3/take(fms(a))", TaskC, fused, "flat_map_stream", No, |g, _k, a: Un|
        apply!(take, apply!(fms, a.u8s(), g.p), g.q));
    shape!(v, "3/fms(zip(a,b))", TaskC, any, "flat_map_stream", No, |g, _k, a: Un, b: Un| {
        let pp = g.p;
        a.u8s().zip(b.u8s()).flat_map_stream(move |(x, y)| pp.st(pp.pair(x, y)))
    });
    shape!(v, "3/fma(zip(a,b))", TaskC, any, "filter_map_async", No, |g, _k, a: Un, b: Un| {
        let pp = g.p;
        a.u8s().zip(b.u8s()).filter_map_async(move |(x, y)| pp.fut(pp.pair(x, y)))
    });
    shape!(v, "3/zip(fma(a),fma(b))", TaskC, any, "zip", No, |g, _k, a: Un, b: Un|
        apply!(fma, a.u8s(), g.p).zip(apply!(fma, b.u8s(), g.q)));
    shape!(v, "3/zip(fms(a),fls(b))", TaskC, any, "zip", No, |g, _k, a: Un, b: Un|
        apply!(fms, a.u8s(), g.p).zip(apply!(fls, b.u8s(), g.q)));
    shape!(v, "3/chain(fma(a),fms(b))", TaskC, fused, "chain", No, |g, _k, a: Fz, b: Fz|
        apply!(fma, a.u8s(), g.p).chain(apply!(fms, b.u8s(), g.q)));
    shape!(v, "3/zip_longest(fma(a),fms(b))", TaskC, fused, "zip_longest", No, |g, _k, a: Fz, b: Fz|
        apply!(fma, a.u8s(), g.p).zip_longest(apply!(fms, b.u8s(), g.q)));
    shape!(v, "3/zip_longest(fls_src(a),fma(b))", TaskC, fused, "zip_longest", No, |g, _k, a: Fz, b: Fz|
        a.streams().flatten_stream().zip_longest(apply!(fma, b.u8s(), g.q)));
    shape!(v, "3/fma(fma(fma(a)))", TaskC, fused, "filter_map_async", No, |g, _k, a: Fz|
        apply!(fma, apply!(fma, apply!(fma, a.u8s(), g.p), g.q), g.p));
    shape!(v, "3/fms(fma(fls(a)))", TaskC, any, "flat_map_stream", No, |g, _k, a: Un|
        apply!(fms, apply!(fma, apply!(fls, a.u8s(), g.p), g.q), g.p));
    shape!(v, "3/fls(map(chain(a,b)))", TaskC, any, "flatten_stream", No, |g, _k, a: Fz, b: Un|
        apply!(fls, a.u8s().chain(b.u8s()), g.p));
    shape!(v, "3/zip(enumerate(a),enumerate(fms(b)))", TaskC, any, "zip", No, |g, _k, a: Un, b: Un|
        a.u8s().enumerate().zip(apply!(fms, b.u8s(), g.q).enumerate()));
    shape!(v, "3/rt(zip(a,b))", TaskC, any, "zip", No, |g, _k, a: Un, b: Un| a.u8s().zip(b.u8s()).roundtrip());
    shape!(v, "3/zip(rt(a),rt(b))", TaskC, any, "zip", No, |g, _k, a: Un, b: Un| a.u8s().roundtrip().zip(b.u8s().roundtrip()));
    shape!(v, "3/chain(fuse(rt(a)),rt(b))", TaskC, any, "chain", No, |g, _k, a: Un, b: Un|
        a.u8s().roundtrip().fuse().chain(b.u8s().roundtrip()));
    shape!(v, "4/take(fma(zip(fms(a),b)))", TaskC, fused, "filter_map_async", No, |g, _k, a: Un, b: Un| {
        let pp = g.q;
        apply!(fms, a.u8s(), g.p).zip(b.u8s()).filter_map_async(move |(x, y)| pp.fut(pp.pair(x, y))).take(g.q.n + 1)
    });
    shape!(v, "4/zip_longest(fuse(fma(a)),fuse(flat_map(fms(b))))", TaskC, fused, "zip_longest", No, |g, _k, a: Un, b: Un|
        apply!(fma, a.u8s(), g.p).fuse().zip_longest(apply!(flat_map, apply!(fms, b.u8s(), g.q), g.p).fuse()));
    shape!(v, "3/cross(fms(a),fls(b))", TaskC, any, "cross_singleton", No, |g, _k, a: Un, b: Un|
        apply!(fms, a.u8s(), g.p).cross_singleton(apply!(fls, b.u8s(), g.q)));

    // ---- the `stream` adapter as a source, mixed with scripted pulls and the real `iter`
    shape!(v, "2/zip(stream(a),b)", TaskC, any, "zip", No, |g, _k, a: Un, b: Un| a.stream().zip(b.u8s()));
    shape!(v, "2/chain(stream(a),stream(b))", TaskC, fused, "chain", No, |g, _k, a: Fz, b: Fz| a.stream().chain(b.stream()));
    shape!(v, "2/zip_longest(stream(a),iter(b))", TaskC, fused, "zip_longest", No, |g, _k, a: Fz, b: Fz| a.stream().zip_longest(b.iter()));
    shape!(v, "2/cross(stream(a),stream(b))", TaskC, any, "cross_singleton", No, |g, _k, a: Un, b: Un| a.stream().cross_singleton(b.stream()));
    shape2!(v, "2/chain(iter(a),b)", any, "chain", |g, _k, a: Fz, b: Un| a.iter().chain(b.u8s()));
    shape2!(v, "2/zip(iter(a),flat_map(b))", any, "zip", |g, _k, a: Fz, b: Un| a.iter().zip(apply!(flat_map, b.u8s(), g.p)));
    shape2!(v, "2/cross(a,iter(b))", any, "cross_singleton", |g, _k, a: Un, b: Fz| a.u8s().cross_singleton(b.iter()));
    shape2!(v, "2/zip_longest(iter(a),b)", fused, "zip_longest", |g, _k, a: Fz, b: Fz| a.iter().zip_longest(b.u8s()));

    // ---- once / empty / repeat / from_fn / poll_fn / Either
    shape2!(v, "2/chain(once,a)", any, "chain", |g, _k, a: Un| pull::once(g.p.k).chain(a.u8s()) ; std::iter::once(g.p.k).chain(a.u8s()));
    shape2!(v, "2/chain(a,once)", fused, "chain", |g, _k, a: Fz| a.u8s().chain(pull::once(g.p.k)) ; a.u8s().chain(std::iter::once(g.p.k)));
    shape2!(v, "2/chain(empty,a)", any, "chain", |g, _k, a: Un| pull::empty::<u8>().chain(a.u8s()) ; std::iter::empty::<u8>().chain(a.u8s()));
    shape2!(v, "2/zip(a,empty)", any, "zip", |g, _k, a: Un| a.u8s().zip(pull::empty::<u8>()) ; a.u8s().zip(std::iter::empty::<u8>()));
    shape2!(v, "2/zip_longest(a,empty)", fused, "zip_longest", |g, _k, a: Fz| a.u8s().zip_longest(pull::empty::<u8>()) ; a.u8s().zip_longest(std::iter::empty::<u8>()));
    shape2!(v, "2/zip(repeat,a)", any, "zip", |g, _k, a: Un| pull::repeat(g.p.k).zip(a.u8s()) ; std::iter::repeat(g.p.k).zip(a.u8s()));
    shape2!(v, "2/zip(a,repeat)", any, "zip", |g, _k, a: Un| a.u8s().zip(pull::repeat(g.p.k)) ; a.u8s().zip(std::iter::repeat(g.p.k)));
    shape2!(v, "2/take(repeat)", fused, "", |g, _k| pull::repeat(g.p.k).take(g.p.n) ; std::iter::repeat(g.p.k).take(g.p.n));
    shape2!(v, "2/cross(a,repeat)", any, "cross_singleton", |g, _k, a: Un| a.u8s().cross_singleton(pull::repeat(g.p.k)) ; a.u8s().cross_singleton(std::iter::repeat(g.p.k)));
    shape2!(v, "2/cross(a,once)", fused, "cross_singleton", |g, _k, a: Fz| a.u8s().cross_singleton(pull::once(g.p.k)) ; a.u8s().cross_singleton(std::iter::once(g.p.k)));
    shape2!(v, "2/zip(from_fn,a)", any, "zip", |g, _k, a: Un| {
            let mut n = g.p.n as u8;
            pull::from_fn(move || if n == 0 { PullStep::<u8, (), No, Yes>::Ended(Yes) } else { n -= 1; PullStep::Ready(n, ()) }).zip(a.u8s())
        } ;
        (0..g.p.n as u8).rev().zip(a.u8s()));
    shape!(v, "2/zip(poll_fn,a)", TaskC, any, "zip", No, |g, _k, a: Un| {
            let mut n = g.p.n as u8;
            let mut pend = g.p.fut_pend;
            pull::poll_fn(move |cx: &mut std::task::Context<'_>| {
                if n == 0 {
                    PullStep::<u8, (), Yes, Yes>::Ended(Yes)
                } else if pend[n as usize & 7] > 0 {
                    pend[n as usize & 7] -= 1;
                    cx.waker().wake_by_ref();
                    PullStep::Pending(Yes)
                } else {
                    n -= 1;
                    PullStep::Ready(n, ())
                }
            })
            .zip(a.u8s())
        } ;
        (0..g.p.n as u8).rev().zip(a.u8s()));
    shape2!(v, "2/either(map|filter)", fused, "", |g, _k, a: Fz| {
        let s = a.u8s();
        if g.p.k & 1 == 0 { Either::Left(apply!(map, s, g.p)) } else { Either::Right(apply!(filter, s, g.p)) }
    });
    shape2!(v, "3/zip(either(flat_map|skip),b)", any, "zip", |g, _k, a: Un, b: Un| {
        let s = a.u8s();
        let e = if g.p.k & 1 == 0 { Either::Left(apply!(flat_map, s, g.p)) } else { Either::Right(apply!(skip, s, g.p)) };
        e.zip(b.u8s())
    });

    // ---- stream_ready: `Ended` = "nothing more right now" (DESIGN §8.4)
    // transparent shapes: the driver resumes after every end-of-tick until the stream really ended
    shape!(v, "1/stream_ready", SyncC, any, "", Resume, |g, _k, a: Un| a.stream_ready());
    shape!(v, "1/stream_ready(F)", SyncC, any, "", Resume, |g, _k, a: Fz| a.stream_ready());
    shape!(v, "2/map(stream_ready)", SyncC, any, "", Resume, |g, _k, a: Un| apply!(map, a.stream_ready(), g.p));
    shape!(v, "2/filter(stream_ready)", SyncC, any, "", Resume, |g, _k, a: Un| apply!(filter, a.stream_ready(), g.p));
    shape!(v, "2/filter_map(stream_ready)", SyncC, any, "", Resume, |g, _k, a: Un| apply!(filter_map, a.stream_ready(), g.p));
    shape!(v, "2/enumerate(stream_ready)", SyncC, any, "", Resume, |g, _k, a: Un| a.stream_ready().enumerate());
    shape!(v, "2/flat_map(stream_ready)", SyncC, any, "flat_map", Resume, |g, _k, a: Un| apply!(flat_map, a.stream_ready(), g.p));
    shape!(v, "2/skip(stream_ready)", SyncC, any, "", Resume, |g, _k, a: Un| apply!(skip, a.stream_ready(), g.p));
    shape!(v, "2/skip_while(stream_ready)", SyncC, any, "", Resume, |g, _k, a: Un| apply!(skip_while, a.stream_ready(), g.p));
    shape!(v, "2/inspect(stream_ready)", SyncC, any, "", Resume, |g, _k, a: Un| apply!(inspect, a.stream_ready(), g.p));
    // one tick only: stop at the first `Ended`; the reference sees the prefix that was ready
    shape!(v, "2/take(stream_ready)", SyncC, fused, "", Tick, |g, _k, a: Un| apply!(take, a.stream_ready(), g.p));
    shape!(v, "2/take_while(stream_ready)", SyncC, any, "", Tick, |g, _k, a: Un| apply!(take_while, a.stream_ready(), g.p));
    shape!(v, "2/fuse(stream_ready)", SyncC, fused, "", Tick, |g, _k, a: Un| a.stream_ready().fuse());
    shape!(v, "2/zip(stream_ready,stream_ready)", SyncC, any, "zip", Tick, |g, _k, a: Un, b: Un| a.stream_ready().zip(b.stream_ready()));
    shape!(v, "2/zip(stream_ready,iter(b))", SyncC, any, "zip", Tick, |g, _k, a: Un, b: Un| a.stream_ready().zip(b.iter()));
    shape!(v, "2/chain(fuse(stream_ready),stream_ready)", SyncC, any, "chain", Tick, |g, _k, a: Un, b: Un| a.stream_ready().fuse().chain(b.stream_ready()));
    shape!(v, "2/zip_longest(fuse(stream_ready),fuse(stream_ready))", SyncC, fused, "zip_longest", Tick, |g, _k, a: Un, b: Un|
        a.stream_ready().fuse().zip_longest(b.stream_ready().fuse()));
    shape!(v, "2/cross(stream_ready,stream_ready)", SyncC, any, "cross_singleton", Tick, |g, _k, a: Un, b: Un| a.stream_ready().cross_singleton(b.stream_ready()));
    shape!(v, "2/cross(iter(a),stream_ready)", SyncC, any, "cross_singleton", Tick, |g, _k, a: Un, b: Un| a.iter().cross_singleton(b.stream_ready()));
    shape!(v, "3/flat_map(zip(stream_ready,stream_ready))", SyncC, any, "flat_map", Tick, |g, _k, a: Un, b: Un| {
        let pp = g.p;
        a.stream_ready().zip(b.stream_ready()).flat_map(move |(x, y)| pp.inner(pp.pair(x, y)))
    });
}
