//! The catalogue of monomorphic pull pipeline shapes (DESIGN Appendix B). Every entry is one
//! expression instantiated twice: over `SimPull`/`SimStream` sources with the real `dfir_pipes`
//! combinators, and over `std::iter`/itertools adapters on the same item lists (the reference).

#![allow(clippy::redundant_closure_call)]

use std::any::Any;

use dfir_pipes::EitherOrBoth;
#[allow(unused_imports)]
use dfir_pipes::itertools::Itertools;
#[allow(unused_imports)]
use dfir_pipes::pull::{self, Pull};

use crate::scen::*;
use crate::stubs::*;

#[derive(Clone, Copy, PartialEq, Eq, Debug)]
pub enum Ready {
    /// no `stream_ready` source
    No,
    /// `stream_ready` under combinators that are transparent to an end-of-tick `Ended`: the driver
    /// keeps pulling after `Ended` until the stream really ended; reference = whole list
    Resume,
    /// stop at the first `Ended`; reference = the prefix that was ready
    Tick,
}

pub struct Shape {
    pub name: &'static str,
    /// sources use `Ctx = task::Context` (wakers) instead of `Ctx = ()`
    pub task: bool,
    pub nsrc: usize,
    /// buffering combinator this shape is meant to stress ("" = none)
    pub tag: &'static str,
    pub ready: Ready,
    pub build: for<'g> fn(&'g Gen) -> Built<'g>,
    pub reference: fn(&Gen) -> Vec<u64>,
}

/// Collapse any output item to a `u8` so that further `u8 -> u8` operators can be stacked.
pub trait ToU8 {
    fn to_u8(self, p: Params) -> u8;
}
impl ToU8 for u8 {
    fn to_u8(self, _: Params) -> u8 {
        self
    }
}
impl ToU8 for (u8, u8) {
    fn to_u8(self, p: Params) -> u8 {
        p.pair(self.0, self.1)
    }
}
impl ToU8 for (usize, u8) {
    fn to_u8(self, p: Params) -> u8 {
        p.ix(self.0, self.1)
    }
}
impl ToU8 for EitherOrBoth<u8, u8> {
    fn to_u8(self, p: Params) -> u8 {
        match self {
            EitherOrBoth::Both(x, y) => p.pair(x, y),
            EitherOrBoth::Left(x) => (x + 1) & 7,
            EitherOrBoth::Right(y) => (y + 5) & 7,
        }
    }
}

macro_rules! req {
    (fused, $p:expr) => {
        require_fused(&$p)
    };
    (any, $p:expr) => {};
}

macro_rules! kind_is_task {
    (SyncC) => {
        false
    };
    (TaskC) => {
        true
    };
}

/// shape!(vec, name, K, fused|any, tag, ready, |g, keep, a: Fz, b: Un| expr [; ref_expr])
macro_rules! shape {
    ($v:ident, $name:expr, $K:ident, $f:ident, $tag:expr, $ready:ident, |$g:ident, $keep:ident $(, $s:ident : $z:ident)*| $body:expr) => {
        shape!($v, $name, $K, $f, $tag, $ready, |$g, $keep $(, $s : $z)*| $body ; $body)
    };
    ($v:ident, $name:expr, $K:ident, $f:ident, $tag:expr, $ready:ident, |$g:ident, $keep:ident $(, $s:ident : $z:ident)*| $pb:expr ; $rb:expr) => {{
        #[allow(unused_variables, unused_mut, unused_assignments)]
        fn build<'g>($g: &'g Gen) -> Built<'g> {
            let mut _i = 0usize;
            $( let $s = SrcP::<$K, $z>::new($g, { _i += 1; _i - 1 }); )*
            let mut $keep: Vec<Box<dyn Any>> = Vec::new();
            let pull = $pb;
            req!($f, pull);
            let fused = (&FusedProbe(&pull)).is_fused_pull();
            erase(pull, fused, $keep)
        }
        #[allow(unused_variables, unused_mut, unused_assignments)]
        fn reference($g: &Gen) -> Vec<u64> {
            let mut _i = 0usize;
            $( let $s = SrcR::new($g, { _i += 1; _i - 1 }); )*
            let mut $keep: Vec<Box<dyn Any>> = Vec::new();
            let it = $rb;
            it.map(|x| enc1(&x)).collect()
        }
        #[allow(unused_mut)]
        let mut n = 0usize;
        $( let _ = stringify!($s); n += 1; )*
        $v.push(Shape {
            name: $name,
            task: kind_is_task!($K),
            nsrc: n,
            tag: $tag,
            ready: Ready::$ready,
            build,
            reference,
        });
    }};
}

/// the same shape in both context kinds
macro_rules! shape2 {
    ($v:ident, $name:expr, $f:ident, $tag:expr, |$g:ident, $keep:ident $(, $s:ident : $z:ident)*| $body:expr) => {
        shape!($v, concat!($name, "/sync"), SyncC, $f, $tag, No, |$g, $keep $(, $s : $z)*| $body);
        shape!($v, concat!($name, "/task"), TaskC, $f, $tag, No, |$g, $keep $(, $s : $z)*| $body);
    };
    ($v:ident, $name:expr, $f:ident, $tag:expr, |$g:ident, $keep:ident $(, $s:ident : $z:ident)*| $body:expr ; $rb:expr) => {
        shape!($v, concat!($name, "/sync"), SyncC, $f, $tag, No, |$g, $keep $(, $s : $z)*| $body ; $rb);
        shape!($v, concat!($name, "/task"), TaskC, $f, $tag, No, |$g, $keep $(, $s : $z)*| $body ; $rb);
    };
}

/// One `u8 -> u8` operator applied to `$e` with closure parameters `$p` (same text on both sides).
macro_rules! apply {
    (map, $e:expr, $p:expr) => {{ let pp = $p; $e.map(move |x| pp.f1(x)) }};
    (filter, $e:expr, $p:expr) => {{ let pp = $p; $e.filter(move |x| pp.pred(x)) }};
    (filter_map, $e:expr, $p:expr) => {{ let pp = $p; $e.filter_map(move |x| pp.fm(x)) }};
    (flat_map, $e:expr, $p:expr) => {{ let pp = $p; $e.flat_map(move |x| pp.inner(x)) }};
    (inspect, $e:expr, $p:expr) => {{ let pp = $p; $e.inspect(move |x| pp.insp(x)) }};
    (skip, $e:expr, $p:expr) => {{ let pp = $p; $e.skip(pp.n) }};
    (skip_while, $e:expr, $p:expr) => {{ let pp = $p; $e.skip_while(move |x| pp.pred(x)) }};
    (take, $e:expr, $p:expr) => {{ let pp = $p; $e.take(pp.n) }};
    (take_while, $e:expr, $p:expr) => {{ let pp = $p; $e.take_while(move |x| pp.pred(x)) }};
    (fuse, $e:expr, $p:expr) => {{ $e.fuse() }};
    (enumerate, $e:expr, $p:expr) => {{ let pp = $p; $e.enumerate().map(move |(i, x)| pp.ix(i, x)) }};
    (flatten, $e:expr, $p:expr) => {{ let pp = $p; $e.map(move |x| pp.inner_fl(x)).flatten() }};
    (fma, $e:expr, $p:expr) => {{ let pp = $p; $e.filter_map_async(move |x| pp.fut(x)) }};
    (fms, $e:expr, $p:expr) => {{ let pp = $p; $e.flat_map_stream(move |x| pp.st(x)) }};
    (fls, $e:expr, $p:expr) => {{ let pp = $p; $e.map(move |x| pp.st_fl(x)).flatten_stream() }};
    (rt, $e:expr, $p:expr) => {{ $e.roundtrip() }};
}

/// Binary combinators; `.fuse()` is inserted exactly where the API demands a `FusedPull`.
macro_rules! bin {
    (zip, $l:expr, $r:expr) => { $l.zip($r) };
    (zipl, $l:expr, $r:expr) => { $l.fuse().zip_longest($r.fuse()) };
    (chain, $l:expr, $r:expr) => { $l.fuse().chain($r) };
    (cross, $l:expr, $r:expr) => { $l.cross_singleton($r) };
}

macro_rules! tag_of {
    (zip) => { "zip" };
    (zipl) => { "zip_longest" };
    (chain) => { "chain" };
    (cross) => { "cross_singleton" };
    (flat_map) => { "flat_map" };
    (flatten) => { "flatten" };
    (fma) => { "filter_map_async" };
    (fms) => { "flat_map_stream" };
    (fls) => { "flatten_stream" };
    ($other:ident) => { "" };
}

macro_rules! singles_sync {
    ($v:ident, [$($op:ident)*]) => {
        $(
            shape!($v, concat!("1/", stringify!($op), "(F)/sync"), SyncC, any, tag_of!($op), No, |g, _k, a: Fz| apply!($op, a.u8s(), g.p));
            shape!($v, concat!("1/", stringify!($op), "(U)/sync"), SyncC, any, tag_of!($op), No, |g, _k, a: Un| apply!($op, a.u8s(), g.p));
        )*
    };
}
macro_rules! singles_task {
    ($v:ident, [$($op:ident)*]) => {
        $(
            shape!($v, concat!("1/", stringify!($op), "(F)/task"), TaskC, any, tag_of!($op), No, |g, _k, a: Fz| apply!($op, a.u8s(), g.p));
            shape!($v, concat!("1/", stringify!($op), "(U)/task"), TaskC, any, tag_of!($op), No, |g, _k, a: Un| apply!($op, a.u8s(), g.p));
            shape!($v, concat!("1/", stringify!($op), "(stream)/task"), TaskC, any, tag_of!($op), No, |g, _k, a: Un| apply!($op, a.stream(), g.p));
        )*
    };
}

/// every ordered pair `op2(op1(a))` over a fused task source
macro_rules! pairs {
    ($v:ident, [$($a:ident)*], $bs:tt) => {
        $( pairs!(@row $v, $a, $bs); )*
    };
    (@row $v:ident, $a:ident, [$($b:ident)*]) => {
        $(
            shape!($v, concat!("2/", stringify!($b), "(", stringify!($a), ")"), TaskC, any, tag_of!($b), No,
                |g, _k, a: Fz| apply!($b, apply!($a, a.u8s(), g.p), g.q));
        )*
    };
}

/// every binary combinator with every operator under its left input, under its right input and over it
macro_rules! bins {
    ($v:ident, [$($b:ident)*], $ops:tt) => {
        $( bins!(@row $v, $b, $ops); )*
    };
    (@row $v:ident, $b:ident, [$($op:ident)*]) => {
        $(
            shape!($v, concat!("2/", stringify!($b), "(", stringify!($op), "(a),b)"), TaskC, any, tag_of!($b), No,
                |g, _k, a: Un, b: Un| bin!($b, apply!($op, a.u8s(), g.p), b.u8s()));
            shape!($v, concat!("2/", stringify!($b), "(a,", stringify!($op), "(b))"), TaskC, any, tag_of!($b), No,
                |g, _k, a: Un, b: Un| bin!($b, a.u8s(), apply!($op, b.u8s(), g.p)));
            shape!($v, concat!("2/", stringify!($op), "(", stringify!($b), "(a,b))"), TaskC, any, tag_of!($b), No,
                |g, _k, a: Un, b: Un| {
                    let pq = g.q;
                    apply!($op, bin!($b, a.u8s(), b.u8s()).map(move |t| t.to_u8(pq)), g.p)
                });
        )*
    };
}

pub fn catalogue() -> Vec<Shape> {
    let mut v: Vec<Shape> = Vec::new();

    // ---- every combinator alone
    singles_sync!(v, [map filter filter_map flat_map inspect skip skip_while take take_while fuse enumerate flatten]);
    singles_task!(v, [map filter filter_map flat_map inspect skip skip_while take take_while fuse enumerate flatten fma fms fls rt]);
    // full-fidelity outputs for the type-changing ones
    shape2!(v, "1/enumerate_full", fused, "", |g, _k, a: Fz| a.u8s().enumerate());
    shape2!(v, "1/flatten_src", fused, "flatten", |g, _k, a: Fz| a.inners().flatten());
    shape2!(v, "1/flatten_src(U)", any, "flatten", |g, _k, a: Un| a.inners().flatten());
    shape!(v, "1/flatten_stream_src/task", TaskC, fused, "flatten_stream", No, |g, _k, a: Fz| a.streams().flatten_stream());
    shape!(v, "1/flatten_stream_src(U)/task", TaskC, any, "flatten_stream", No, |g, _k, a: Un| a.streams().flatten_stream());
    // binary combinators alone, fused and unfused inputs
    shape2!(v, "1/zip(U,U)", any, "zip", |g, _k, a: Un, b: Un| a.u8s().zip(b.u8s()));
    shape2!(v, "1/zip(F,F)", any, "zip", |g, _k, a: Fz, b: Fz| a.u8s().zip(b.u8s()));
    shape2!(v, "1/zip_longest(F,F)", fused, "zip_longest", |g, _k, a: Fz, b: Fz| a.u8s().zip_longest(b.u8s()));
    shape2!(v, "1/zip_longest(fuse U,fuse U)", fused, "zip_longest", |g, _k, a: Un, b: Un| a.u8s().fuse().zip_longest(b.u8s().fuse()));
    shape2!(v, "1/chain(F,F)", fused, "chain", |g, _k, a: Fz, b: Fz| a.u8s().chain(b.u8s()));
    shape2!(v, "1/chain(F,U)", any, "chain", |g, _k, a: Fz, b: Un| a.u8s().chain(b.u8s()));
    shape2!(v, "1/chain(fuse U,U)", any, "chain", |g, _k, a: Un, b: Un| a.u8s().fuse().chain(b.u8s()));
    shape2!(v, "1/cross_singleton(F,F)", fused, "cross_singleton", |g, _k, a: Fz, b: Fz| a.u8s().cross_singleton(b.u8s()));
    shape2!(v, "1/cross_singleton(U,U)", any, "cross_singleton", |g, _k, a: Un, b: Un| a.u8s().cross_singleton(b.u8s()));
    shape2!(v, "1/cross_singleton_state(U,U)", any, "cross_singleton", |g, k, a: Un, b: Un|
        a.u8s().cross_singleton_state(b.u8s(), ext_state(&mut k, g.preset)) ;
        { let pre = g.preset; let bb = b.u8s(); a.u8s().cross_singleton(pre.into_iter().chain(bb)) });
    shape2!(v, "1/cross_singleton_state(F,F)", fused, "cross_singleton", |g, k, a: Fz, b: Fz|
        a.u8s().cross_singleton_state(b.u8s(), ext_state(&mut k, g.preset)) ;
        { let pre = g.preset; let bb = b.u8s(); a.u8s().cross_singleton(pre.into_iter().chain(bb)) });

    // ---- every ordered pair of unary operators
    pairs!(v,
        [map filter filter_map flat_map inspect skip skip_while take take_while fuse enumerate flatten fma fms fls rt],
        [map filter filter_map flat_map inspect skip skip_while take take_while fuse enumerate flatten fma fms fls rt]);
    // ---- every binary combinator x every operator under / over it
    bins!(v, [zip zipl chain cross],
        [map filter filter_map flat_map inspect skip skip_while take take_while fuse enumerate flatten fma fms fls rt]);

    crate::cat_chains::chains(&mut v);
    v
}
