//! E1 `e1_pull` — poll-level simulator for the pull half of `dfir_pipes` (C11, C13).
mod c11;
mod c13;
#[macro_use]
mod cat;
mod cat_chains;
mod scen;
mod stubs;

use simcore::runner::{Engine, Prop, Scenario};

fn main() {
    if std::env::args().any(|a| a == "--list-shapes") {
        for (i, s) in c11::cat().iter().enumerate() {
            println!("{i}\t{}\ttask={}\tsources={}\ttag={}\tready={:?}", s.name, s.task, s.nsrc, s.tag, s.ready);
        }
        return;
    }
    let engine = Engine {
        name: "e1_pull",
        props: vec![
            Prop {
                id: "C11",
                scenarios: vec![
                    Scenario { name: "direct", weight: 3, run: c11::run_direct },
                    Scenario { name: "terminal", weight: 1, run: c11::run_terminal },
                ],
                quick_runs: 1_000_000,
                thorough_runs: 100_000_000,
                rule: "each run draws one pipeline shape from a macro-generated catalogue of monomorphic dfir_pipes pull pipelines (every combinator alone over fused / unfused / stream sources in both context kinds, every ordered pair of 16 unary operators, every binary combinator (zip, zip_longest, chain, cross_singleton) with every operator under its left input, under its right input and over it, >40 hand-written depth-3/4 chains, the real iter/once/empty/repeat/from_fn/poll_fn/Either/stream/stream_ready sources), closure parameters, 0-4 source item lists (len <= 8, values 0..7, inner iterables/streams of length 0..3), and per source a script: how many Pending answers precede every item and the end (none / sparse / dense bursts / edges only), an honest size-hint widening, fused or poisoned-after-end, and the wake discipline (wake immediately / wake k executor steps later); plus spurious re-polls of the driver task. 'direct' drives the pull itself (items, fusedness, size hints at every step, lost wake-ups), 'terminal' runs a real terminal future (collect, for_each, next, send_push, send_sink, stream_compat+StreamExt::next, accumulate_all) over the same shapes. Distinct = distinct hash of the realised decision trace; non-trivial = at least one item was produced AND (some source/future/sink answered Pending OR a spurious poll / delayed wake fired).",
                time_unit: "source polls + top-level pulls",
                real: &[
                    "dfir_pipes::pull::{Chain, CrossSingleton, Either, Empty, Enumerate, Filter, FilterMap, FilterMapAsync, FlatMap, FlatMapStream, Flatten, FlattenStream, FromFn, Fuse, Inspect, Iter, Map, Once, PollFn, Repeat, Skip, SkipWhile, Stream, StreamCompat, StreamReady, Take, TakeWhile, Zip, ZipLongest}",
                    "terminal futures dfir_pipes::pull::{Collect, ForEach, Next, SendPush, SendSink, AccumulateAll + Fold}",
                    "dfir_pipes::Context merging of () and task::Context",
                ],
                stubs: &[
                    "SimPull (scripted source, Ctx = () or task::Context, fused or poisoned after end)",
                    "SimStream / SimFuture / inner iterables with scripted Pending counts and waker discipline",
                    "SimPush / SimSink downstreams with scripted readiness and a protocol monitor",
                    "simcore::exec::SimExec single-task executor loop with delayed wake-up queue and spurious polls",
                    "reference: the same expression over std::iter / itertools adapters",
                ],
                assumptions: &[
                    "sampled, not exhaustive: <= 8 items per source, <= 3 Pending answers per position, catalogue shapes only",
                    "an unfused pull is never pulled again by the harness after its first Ended; only shapes whose type implements FusedPull get 5 extra pulls",
                    "stream_ready's Ended means 'nothing more in this tick': under end-transparent combinators the driver resumes until the stream really ended and counts items until then; under other combinators one tick is checked against the ready prefix and only the size-hint upper bound is checked",
                    "how many items a zip/cross_singleton/take asks of an input beyond what it emits is not compared (inspect call sequences are compared only for inspect alone)",
                    "quiescence of the executor (task parked, no wake-up registered or scheduled) is the lost-wake-up detector; every scripted source always arranges a wake-up when it answers Pending",
                ],
                required_probes: &[
                    "source_pending",
                    "spurious_poll",
                    "delayed_wake_delivered",
                    "buffered_across_pending/zip",
                    "buffered_across_pending/zip_longest",
                    "buffered_across_pending/cross_singleton",
                    "inner_iter_held_across_pending/flat_map",
                    "inner_iter_held_across_pending/flatten",
                    "future_in_flight_across_pending",
                    "inner_stream_held_across_pending/flat_map_stream",
                    "inner_stream_held_across_pending/flatten_stream",
                    "one_side_ended_other_pending",
                    "stream_ready_resumed_after_end_of_tick",
                    "terminal/collect",
                    "terminal/for_each",
                    "terminal/next",
                    "terminal/send_push",
                    "terminal/send_sink",
                    "terminal/stream_compat",
                    "terminal/accumulate_all",
                ],
            },
            Prop {
                id: "C13",
                scenarios: vec![Scenario { name: "join", weight: 1, run: c13::run }],
                quick_runs: 1_000_000,
                thorough_runs: 100_000_000,
                rule: "each run draws a join history: state kind per side (HalfSetJoinState / HalfMultisetJoinState), persistence per side ('static kept / 'tick cleared at tick end, as join.rs generates), the API (async fn symmetric_hash_join with is_new_tick per tick: always drain, always incremental, or mixed; Pull::symmetric_hash_join_state; Pull::symmetric_hash_join with owned state), 1-4 ticks, per tick and side an arrival list (len <= 8, keys 0..2, values 0..3, duplicates likely) with a Pending script and wake discipline, inputs unfused under Pull::fuse (as generated) or natively fused, optionally a pacing zip(join, pacer) consumer, spurious polls. Distinct = distinct hash of the realised decision trace; non-trivial = at least one pair was emitted AND (some source answered Pending OR a spurious poll / delayed wake fired).",
                time_unit: "source polls",
                real: &[
                    "dfir_pipes::pull::{SymmetricHashJoin, symmetric_hash_join, NewTickJoinIter, HalfSetJoinState, HalfMultisetJoinState, Fuse, Either, Iter, Zip}",
                ],
                stubs: &[
                    "SimPull sources for both inputs and the pacer",
                    "Spy: forwarding HalfJoinState wrapper that counts queued matches and notes which side's iter() ran",
                    "SimExec single-task executor loop; reference relational join over the arrival lists",
                ],
                assumptions: &[
                    "sampled, not exhaustive: <= 8 arrivals per side and tick, 3 keys, 4 values, <= 4 ticks",
                    "emission order is unspecified (hash tables): per tick the multiset of (k,(v1,v2)) is compared",
                    "drain path (is_new_tick = true): a tick emits the full join of everything held after the drain, each pair once; incremental path: exactly the pairs of the grown tables that were not pairs of the tables before the tick",
                    "a re-arrival of an entry already held by a set-semantics side is not a new entry",
                ],
                required_probes: &[
                    "source_pending",
                    "spurious_poll",
                    "pending_during_drain",
                    "match_queued_across_pending",
                    "one_side_ended_other_pending",
                    "enumerate_lhs_smaller",
                    "enumerate_rhs_smaller",
                    "state_persisted_across_ticks",
                    "state_cleared_at_tick_end",
                ],
            },
        ],
    };
    simcore::runner::main(engine);
}
