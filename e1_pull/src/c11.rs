//! C11 — pull combinators == iterator adapters under any pending schedule (DESIGN §5 C11).

use std::cell::RefCell;
use std::future::poll_fn;
use std::sync::OnceLock;
use std::task::{Context, Poll};

use dfir_pipes::pull::{self, Pull, PullStep};
use futures::StreamExt;
use simcore::exec::{SimExec, WakeFlag};
use simcore::{Outcome, Sim, SimCell, Violation};

use crate::cat::{Ready, Shape, catalogue};
use crate::scen::*;
use crate::stubs::*;

pub fn cat() -> &'static [Shape] {
    static CAT: OnceLock<Vec<Shape>> = OnceLock::new();
    CAT.get_or_init(catalogue)
}

const PULL_CAP: u64 = 4000;

fn viol(oracle: &str, shape: &Shape, detail: String) -> Violation {
    Violation::new(format!("c11/{oracle}/{}", shape.name), detail)
}

/// What the driver observed.
#[derive(Default)]
struct Obs {
    out: Vec<u64>,
    /// (items produced before this step, lo, hi, futures in flight)
    hints: Vec<(usize, usize, Option<usize>, i32)>,
    pulls: u64,
    ended: bool,
    /// result of the post-end fusedness check: index of the first extra pull that was not `Ended`
    unfused_at: Option<(usize, &'static str)>,
    /// `stream_ready` resume mode: an end-of-tick `Ended` arrived with no wake-up arranged
    ready_no_wake: bool,
    ticks: u32,
    violation: Option<Violation>,
}

struct Knobs {
    shape_ix: usize,
    spurious_pct: u64,
}

fn draw_scenario(sim: &mut Sim, eligible: &[usize], terminal: bool) -> (Knobs, Gen) {
    let shapes = cat();
    let shape_ix = eligible[sim.choose("shape", 0, eligible.len() as u64 - 1) as usize];
    let shape = &shapes[shape_ix];
    let style = sim.choose("pend_style", 0, 3);
    let spurious_pct = *sim.pick("spurious_pct", &[0u64, 0, 10, 30]);
    let preset = if sim.flip("preset", 1, 3) { Some(sim.choose("preset_v", 0, 7) as u8) } else { None };
    let max_len = *sim.pick("max_len", &[8u64, 8, 4, 2]);
    let mut srcs = Vec::with_capacity(shape.nsrc);
    for _ in 0..shape.nsrc {
        let st = if style > 0 && sim.flip("src_quiet", 1, 4) { 0 } else { style };
        srcs.push(SrcData::draw(sim, max_len, st));
    }
    let p = Params::draw(sim, style);
    let q = Params::draw(sim, style);
    let ready_tick = shape.ready == Ready::Tick || (terminal && shape.ready != Ready::No);
    (Knobs { shape_ix, spurious_pct }, Gen { srcs, p, q, preset, ready_tick })
}

fn buf_probe(tag: &str) -> Option<&'static str> {
    Some(match tag {
        "zip" => "buffered_across_pending/zip",
        "zip_longest" => "buffered_across_pending/zip_longest",
        "cross_singleton" => "buffered_across_pending/cross_singleton",
        _ => return None,
    })
}

/// Reach probes evaluated after a top-level pull that returned `Pending`.
fn probes_on_pending(sim: &mut Sim, shape: &Shape) {
    RT.with(|r| {
        let ready = r.ready_in_pull.get();
        let pend = r.pend_in_pull.get();
        if ready & !pend != 0 && pend & !ready != 0 {
            if let Some(p) = buf_probe(shape.tag) {
                sim.probe(p);
            }
        }
        if r.live_inner[0].get() > 0 {
            sim.probe("inner_iter_held_across_pending/flat_map");
        }
        if r.live_inner[1].get() > 0 {
            sim.probe("inner_iter_held_across_pending/flatten");
        }
        if r.live_fut.get() > 0 {
            sim.probe("future_in_flight_across_pending");
        }
        if r.live_stream[0].get() > 0 {
            sim.probe("inner_stream_held_across_pending/flat_map_stream");
        }
        if r.live_stream[1].get() > 0 {
            sim.probe("inner_stream_held_across_pending/flatten_stream");
        }
        let ended = r.ended.get();
        if ended != 0 && pend & !ended & 0xff != 0 && shape.nsrc > 1 {
            sim.probe("one_side_ended_other_pending");
        }
    })
}

fn step_code(s: &Step) -> u64 {
    match s {
        PullStep::Ready(x, _) => 0x1000 ^ (*x << 2),
        PullStep::Pending(_) => 1,
        PullStep::Ended(_) => 2,
    }
}

/// One top-level pull with bookkeeping. Returns the step.
fn one_pull(pull: &mut dyn DynPull, cx: &mut Context<'_>, obs: &mut Obs, simc: &SimCell<'_>, shape: &Shape) -> Step {
    let (lo, hi) = pull.hint();
    let futs = RT.with(|r| r.live_fut.get());
    obs.hints.push((obs.out.len(), lo, hi, futs));
    RT.with(|r| {
        r.ready_in_pull.set(0);
        r.pend_in_pull.set(0);
    });
    obs.pulls += 1;
    let s = pull.pull_dyn(cx);
    let mut sim = simc.borrow_mut();
    sim.event(step_code(&s), || format!("pull -> {s:?}   (size_hint before: ({lo}, {hi:?}))"));
    if s.is_pending() {
        probes_on_pending(&mut sim, shape);
    }
    s
}

/// After the first (final) `Ended`: fused shapes must keep answering `Ended`.
fn post_end(pull: &mut dyn DynPull, fused: bool, cx: &mut Context<'_>, obs: &mut Obs, simc: &SimCell<'_>) {
    obs.ended = true;
    if fused {
        for i in 0..5 {
            let (lo, _hi) = pull.hint();
            let s = pull.pull_dyn(cx);
            simc.borrow_mut().event(0x200 + step_code(&s), || format!("extra pull {i} after Ended -> {s:?}"));
            if !s.is_ended() {
                obs.unfused_at = Some((i, if s.is_pending() { "Pending" } else { "Ready" }));
                return;
            }
            if lo != 0 && obs.violation.is_none() {
                // an ended fused pull produces nothing more: a positive lower bound is wrong
                obs.hints.push((obs.out.len(), lo, None, 0));
            }
        }
    }
}

fn drive(sim: &mut Sim, shape: &Shape, g: &Gen, spurious_pct: u64) -> (Obs, bool) {
    rt_reset();
    let flag = WakeFlag::new(false);
    let tick_waker = flag.waker();
    RT.with(|r| *r.tick_waker.borrow_mut() = Some(tick_waker.clone()));
    let built = (shape.build)(g);
    let fused = built.fused;
    let mut pull = built.pull;
    let all_src_bits: u32 = (1u32 << shape.nsrc) - 1;
    let simc: SimCell<'_> = RefCell::new(sim);
    let obs = RefCell::new(Obs::default());
    let mut discarded = false;

    if !shape.task {
        // ---- synchronous context: Pending just means "pull again"
        let mut cx = Context::from_waker(&tick_waker);
        let mut o = obs.borrow_mut();
        loop {
            if o.pulls > PULL_CAP {
                o.violation = Some(viol("livelock", shape, format!("no end after {PULL_CAP} pulls although every source is finite")));
                break;
            }
            let s = one_pull(&mut *pull, &mut cx, &mut o, &simc, shape);
            match s {
                PullStep::Ready(x, _) => o.out.push(x),
                PullStep::Pending(_) => {}
                PullStep::Ended(_) => {
                    let real_end = RT.with(|r| r.ended.get()) & all_src_bits == all_src_bits;
                    if shape.ready == Ready::Resume && !g.ready_tick && !real_end {
                        // end of a tick: the stream said Pending, so the waker given to
                        // stream_ready must have been registered
                        o.ticks += 1;
                        let woken = flag.is_woken();
                        if !woken && !later_pending() {
                            o.ready_no_wake = true;
                            break;
                        }
                        if !woken {
                            jump_to_next_due();
                            fire_due();
                        }
                        flag.clear();
                        tick();
                        continue;
                    }
                    post_end(&mut *pull, fused, &mut cx, &mut o, &simc);
                    break;
                }
            }
        }
    } else {
        // ---- task context: the driver is a task on the simulated executor
        let driver = poll_fn(|cx: &mut Context<'_>| {
            let mut o = obs.borrow_mut();
            loop {
                if o.pulls > PULL_CAP {
                    o.violation = Some(viol("livelock", shape, format!("no end after {PULL_CAP} pulls although every source is finite")));
                    return Poll::Ready(());
                }
                let s = one_pull(&mut *pull, cx, &mut o, &simc, shape);
                match s {
                    PullStep::Ready(x, _) => o.out.push(x),
                    PullStep::Pending(_) => return Poll::Pending,
                    PullStep::Ended(_) => {
                        post_end(&mut *pull, fused, cx, &mut o, &simc);
                        return Poll::Ready(());
                    }
                }
            }
        });
        let mut ex = SimExec::new();
        let t = ex.spawn(driver);
        let lost = run_single_task(&mut ex, t, &simc, spurious_pct, &mut discarded);
        drop(ex);
        if lost {
            let mut o = obs.borrow_mut();
            if o.violation.is_none() {
                let d = format!(
                    "executor quiescent: the driver task returned Pending but no wake-up is registered or scheduled, although every source still has something to deliver (items so far {:?})",
                    o.out
                );
                o.violation = Some(viol("lost_wakeup", shape, d));
            }
        }
    }
    drop(pull);
    let _sim: &mut Sim = simc.into_inner();
    (obs.into_inner(), discarded)
}

/// Executor loop for one task: poll it when woken; when it is parked, deliver the next scheduled
/// wake-up (or, by seeded choice, poll it spuriously first). Returns true on a lost wake-up
/// (task parked, nothing woken, nothing scheduled).
pub fn run_single_task(ex: &mut SimExec<'_>, t: usize, simc: &SimCell<'_>, spurious_pct: u64, discarded: &mut bool) -> bool {
    loop {
        if ex.is_done(t) {
            return false;
        }
        if ex.steps > 3 * PULL_CAP {
            *discarded = true;
            return false;
        }
        if fire_due() > 0 {
            simc.borrow_mut().fault("delayed_wake_delivered");
        }
        if ex.is_woken(t) {
            let done = ex.poll(t);
            tick();
            simc.borrow_mut().event(0x300 + done as u64, || format!("poll driver -> {}", if done { "done" } else { "pending" }));
        } else if later_pending() {
            let spurious = spurious_pct > 0 && simc.borrow_mut().flip("spurious", spurious_pct, 100);
            if spurious {
                simc.borrow_mut().fault("spurious_poll");
                let done = ex.poll(t);
                tick();
                simc.borrow_mut().event(0x310 + done as u64, || format!("poll driver (spurious) -> {}", if done { "done" } else { "pending" }));
            } else {
                jump_to_next_due();
            }
        } else {
            return true;
        }
    }
}

/// Oracles over the observation of a directly driven pull.
fn judge(shape: &Shape, g: &Gen, fusedcheck: bool, o: &mut Obs, want: &[u64], insp_pull: u64, insp_ref: u64) -> Option<Violation> {
    if let Some(v) = o.violation.take() {
        return Some(v);
    }
    if o.ready_no_wake {
        return Some(viol("lost_wakeup", shape, "stream_ready turned the stream's Pending into Ended but the stream was not given the waker (no wake-up registered or scheduled)".into()));
    }
    if !o.ended {
        return None; // discarded (step cap)
    }
    let poison = RT.with(|r| r.poison.get());
    if poison != 0 {
        return Some(viol("repull_after_end", shape, format!("an unfused source was pulled again after it reported Ended (source bit mask {poison:#x}); items {:?}", o.out)));
    }
    if RT.with(|r| r.fut_repoll.get()) != 0 {
        return Some(viol("future_polled_after_completion", shape, "a SimFuture was polled again after it returned Ready".into()));
    }
    if fusedcheck {
        if let Some((i, what)) = o.unfused_at {
            return Some(viol("not_fused", shape, format!("type implements FusedPull, but extra pull #{i} after the first Ended returned {what}")));
        }
    }
    if o.out != want {
        return Some(viol("items", shape, format!("pull side produced {:x?}, iterator reference {:x?} (sources {:?})", o.out, want, g.srcs.iter().map(|s| &s.items).collect::<Vec<_>>())));
    }
    // only where inspect is the whole pipeline: how many items an upstream of zip/cross/take is
    // asked for is not part of the property
    if shape.name.starts_with("1/inspect") && insp_pull != insp_ref {
        return Some(viol("inspect_calls", shape, "inspect closure saw a different item sequence than the reference".into()));
    }
    let total = o.out.len();
    for (k, &(before, lo, hi, futs)) in o.hints.iter().enumerate() {
        let n = total - before;
        if lo > n && !(shape.ready != Ready::No && g.ready_tick) {
            return Some(viol("size_hint_lower", shape, format!("step {k}: size_hint = ({lo}, {hi:?}) but only {n} more item(s) were produced until Ended")));
        }
        if let Some(h) = hi {
            if n > h {
                if futs > 0 && n - h <= futs as usize {
                    return Some(Violation::new(
                        "c11/size_hint_upper/future_in_flight",
                        format!("shape {}: step {k}: size_hint = ({lo}, {hi:?}) but {n} more item(s) were produced until Ended; {futs} future(s) of filter_map_async were in flight at that step and are not counted in the upper bound", shape.name),
                    ));
                }
                return Some(viol("size_hint_upper", shape, format!("step {k}: size_hint = ({lo}, {hi:?}) but {n} more item(s) were produced until Ended")));
            }
        }
    }
    None
}

pub fn run_direct(sim: &mut Sim) -> Outcome {
    static ELIG: OnceLock<Vec<usize>> = OnceLock::new();
    let elig = ELIG.get_or_init(|| (0..cat().len()).collect());
    let (k, g) = draw_scenario(sim, elig, false);
    let shape = &cat()[k.shape_ix];
    let (mut o, discarded) = drive(sim, shape, &g, k.spurious_pct);
    let insp_pull = RT.with(|r| r.inspect.replace(0));
    let pend_total = RT.with(|r| r.pend_total.get());
    let src_polls = RT.with(|r| r.src_polls.get());
    // the observation flags must be read before the reference side runs (it creates stubs too)
    let v0 = if discarded { None } else { judge_pre(&mut o) };
    let want = (shape.reference)(&g);
    let insp_ref = RT.with(|r| r.inspect.replace(0));
    let v = v0.or_else(|| if discarded { None } else { judge(shape, &g, true, &mut o, &want, insp_pull, insp_ref) });
    finish(sim, shape, &o, v, discarded, pend_total, src_polls)
}

/// Nothing to pre-compute at the moment; kept so that flag reads stay ahead of the reference run.
fn judge_pre(_o: &mut Obs) -> Option<Violation> {
    None
}

fn finish(sim: &mut Sim, shape: &Shape, o: &Obs, v: Option<Violation>, discarded: bool, pend_total: u64, src_polls: u64) -> Outcome {
    if pend_total > 0 {
        sim.fault("source_pending");
    }
    if o.ticks > 0 {
        sim.probe("stream_ready_resumed_after_end_of_tick");
    }
    if sim.verbose {
        sim.log.insert(0, format!("shape {} (task ctx: {}, sources: {})", shape.name, shape.task, shape.nsrc));
    }
    sim.state(simcore::fnv_str(shape.name) ^ o.out.iter().fold(0u64, |a, x| a.wrapping_mul(1099511628211).wrapping_add(*x)));
    let nontrivial = !o.out.is_empty() && (pend_total > 0 || sim.nonbenign > 0);
    Outcome { violation: v, nontrivial, sim_time: src_polls + o.pulls, discarded }
}

// ---------------------------------------------------------------------------------------------
// Terminal futures over any shape

#[derive(Clone, Copy, Debug, PartialEq)]
enum Term {
    Collect,
    ForEach,
    Next,
    SendPush,
    SendSink,
    StreamCompat,
    Accumulate,
}

pub fn run_terminal(sim: &mut Sim) -> Outcome {
    static ELIG: OnceLock<Vec<usize>> = OnceLock::new();
    let elig = ELIG.get_or_init(|| (0..cat().len()).filter(|&i| cat()[i].task || cat()[i].ready != Ready::No).collect());
    let (k, g) = draw_scenario(sim, elig, true);
    let shape = &cat()[k.shape_ix];
    let term = *sim.pick("terminal", &[Term::Collect, Term::ForEach, Term::Next, Term::SendPush, Term::SendSink, Term::StreamCompat, Term::Accumulate]);
    let n_ready = sim.choose("sink_script_len", 0, 6) as usize;
    let sink_style = sim.choose("sink_pend_style", 0, 2);
    let ready_pend: Vec<u8> = (0..n_ready)
        .map(|_| if sink_style > 0 && sim.flip("sink_pend", 1, if sink_style == 1 { 5 } else { 2 }) { 1 + sim.choose("sink_pend_n", 0, 1) as u8 } else { 0 })
        .collect();
    let fin_pend = if sink_style > 0 { sim.choose("fin_pend", 0, 2) as u8 } else { 0 };
    let sink_wake = draw_wake(sim);

    rt_reset();
    let flag = WakeFlag::new(false);
    RT.with(|r| *r.tick_waker.borrow_mut() = Some(flag.waker()));
    let built = (shape.build)(&g);
    let mut ds = DynShape(built.pull, 0);
    let got: RefCell<Option<Vec<u64>>> = RefCell::new(None);
    let log = RefCell::new(SinkLog::default());
    let first_hint = ds.size_hint();
    let mut acc_map: std::collections::HashMap<u64, u64> = std::collections::HashMap::new();
    let mut folder = pull::Fold::new(|| 0u64, |a: &mut u64, x: u64| *a = a.wrapping_mul(31).wrapping_add(x));
    let simc: SimCell<'_> = RefCell::new(sim);
    let mut discarded = false;
    let lost;
    {
        let mut ex = SimExec::new();
        let t = match term {
            Term::Collect => ex.spawn(async {
                let v: Vec<u64> = ds.collect().await;
                *got.borrow_mut() = Some(v);
            }),
            Term::ForEach => ex.spawn(async {
                let mut v = vec![];
                ds.for_each(|x| v.push(x)).await;
                *got.borrow_mut() = Some(v);
            }),
            Term::Next => ex.spawn(async {
                let mut v = vec![];
                while let Some((x, ())) = (&mut ds).next().await {
                    v.push(x);
                }
                *got.borrow_mut() = Some(v);
            }),
            Term::SendPush => ex.spawn(async {
                ds.send_push(SimPush::new(&log, ready_pend.clone(), fin_pend, sink_wake)).await;
                *got.borrow_mut() = Some(std::mem::take(&mut log.borrow_mut().got));
            }),
            Term::SendSink => ex.spawn(async {
                let _ = ds.send_sink(SimSink::new(&log, ready_pend.clone(), fin_pend, sink_wake)).await;
                *got.borrow_mut() = Some(std::mem::take(&mut log.borrow_mut().got));
            }),
            Term::StreamCompat => ex.spawn(async {
                let mut st = pull::stream_compat(ds);
                let mut v = vec![];
                while let Some(x) = st.next().await {
                    v.push(x);
                }
                *got.borrow_mut() = Some(v);
            }),
            Term::Accumulate => ex.spawn(async {
                let keyed = ds.map(|x| (x & 3, x));
                pull::accumulate_all(&mut folder, &mut acc_map, keyed).await;
                *got.borrow_mut() = Some(vec![]);
            }),
        };
        lost = run_single_task(&mut ex, t, &simc, k.spurious_pct, &mut discarded);
    }
    let sim: &mut Sim = simc.into_inner();
    let pend_total = RT.with(|r| r.pend_total.get());
    let src_polls = RT.with(|r| r.src_polls.get());
    let poison = RT.with(|r| r.poison.get());
    let fut_repoll = RT.with(|r| r.fut_repoll.get());
    let want = (shape.reference)(&g);
    let tname = format!("{term:?}");
    let tviol = |oracle: &str, d: String| Violation::new(format!("c11/terminal/{oracle}/{tname}"), format!("shape {}: {d}", shape.name));
    let got = got.into_inner();
    let mut v = None;
    if lost {
        v = Some(tviol("lost_wakeup", "executor quiescent: the terminal future returned Pending with no wake-up registered or scheduled".into()));
    } else if discarded {
    } else if RT.with(|r| r.cap_hit.get()) {
        v = Some(tviol("livelock", format!("the pull neither ended nor pended within {DYN_PULL_CAP} pulls although every source is finite")));
    } else if poison != 0 {
        v = Some(tviol("repull_after_end", format!("an unfused source was pulled after its end (mask {poison:#x})")));
    } else if fut_repoll != 0 {
        v = Some(tviol("future_polled_after_completion", String::new()));
    } else if let Some(got) = &got {
        if term == Term::Accumulate {
            let mut want_map = std::collections::BTreeMap::new();
            for x in &want {
                let e = want_map.entry(x & 3).or_insert(0u64);
                *e = e.wrapping_mul(31).wrapping_add(*x);
            }
            let got_map: std::collections::BTreeMap<u64, u64> = (0..4u64).filter_map(|k| acc_map.get(&k).map(|v| (k, *v))).collect();
            if got_map != want_map {
                v = Some(tviol("result", format!("accumulate_all produced {got_map:?}, reference fold {want_map:?}")));
            }
        } else if *got != want {
            v = Some(tviol("result", format!("terminal resolved with {got:x?}, reference {want:x?}")));
        }
        let l = log.borrow();
        if v.is_none() {
            if let Some(p) = l.proto {
                v = Some(tviol("push_protocol", p.to_string()));
            } else if matches!(term, Term::SendPush | Term::SendSink) && l.finalized != 1 {
                v = Some(tviol("push_protocol", format!("downstream finalized/closed {} times when the future resolved", l.finalized)));
            } else if term == Term::SendPush && l.hint != Some(first_hint) {
                v = Some(tviol("push_size_hint", format!("send_push forwarded size hint {:?}, the pull reported {:?}", l.hint, first_hint)));
            }
        }
    } else {
        v = Some(tviol("result", "task finished without a result".into()));
    }
    sim.probe(match term {
        Term::Collect => "terminal/collect",
        Term::ForEach => "terminal/for_each",
        Term::Next => "terminal/next",
        Term::SendPush => "terminal/send_push",
        Term::SendSink => "terminal/send_sink",
        Term::StreamCompat => "terminal/stream_compat",
        Term::Accumulate => "terminal/accumulate_all",
    });
    if pend_total > 0 {
        sim.fault("source_pending");
    }
    if sim.verbose {
        sim.log.insert(0, format!("shape {} terminal {term:?}", shape.name));
    }
    let n = got.as_ref().map(|g| g.len()).unwrap_or(0) + acc_map.len();
    let nontrivial = n > 0 && (pend_total > 0 || sim.nonbenign > 0);
    Outcome { violation: v, nontrivial, sim_time: src_polls, discarded }
}
