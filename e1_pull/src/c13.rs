//! C13 — symmetric hash join == relational join for every interleaving (DESIGN §5 C13).
//!
//! Real code: `SymmetricHashJoin`, `symmetric_hash_join(.., is_new_tick)`, `NewTickJoinIter`,
//! `HalfSetJoinState`, `HalfMultisetJoinState` (+ `Fuse`, `Either`, `Zip` around them).
//! State lifetime per side follows what `dfir_lang/src/graph/ops/join.rs` generates: the state is
//! created once (`prologue`), both inputs are wrapped in `Pull::fuse`, the join is built once per
//! tick over `&mut` state, and a `'tick` side is `clear()`ed at tick end while a `'static` side is kept.

use std::borrow::Cow;
use std::cell::RefCell;
use std::future::poll_fn;
use std::task::Context;

use dfir_pipes::pull::{self, HalfJoinState, HalfMultisetJoinState, HalfSetJoinState, Pull, PullStep};
use simcore::exec::SimExec;
use simcore::{Outcome, Sim, SimCell, Violation};

use crate::c11::run_single_task;
use crate::scen::*;
use crate::stubs::*;

type K = u8;
type V = u8;

/// Passive spy around a real half-join state: every call is forwarded; it only counts how many
/// matches sit in `current_matches` and notes which side's `iter()` the enumeration used.
pub struct Spy<S, const SIDE: usize> {
    inner: S,
    queued: i64,
}
impl<S: Default, const SIDE: usize> Default for Spy<S, SIDE> {
    fn default() -> Self {
        Spy { inner: S::default(), queued: 0 }
    }
}
impl<S, const SIDE: usize> Spy<S, SIDE> {
    fn publish(&self) {
        RT.with(|r| r.jq[SIDE].set(self.queued));
    }
}
impl<S, const SIDE: usize> HalfJoinState<K, V, V> for Spy<S, SIDE>
where
    S: HalfJoinState<K, V, V>,
{
    fn build(&mut self, k: K, v: Cow<'_, V>) -> bool {
        self.inner.build(k, v)
    }
    fn probe(&mut self, k: &K, v: &V) -> Option<(K, V, V)> {
        let n = self.inner.full_probe(k).len() as i64;
        let r = self.inner.probe(k, v);
        if r.is_some() {
            self.queued += (n - 1).max(0);
            self.publish();
        }
        r
    }
    fn pop_match(&mut self) -> Option<(K, V, V)> {
        let r = self.inner.pop_match();
        if r.is_some() {
            self.queued -= 1;
            self.publish();
        }
        r
    }
    fn len(&self) -> usize {
        self.inner.len()
    }
    fn iter(&self) -> std::collections::hash_map::Iter<'_, K, smallvec::SmallVec<[V; 1]>> {
        RT.with(|r| r.jiter.set(r.jiter.get() | (1 << SIDE)));
        self.inner.iter()
    }
    fn full_probe(&self, k: &K) -> std::slice::Iter<'_, V> {
        self.inner.full_probe(k)
    }
    fn clear(&mut self) {
        self.queued = 0;
        self.publish();
        self.inner.clear()
    }
}


// ---------------------------------------------------------------------------------------------

#[derive(Clone, Copy, Debug, PartialEq)]
enum Api {
    /// `pull::symmetric_hash_join(lhs, rhs, &mut l, &mut r, is_new_tick).await` (what join.rs emits)
    AsyncFn,
    /// `lhs.symmetric_hash_join_state(rhs, &mut l, &mut r)` (incremental, external state)
    MethodState,
    /// `lhs.symmetric_hash_join(rhs, l, r)` (incremental, state owned by the pull; one tick)
    MethodInline,
}

#[derive(Clone, Debug)]
struct Side {
    items: Vec<(K, V)>,
    pend: Vec<u8>,
    wake: WakeMode,
}
#[derive(Clone, Debug)]
struct Tick {
    l: Side,
    r: Side,
    new_tick: bool,
}
#[derive(Clone, Debug)]
struct Spec {
    api: Api,
    ticks: Vec<Tick>,
    l_static: bool,
    r_static: bool,
    l_set: bool,
    r_set: bool,
    /// sources are unfused and wrapped in `Pull::fuse` (as join.rs does) vs. natively fused
    fuse_wrap: bool,
    /// consume the join through `zip(join, pacer)` so that queued matches survive a `Pending`
    pacer: Option<Side>,
}

fn draw_side(sim: &mut Sim, style: u64, max_len: u64) -> Side {
    let len = sim.choose("len", 0, max_len) as usize;
    let items: Vec<(K, V)> = (0..len).map(|_| (sim.choose("key", 0, 2) as u8, sim.choose("val", 0, 3) as u8)).collect();
    let mut pend = vec![0u8; len + 1];
    if style > 0 {
        let den = if style == 1 { 5 } else { 2 };
        for p in pend.iter_mut() {
            if sim.flip("pend", 1, den) {
                *p = 1 + if style == 2 { sim.choose("pend_n", 0, 2) as u8 } else { 0 };
            }
        }
    }
    Side { items, pend, wake: draw_wake(sim) }
}

fn draw_spec(sim: &mut Sim) -> (Spec, u64) {
    let api = *sim.pick("api", &[Api::AsyncFn, Api::AsyncFn, Api::MethodState, Api::MethodInline]);
    let l_set = !sim.flip("l_multiset", 1, 2);
    let r_set = !sim.flip("r_multiset", 1, 2);
    let l_static = sim.flip("l_static", 1, 2);
    let r_static = sim.flip("r_static", 1, 2);
    let fuse_wrap = !sim.flip("native_fused_src", 1, 3);
    let style = sim.choose("pend_style", 0, 2);
    let spurious_pct = *sim.pick("spurious_pct", &[0u64, 0, 10, 30]);
    let nticks = if api == Api::MethodInline { 1 } else { 1 + sim.choose("extra_ticks", 0, 3) as usize };
    let max_len = *sim.pick("max_len", &[5u64, 5, 3, 8]);
    // mode of the async-fn api per history: always drain (what join.rs emits), always incremental, or mixed
    let mode_mix = sim.choose("mode_mix", 0, 2);
    let mut ticks = Vec::with_capacity(nticks);
    for _ in 0..nticks {
        let new_tick = match (api, mode_mix) {
            (Api::AsyncFn, 0) => true,
            (Api::AsyncFn, 1) => false,
            (Api::AsyncFn, _) => sim.flip("incremental", 1, 2) == false,
            _ => false,
        };
        let l = draw_side(sim, style, max_len);
        let r = draw_side(sim, style, max_len);
        ticks.push(Tick { l, r, new_tick });
    }
    let pacer = if sim.flip("pacer", 1, 3) {
        let n = 420usize;
        let tab = sim.choose("pacer_pend", 0, 0xFFFF);
        let pend: Vec<u8> = (0..=n).map(|i| ((tab >> (i & 15)) & 1) as u8).collect();
        Some(Side { items: vec![(0, 0); n], pend, wake: draw_wake(sim) })
    } else {
        None
    };
    (Spec { api, ticks, l_static, r_static, l_set, r_set, fuse_wrap, pacer }, spurious_pct)
}

fn src<Z: FuseKind>(id: u8, s: &Side) -> SimPull<(K, V), TaskC, Z> {
    SimPull::new(Script::new(id, s.items.clone(), s.pend.clone(), 0, Some(0), s.wake))
}

/// What the task reports back.
#[derive(Default)]
struct Hist {
    /// per tick: encoded emitted pairs, in emission order
    emitted: Vec<Vec<(K, V, V)>>,
    done: bool,
}

fn dec(x: u64) -> (K, V, V) {
    // enc1((k,(v1,v2))) = 1 kkkk v1v1 v2v2 (nibbles)
    (((x >> 8) & 15) as u8, ((x >> 4) & 15) as u8, (x & 15) as u8)
}

/// Build the (type-erased) join pull of one tick.
async fn build_tick<'a, LS, RS>(spec: &Spec, t: &Tick, ls: &'a mut Spy<LS, 0>, rs: &'a mut Spy<RS, 1>, simc: &SimCell<'_>) -> Built<'a>
where
    LS: HalfJoinState<K, V, V> + Default + 'static,
    RS: HalfJoinState<K, V, V> + Default + 'static,
{
    match (spec.api, spec.fuse_wrap) {
        (Api::AsyncFn, true) => {
            let before = RT.with(|r| r.pend_total.get());
            let j = pull::symmetric_hash_join(src::<Un>(0, &t.l).fuse(), src::<Un>(1, &t.r).fuse(), ls, rs, t.new_tick).await;
            if t.new_tick && RT.with(|r| r.pend_total.get()) > before {
                simc.borrow_mut().probe("pending_during_drain");
            }
            erase(j, false, vec![])
        }
        (Api::AsyncFn, false) => {
            let before = RT.with(|r| r.pend_total.get());
            let j = pull::symmetric_hash_join(src::<Fz>(0, &t.l), src::<Fz>(1, &t.r), ls, rs, t.new_tick).await;
            if t.new_tick && RT.with(|r| r.pend_total.get()) > before {
                simc.borrow_mut().probe("pending_during_drain");
            }
            erase(j, false, vec![])
        }
        (Api::MethodState, true) => erase(src::<Un>(0, &t.l).fuse().symmetric_hash_join_state(src::<Un>(1, &t.r).fuse(), ls, rs), false, vec![]),
        (Api::MethodState, false) => erase(src::<Fz>(0, &t.l).symmetric_hash_join_state(src::<Fz>(1, &t.r), ls, rs), false, vec![]),
        (Api::MethodInline, true) => erase(
            src::<Un>(0, &t.l).fuse().symmetric_hash_join(src::<Un>(1, &t.r).fuse(), Spy::<LS, 0>::default(), Spy::<RS, 1>::default()),
            false,
            vec![],
        ),
        (Api::MethodInline, false) => {
            erase(src::<Fz>(0, &t.l).symmetric_hash_join(src::<Fz>(1, &t.r), Spy::<LS, 0>::default(), Spy::<RS, 1>::default()), false, vec![])
        }
    }
}

async fn history<LS, RS>(spec: &Spec, hist: &RefCell<Hist>, simc: &SimCell<'_>)
where
    LS: HalfJoinState<K, V, V> + Default + 'static,
    RS: HalfJoinState<K, V, V> + Default + 'static,
{
    // prologue (once): `let mut joindata_lhs = join_type::default();`
    let mut ls = Spy::<LS, 0>::default();
    let mut rs = Spy::<RS, 1>::default();
    for (ti, t) in spec.ticks.iter().enumerate() {
        hist.borrow_mut().emitted.push(vec![]);
        {
            let built = build_tick::<LS, RS>(spec, t, &mut ls, &mut rs, simc).await;
            let mut top: Box<dyn DynPull + '_> = match &spec.pacer {
                None => built.pull,
                Some(p) => {
                    let pacer = SimPull::<(K, V), TaskC, Fz>::new(Script::new(2, p.items.clone(), p.pend.clone(), 0, Some(0), p.wake));
                    erase(DynShape(built.pull, 0).zip(pacer).map(|(x, _)| x), false, vec![]).pull
                }
            };
            let mut pulls = 0u64;
            poll_fn(|cx: &mut Context<'_>| {
                loop {
                    pulls += 1;
                    if pulls > DYN_PULL_CAP {
                        RT.with(|r| r.cap_hit.set(true));
                        return std::task::Poll::Ready(());
                    }
                    let s = top.pull_dyn(cx);
                    match s {
                        PullStep::Ready(x, _) => {
                            let e = dec(if spec.pacer.is_some() { x & 0xffff_ffff } else { x });
                            simc.borrow_mut().event(0x4000 + (x & 0xfff), || format!("tick {ti}: emit (k={}, (v1={}, v2={}))", e.0, e.1, e.2));
                            hist.borrow_mut().emitted[ti].push(e);
                        }
                        PullStep::Pending(_) => {
                            let q = RT.with(|r| r.jq[0].get() + r.jq[1].get());
                            let mut sim = simc.borrow_mut();
                            sim.event(1, || format!("tick {ti}: Pending ({q} match(es) queued)"));
                            if q > 0 {
                                sim.probe("match_queued_across_pending");
                            }
                            let (ended, pend) = RT.with(|r| (r.ended.get(), r.pend_in_pull.get()));
                            if ended & 3 != 0 && pend & !ended & 3 != 0 {
                                sim.probe("one_side_ended_other_pending");
                            }
                            RT.with(|r| r.pend_in_pull.set(0));
                            return std::task::Poll::Pending;
                        }
                        PullStep::Ended(_) => {
                            simc.borrow_mut().event(2, || format!("tick {ti}: Ended"));
                            return std::task::Poll::Ready(());
                        }
                    }
                }
            })
            .await;
        }
        // tick end (`write_tick_end`): a 'tick side is cleared, a 'static side is kept
        if !spec.l_static {
            ls.clear();
        }
        if !spec.r_static {
            rs.clear();
        }
        // the sources of the next tick are new objects: forget this tick's end flags
        RT.with(|r| r.ended.set(0));
    }
    hist.borrow_mut().done = true;
}

/// Reference model of one half: the (multi)set of entries a side holds.
fn absorb(table: &mut Vec<(K, V)>, arrivals: &[(K, V)], set: bool) {
    for e in arrivals {
        if !set || !table.contains(e) {
            table.push(*e);
        }
    }
}
fn rel_join(l: &[(K, V)], r: &[(K, V)]) -> Vec<(K, V, V)> {
    let mut out = vec![];
    for (k1, v1) in l {
        for (k2, v2) in r {
            if k1 == k2 {
                out.push((*k1, *v1, *v2));
            }
        }
    }
    out.sort_unstable();
    out
}
/// multiset difference a - b (both sorted)
fn msub(a: &[(K, V, V)], b: &[(K, V, V)]) -> Vec<(K, V, V)> {
    let mut out = vec![];
    let mut j = 0;
    for x in a {
        if j < b.len() && b[j] == *x {
            j += 1;
        } else {
            out.push(*x);
        }
    }
    out
}

pub fn run(sim: &mut Sim) -> Outcome {
    let (spec, spurious_pct) = draw_spec(sim);
    rt_reset();
    let hist = RefCell::new(Hist::default());
    let simc: SimCell<'_> = RefCell::new(sim);
    let mut discarded = false;
    let lost;
    {
        let mut ex = SimExec::new();
        type SetS = HalfSetJoinState<K, V, V>;
        type MulS = HalfMultisetJoinState<K, V, V>;
        let t = match (spec.l_set, spec.r_set) {
            (true, true) => ex.spawn(history::<SetS, SetS>(&spec, &hist, &simc)),
            (true, false) => ex.spawn(history::<SetS, MulS>(&spec, &hist, &simc)),
            (false, true) => ex.spawn(history::<MulS, SetS>(&spec, &hist, &simc)),
            (false, false) => ex.spawn(history::<MulS, MulS>(&spec, &hist, &simc)),
        };
        lost = run_single_task(&mut ex, t, &simc, spurious_pct, &mut discarded);
    }
    let sim: &mut Sim = simc.into_inner();
    let hist = hist.into_inner();
    let pend_total = RT.with(|r| r.pend_total.get());
    let src_polls = RT.with(|r| r.src_polls.get());
    let poison = RT.with(|r| r.poison.get());
    let jiter = RT.with(|r| r.jiter.get());
    if jiter & 1 != 0 {
        sim.probe("enumerate_lhs_smaller");
    }
    if jiter & 2 != 0 {
        sim.probe("enumerate_rhs_smaller");
    }
    if pend_total > 0 {
        sim.fault("source_pending");
    }
    if spec.ticks.len() > 1 && (spec.l_static || spec.r_static) {
        sim.probe("state_persisted_across_ticks");
    }
    if spec.ticks.len() > 1 && (!spec.l_static || !spec.r_static) {
        sim.probe("state_cleared_at_tick_end");
    }
    if sim.verbose {
        sim.log.insert(0, format!("join spec: {spec:?}"));
    }

    // ---- oracle
    let mut violation = None;
    let kinds = format!("{}x{}", if spec.l_set { "set" } else { "multiset" }, if spec.r_set { "set" } else { "multiset" });
    if lost {
        violation = Some(Violation::new(
            "c13/lost_wakeup",
            format!("executor quiescent while the join (or its drain) returned Pending with no wake-up registered ({kinds}, {:?})", spec.api),
        ));
    } else if !discarded && RT.with(|r| r.cap_hit.get()) {
        violation = Some(Violation::new("c13/livelock", format!("a tick's join neither ended nor pended within {DYN_PULL_CAP} pulls ({kinds}, {:?})", spec.api)));
    } else if !discarded && poison != 0 {
        violation = Some(Violation::new("c13/repull_after_end", format!("an unfused input (under Pull::fuse) was pulled after its end, mask {poison:#x}")));
    } else if !discarded && hist.done {
        let mut lt: Vec<(K, V)> = vec![];
        let mut rt: Vec<(K, V)> = vec![];
        for (ti, t) in spec.ticks.iter().enumerate() {
            let before = rel_join(&lt, &rt);
            absorb(&mut lt, &t.l.items, spec.l_set);
            absorb(&mut rt, &t.r.items, spec.r_set);
            let full = rel_join(&lt, &rt);
            let drain = spec.api == Api::AsyncFn && t.new_tick;
            let want = if drain { full } else { msub(&full, &before) };
            let mut got = hist.emitted[ti].clone();
            got.sort_unstable();
            if got != want {
                let missing = msub(&want, &got);
                let extra = msub(&got, &want);
                let mode = if drain { "drain" } else { "incremental" };
                let what = if !missing.is_empty() { "missing_pair" } else { "extra_pair" };
                violation = Some(Violation::new(
                    format!("c13/{mode}/{what}"),
                    format!(
                        "tick {ti} ({mode}, {kinds}, {:?}, lhs {}, rhs {}): emitted {got:?}, reference join {want:?}; missing {missing:?}, extra {extra:?}; lhs table {lt:?}, rhs table {rt:?}",
                        spec.api,
                        if spec.l_static { "'static" } else { "'tick" },
                        if spec.r_static { "'static" } else { "'tick" },
                    ),
                ));
                break;
            }
            if !spec.l_static {
                lt.clear();
            }
            if !spec.r_static {
                rt.clear();
            }
        }
    }
    let n_emitted: usize = hist.emitted.iter().map(|e| e.len()).sum();
    sim.state(simcore::hash_debug(&hist.emitted));
    let nontrivial = n_emitted > 0 && (pend_total > 0 || sim.nonbenign > 0);
    Outcome { violation, nontrivial, sim_time: src_polls, discarded }
}
