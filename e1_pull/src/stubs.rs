//! Simulator-owned stubs for E1/pull: scripted pulls, streams, futures, inner iterables, a push and
//! a sink. All scripts are drawn *before* the run starts (plain data), so the stubs never draw from
//! the `Sim` themselves; what they observe is reported through the thread-local run state [`Rt`].
#![allow(dead_code)]

use std::cell::{Cell, RefCell};
use std::collections::VecDeque;
use std::future::Future;
use std::marker::PhantomData;
use std::pin::Pin;
use std::task::{Context, Poll, Waker};

use dfir_pipes::pull::{FusedPull, Pull, PullStep};
use dfir_pipes::push::{Push, PushStep};
use dfir_pipes::{EitherOrBoth, Yes};

// ---------------------------------------------------------------------------------------------
// Run state (one run = one thread, reset at the start of every run)

#[derive(Default)]
pub struct Rt {
    /// executor clock (task polls + idle jumps)
    pub step: Cell<u64>,
    /// wake-ups scheduled for later: (due step, waker)
    pub later: RefCell<Vec<(u64, Waker)>>,
    /// number of wake-ups delivered late
    pub later_fired: Cell<u64>,
    /// bit i: unfused source/stream i was pulled again after it had reported its end
    pub poison: Cell<u32>,
    /// a future was polled again after it completed
    pub fut_repoll: Cell<u32>,
    /// partially consumed inner iterators alive
    pub live_inner: [Cell<i32>; 2],
    /// futures polled at least once and not yet complete
    pub live_fut: Cell<i32>,
    /// inner streams that yielded at least one item and are not exhausted
    pub live_stream: [Cell<i32>; 2],
    /// per top-level pull: sources that answered Ready / Pending (bit per source id)
    pub ready_in_pull: Cell<u32>,
    pub pend_in_pull: Cell<u32>,
    /// sources that have reported their (real) end
    pub ended: Cell<u32>,
    /// sources that answered Pending at least once during the run
    pub pend_total: Cell<u64>,
    pub inspect: Cell<u64>,
    /// source pulls in total (simulated time)
    pub src_polls: Cell<u64>,
    /// waker handed to `stream_ready`
    pub tick_waker: RefCell<Option<Waker>>,
    /// a pull cap was hit (a pull that neither pends nor ends)
    pub cap_hit: Cell<bool>,
    /// C13: matches queued in `current_matches` of the lhs / rhs join state (tracked by the spy)
    pub jq: [Cell<i64>; 2],
    /// C13: bit 0 / 1: `iter()` was called on the lhs / rhs state (which enumeration path ran)
    pub jiter: Cell<u32>,
}

thread_local! {
    pub static RT: Rt = Rt::default();
}

pub fn rt_reset() {
    RT.with(|r| {
        r.step.set(0);
        r.later.borrow_mut().clear();
        r.later_fired.set(0);
        r.poison.set(0);
        r.fut_repoll.set(0);
        r.live_inner[0].set(0);
        r.live_inner[1].set(0);
        r.live_fut.set(0);
        r.live_stream[0].set(0);
        r.live_stream[1].set(0);
        r.ready_in_pull.set(0);
        r.pend_in_pull.set(0);
        r.ended.set(0);
        r.pend_total.set(0);
        r.inspect.set(0);
        r.src_polls.set(0);
        *r.tick_waker.borrow_mut() = None;
        r.cap_hit.set(false);
        r.jq[0].set(0);
        r.jq[1].set(0);
        r.jiter.set(0);
    })
}

/// Fire every scheduled wake-up that is due. Returns how many fired.
pub fn fire_due() -> usize {
    RT.with(|r| {
        let now = r.step.get();
        let mut l = r.later.borrow_mut();
        let mut fired = 0;
        let mut i = 0;
        while i < l.len() {
            if l[i].0 <= now {
                let (_, w) = l.remove(i);
                w.wake();
                fired += 1;
            } else {
                i += 1;
            }
        }
        r.later_fired.set(r.later_fired.get() + fired as u64);
        fired
    })
}
pub fn later_pending() -> bool {
    RT.with(|r| !r.later.borrow().is_empty())
}
/// Jump the clock to the earliest scheduled wake-up.
pub fn jump_to_next_due() {
    RT.with(|r| {
        if let Some(m) = r.later.borrow().iter().map(|x| x.0).min() {
            if m > r.step.get() {
                r.step.set(m);
            }
        }
    })
}
pub fn tick() {
    RT.with(|r| r.step.set(r.step.get() + 1))
}

/// How a stub that answers `Pending` arranges to be polled again.
#[derive(Clone, Copy, Debug, PartialEq, Eq)]
pub enum WakeMode {
    /// `wake_by_ref` before returning
    Now,
    /// the executor delivers the wake-up `d` steps later
    Later(u8),
}

pub fn arrange_wake(w: &Waker, mode: WakeMode) {
    match mode {
        WakeMode::Now => w.wake_by_ref(),
        WakeMode::Later(d) => RT.with(|r| {
            let due = r.step.get() + d as u64;
            r.later.borrow_mut().push((due, w.clone()));
        }),
    }
}

// ---------------------------------------------------------------------------------------------
// type-level switches

pub trait CtxKind: 'static {
    type Ctx<'c>: dfir_pipes::Context<'c>;
    const ASYNC: bool;
    fn arrange(ctx: &mut Self::Ctx<'_>, mode: WakeMode);
}
/// `Ctx = ()`: a `Pending` just means "pull me again"; the driver loops.
pub struct SyncC;
/// `Ctx = task::Context`: a `Pending` registers the task's waker.
pub struct TaskC;
impl CtxKind for SyncC {
    type Ctx<'c> = ();
    const ASYNC: bool = false;
    fn arrange(_: &mut (), _: WakeMode) {}
}
impl CtxKind for TaskC {
    type Ctx<'c> = Context<'c>;
    const ASYNC: bool = true;
    fn arrange(ctx: &mut Context<'_>, mode: WakeMode) {
        arrange_wake(ctx.waker(), mode)
    }
}

pub trait FuseKind: 'static {
    const FUSED: bool;
}
/// keeps answering `Ended` (implements `FusedPull` / `FusedStream`)
pub struct Fz;
/// unfused: pulled after its end it raises the poison flag and yields a poison item
pub struct Un;
impl FuseKind for Fz {
    const FUSED: bool = true;
}
impl FuseKind for Un {
    const FUSED: bool = false;
}

/// Items a poisoned source can fabricate.
pub trait Item: Clone + 'static {
    fn poison() -> Option<Self> {
        None
    }
}
impl Item for u8 {
    fn poison() -> Option<u8> {
        Some(15)
    }
}
impl Item for (u8, u8) {
    fn poison() -> Option<(u8, u8)> {
        Some((15, 15))
    }
}
impl Item for Inner {
    fn poison() -> Option<Inner> {
        Some(Inner { items: vec![15], vague: false, origin: 1 })
    }
}
impl<Z: FuseKind> Item for SimStream<u8, Z> {}

// ---------------------------------------------------------------------------------------------
// Script shared by SimPull / SimStream

#[derive(Clone, Debug)]
pub struct Script<T> {
    pub id: u8,
    pub items: Vec<T>,
    /// `pend[i]` = number of `Pending` answers before item `i`; `pend[len]` = before the end
    pub pend: Vec<u8>,
    pub pos: usize,
    pub ended: bool,
    /// honest widening of the size hint: lower bound reduced by `widen_lo`, upper bound raised by
    /// `widen_hi` (`None` = unbounded)
    pub widen_lo: u8,
    pub widen_hi: Option<u8>,
    pub wake: WakeMode,
}

pub enum Ans<T> {
    Ready(T),
    Pending,
    Ended,
    /// pulled after the end (unfused): poison
    AfterEnd,
}

impl<T: Clone> Script<T> {
    pub fn new(id: u8, items: Vec<T>, pend: Vec<u8>, widen_lo: u8, widen_hi: Option<u8>, wake: WakeMode) -> Self {
        debug_assert_eq!(pend.len(), items.len() + 1);
        Script { id, items, pend, pos: 0, ended: false, widen_lo, widen_hi, wake }
    }
    pub fn exact(id: u8, items: Vec<T>) -> Self {
        let n = items.len();
        Script::new(id, items, vec![0; n + 1], 0, Some(0), WakeMode::Now)
    }
    fn bit(&self) -> u32 {
        1u32 << (self.id & 31)
    }
    pub fn step(&mut self) -> Ans<T> {
        RT.with(|r| r.src_polls.set(r.src_polls.get() + 1));
        if self.ended {
            return Ans::AfterEnd;
        }
        let p = &mut self.pend[self.pos];
        if *p > 0 {
            *p -= 1;
            let b = self.bit();
            RT.with(|r| {
                r.pend_in_pull.set(r.pend_in_pull.get() | b);
                r.pend_total.set(r.pend_total.get() + 1);
            });
            return Ans::Pending;
        }
        if self.pos < self.items.len() {
            self.pos += 1;
            let b = self.bit();
            RT.with(|r| r.ready_in_pull.set(r.ready_in_pull.get() | b));
            Ans::Ready(self.items[self.pos - 1].clone())
        } else {
            self.ended = true;
            let b = self.bit();
            RT.with(|r| r.ended.set(r.ended.get() | b));
            Ans::Ended
        }
    }
    pub fn hint(&self) -> (usize, Option<usize>) {
        let rem = self.items.len() - self.pos;
        (rem.saturating_sub(self.widen_lo as usize), self.widen_hi.map(|w| rem + w as usize))
    }
    fn poisoned(&self) {
        let b = self.bit();
        RT.with(|r| r.poison.set(r.poison.get() | b));
    }
}

// ---------------------------------------------------------------------------------------------
// SimPull

pub struct SimPull<T, K, Z> {
    pub s: Script<T>,
    after_end: u8,
    _m: PhantomData<fn() -> (K, Z)>,
}
impl<T, K, Z> SimPull<T, K, Z> {
    pub fn new(s: Script<T>) -> Self {
        SimPull { s, after_end: 0, _m: PhantomData }
    }
}
impl<T, K, Z> Unpin for SimPull<T, K, Z> {}

impl<T: Item, K: CtxKind, Z: FuseKind> Pull for SimPull<T, K, Z> {
    type Ctx<'c> = K::Ctx<'c>;
    type Item = T;
    type Meta = ();
    type CanPend = Yes;
    type CanEnd = Yes;

    fn pull(self: Pin<&mut Self>, ctx: &mut Self::Ctx<'_>) -> PullStep<T, (), Yes, Yes> {
        let this = self.get_mut();
        match this.s.step() {
            Ans::Ready(x) => PullStep::Ready(x, ()),
            Ans::Pending => {
                K::arrange(ctx, this.s.wake);
                PullStep::Pending(Yes)
            }
            Ans::Ended => PullStep::Ended(Yes),
            Ans::AfterEnd => {
                if Z::FUSED {
                    PullStep::Ended(Yes)
                } else {
                    this.s.poisoned();
                    // a few poison items, then Ended again: a combinator that keeps re-pulling an
                    // ended upstream must not be able to spin the harness forever
                    this.after_end = this.after_end.saturating_add(1);
                    match T::poison() {
                        Some(x) if this.after_end <= 6 => PullStep::Ready(x, ()),
                        _ => PullStep::Ended(Yes),
                    }
                }
            }
        }
    }
    fn size_hint(&self) -> (usize, Option<usize>) {
        self.s.hint()
    }
}
impl<T: Item, K: CtxKind> FusedPull for SimPull<T, K, Fz> {}

// ---------------------------------------------------------------------------------------------
// SimStream

pub struct SimStream<T, Z> {
    pub s: Script<T>,
    /// counted in `live_stream`
    live: bool,
    /// inner streams count as live while partially consumed: Some(0) = created by a
    /// `flat_map_stream` closure, Some(1) = an item fed to `flatten_stream`
    pub inner: Option<u8>,
    _m: PhantomData<fn() -> Z>,
}
impl<T: Clone, Z> Clone for SimStream<T, Z> {
    fn clone(&self) -> Self {
        SimStream { s: self.s.clone(), live: false, inner: self.inner, _m: PhantomData }
    }
}
impl<T, Z> SimStream<T, Z> {
    pub fn new(s: Script<T>) -> Self {
        SimStream { s, live: false, inner: None, _m: PhantomData }
    }
    pub fn new_inner(s: Script<T>, origin: u8) -> Self {
        SimStream { s, live: false, inner: Some(origin & 1), _m: PhantomData }
    }
    pub fn into_items(self) -> std::vec::IntoIter<T>
    where
        T: Clone,
    {
        self.s.items.clone().into_iter()
    }
    fn set_live(&mut self, v: bool) {
        if let Some(o) = self.inner {
            if self.live != v {
                self.live = v;
                let o = o as usize;
                RT.with(|r| r.live_stream[o].set(r.live_stream[o].get() + if v { 1 } else { -1 }));
            }
        }
    }
}
impl<T, Z> Drop for SimStream<T, Z> {
    fn drop(&mut self) {
        self.set_live(false);
    }
}
impl<T, Z> Unpin for SimStream<T, Z> {}
impl<T: Clone, Z: FuseKind> futures::Stream for SimStream<T, Z> {
    type Item = T;
    fn poll_next(self: Pin<&mut Self>, cx: &mut Context<'_>) -> Poll<Option<T>> {
        let this = self.get_mut();
        match this.s.step() {
            Ans::Ready(x) => {
                let more = this.s.pos < this.s.items.len();
                this.set_live(more);
                Poll::Ready(Some(x))
            }
            Ans::Pending => {
                arrange_wake(cx.waker(), this.s.wake);
                Poll::Pending
            }
            Ans::Ended => {
                this.set_live(false);
                Poll::Ready(None)
            }
            Ans::AfterEnd => {
                if !Z::FUSED {
                    this.s.poisoned();
                }
                Poll::Ready(None)
            }
        }
    }
    fn size_hint(&self) -> (usize, Option<usize>) {
        self.s.hint()
    }
}
impl<T: Clone> futures::stream::FusedStream for SimStream<T, Fz> {
    fn is_terminated(&self) -> bool {
        self.s.ended
    }
}

// ---------------------------------------------------------------------------------------------
// SimFuture

pub struct SimFuture<T> {
    out: Option<T>,
    pend: u8,
    wake: WakeMode,
    live: bool,
    done: bool,
}
impl<T> SimFuture<T> {
    pub fn new(out: T, pend: u8, wake: WakeMode) -> Self {
        SimFuture { out: Some(out), pend, wake, live: false, done: false }
    }
    /// Reference side: what the future will resolve to.
    pub fn take_out(mut self) -> T {
        self.out.take().unwrap()
    }
    fn set_live(&mut self, v: bool) {
        if self.live != v {
            self.live = v;
            RT.with(|r| r.live_fut.set(r.live_fut.get() + if v { 1 } else { -1 }));
        }
    }
}
impl<T> Drop for SimFuture<T> {
    fn drop(&mut self) {
        self.set_live(false);
    }
}
impl<T> Unpin for SimFuture<T> {}
impl<T: Default> Future for SimFuture<T> {
    type Output = T;
    fn poll(self: Pin<&mut Self>, cx: &mut Context<'_>) -> Poll<T> {
        let this = self.get_mut();
        RT.with(|r| r.src_polls.set(r.src_polls.get() + 1));
        if this.done {
            RT.with(|r| r.fut_repoll.set(r.fut_repoll.get() + 1));
            return Poll::Ready(T::default());
        }
        if this.pend > 0 {
            this.pend -= 1;
            this.set_live(true);
            RT.with(|r| {
                r.pend_in_pull.set(r.pend_in_pull.get() | (1 << 30));
                r.pend_total.set(r.pend_total.get() + 1);
            });
            arrange_wake(cx.waker(), this.wake);
            return Poll::Pending;
        }
        this.done = true;
        this.set_live(false);
        Poll::Ready(this.out.take().unwrap())
    }
}

// ---------------------------------------------------------------------------------------------
// Inner iterables for flat_map / flatten

#[derive(Clone, Debug)]
pub struct Inner {
    pub items: Vec<u8>,
    /// vague (but honest) size hint
    pub vague: bool,
    /// 0 = created by a `flat_map` closure, 1 = an item fed to `flatten`
    pub origin: u8,
}
pub struct InnerIter {
    items: Vec<u8>,
    pos: usize,
    vague: bool,
    live: bool,
    origin: u8,
}
impl IntoIterator for Inner {
    type Item = u8;
    type IntoIter = InnerIter;
    fn into_iter(self) -> InnerIter {
        InnerIter { items: self.items, pos: 0, vague: self.vague, live: false, origin: self.origin }
    }
}
impl InnerIter {
    fn set_live(&mut self, v: bool) {
        if self.live != v {
            self.live = v;
            let o = (self.origin & 1) as usize;
            RT.with(|r| r.live_inner[o].set(r.live_inner[o].get() + if v { 1 } else { -1 }));
        }
    }
}
impl Drop for InnerIter {
    fn drop(&mut self) {
        self.set_live(false);
    }
}
impl Iterator for InnerIter {
    type Item = u8;
    fn next(&mut self) -> Option<u8> {
        if self.pos < self.items.len() {
            self.pos += 1;
            let more = self.pos < self.items.len();
            self.set_live(more);
            Some(self.items[self.pos - 1])
        } else {
            self.set_live(false);
            None
        }
    }
    fn size_hint(&self) -> (usize, Option<usize>) {
        let rem = self.items.len() - self.pos;
        if self.vague { (rem.saturating_sub(1), None) } else { (rem, Some(rem)) }
    }
}

// ---------------------------------------------------------------------------------------------
// Canonical encoding of output items (both the pull side and the reference side produce `u64`s)

pub trait Enc {
    fn enc(&self, a: &mut u64);
}
impl Enc for u8 {
    fn enc(&self, a: &mut u64) {
        *a = (*a << 4) | (*self as u64 & 15);
    }
}
impl Enc for u64 {
    fn enc(&self, a: &mut u64) {
        *a = (*a << 32) ^ *self;
    }
}
impl Enc for usize {
    fn enc(&self, a: &mut u64) {
        *a = (*a << 8) | (*self as u64 & 255);
    }
}
impl Enc for () {
    fn enc(&self, _: &mut u64) {}
}
impl<A: Enc, B: Enc> Enc for (A, B) {
    fn enc(&self, a: &mut u64) {
        self.0.enc(a);
        self.1.enc(a);
    }
}
impl<A: Enc, B: Enc> Enc for EitherOrBoth<A, B> {
    fn enc(&self, a: &mut u64) {
        match self {
            EitherOrBoth::Both(x, y) => {
                *a = (*a << 4) | 3;
                x.enc(a);
                y.enc(a);
            }
            EitherOrBoth::Left(x) => {
                *a = (*a << 4) | 1;
                x.enc(a);
            }
            EitherOrBoth::Right(y) => {
                *a = (*a << 4) | 2;
                y.enc(a);
            }
        }
    }
}
impl Enc for Inner {
    fn enc(&self, a: &mut u64) {
        *a = (*a << 4) | (self.items.len() as u64 & 15);
        for x in &self.items {
            x.enc(a);
        }
    }
}
pub fn enc1<T: Enc>(t: &T) -> u64 {
    let mut a = 1u64;
    t.enc(&mut a);
    a
}

// ---------------------------------------------------------------------------------------------
// SimPush / SimSink: scripted downstreams for the `send_push` / `send_sink` terminals

#[derive(Default)]
pub struct SinkLog {
    pub got: Vec<u64>,
    pub finalized: u32,
    /// protocol violations observed by the downstream (text of the first one)
    pub proto: Option<&'static str>,
    pub hint: Option<(usize, Option<usize>)>,
}

pub struct SimPush<'l> {
    pub log: &'l RefCell<SinkLog>,
    /// pending answers of `poll_ready` before accepting item i (cycled), and of `poll_finalize`
    pub ready_pend: VecDeque<u8>,
    pub fin_pend: u8,
    pub wake: WakeMode,
    ready_ok: bool,
}
impl<'l> SimPush<'l> {
    pub fn new(log: &'l RefCell<SinkLog>, ready_pend: Vec<u8>, fin_pend: u8, wake: WakeMode) -> Self {
        SimPush { log, ready_pend: ready_pend.into(), fin_pend, wake, ready_ok: false }
    }
}
impl<'l> Unpin for SimPush<'l> {}
impl<'l> Push<u64, ()> for SimPush<'l> {
    type Ctx<'c> = Context<'c>;
    type CanPend = Yes;
    fn poll_ready(self: Pin<&mut Self>, ctx: &mut Context<'_>) -> PushStep<Yes> {
        let this = self.get_mut();
        if this.log.borrow().finalized > 0 {
            this.log.borrow_mut().proto.get_or_insert("poll_ready after poll_finalize");
        }
        if let Some(p) = this.ready_pend.front_mut() {
            if *p > 0 {
                *p -= 1;
                this.ready_ok = false;
                RT.with(|r| r.pend_total.set(r.pend_total.get() + 1));
                arrange_wake(ctx.waker(), this.wake);
                return PushStep::Pending(Yes);
            }
        }
        this.ready_ok = true;
        PushStep::Done
    }
    fn start_send(self: Pin<&mut Self>, item: u64, _meta: ()) {
        let this = self.get_mut();
        let mut l = this.log.borrow_mut();
        if !this.ready_ok {
            l.proto.get_or_insert("start_send without a preceding poll_ready -> Done");
        }
        if l.finalized > 0 {
            l.proto.get_or_insert("start_send after poll_finalize");
        }
        this.ready_ok = false;
        this.ready_pend.pop_front();
        l.got.push(item);
    }
    fn poll_finalize(self: Pin<&mut Self>, ctx: &mut Context<'_>) -> PushStep<Yes> {
        let this = self.get_mut();
        if this.fin_pend > 0 {
            this.fin_pend -= 1;
            RT.with(|r| r.pend_total.set(r.pend_total.get() + 1));
            arrange_wake(ctx.waker(), this.wake);
            return PushStep::Pending(Yes);
        }
        this.log.borrow_mut().finalized += 1;
        PushStep::Done
    }
    fn size_hint(self: Pin<&mut Self>, hint: (usize, Option<usize>)) {
        self.get_mut().log.borrow_mut().hint = Some(hint);
    }
}

pub struct SimSink<'l> {
    pub log: &'l RefCell<SinkLog>,
    pub ready_pend: VecDeque<u8>,
    pub close_pend: u8,
    pub wake: WakeMode,
    ready_ok: bool,
}
impl<'l> SimSink<'l> {
    pub fn new(log: &'l RefCell<SinkLog>, ready_pend: Vec<u8>, close_pend: u8, wake: WakeMode) -> Self {
        SimSink { log, ready_pend: ready_pend.into(), close_pend, wake, ready_ok: false }
    }
}
impl<'l> Unpin for SimSink<'l> {}
impl<'l> futures::Sink<u64> for SimSink<'l> {
    type Error = std::convert::Infallible;
    fn poll_ready(self: Pin<&mut Self>, cx: &mut Context<'_>) -> Poll<Result<(), Self::Error>> {
        let this = self.get_mut();
        if let Some(p) = this.ready_pend.front_mut() {
            if *p > 0 {
                *p -= 1;
                this.ready_ok = false;
                RT.with(|r| r.pend_total.set(r.pend_total.get() + 1));
                arrange_wake(cx.waker(), this.wake);
                return Poll::Pending;
            }
        }
        this.ready_ok = true;
        Poll::Ready(Ok(()))
    }
    fn start_send(self: Pin<&mut Self>, item: u64) -> Result<(), Self::Error> {
        let this = self.get_mut();
        let mut l = this.log.borrow_mut();
        if !this.ready_ok {
            l.proto.get_or_insert("Sink::start_send without a preceding poll_ready -> Ready(Ok)");
        }
        if l.finalized > 0 {
            l.proto.get_or_insert("Sink::start_send after poll_close completed");
        }
        this.ready_ok = false;
        this.ready_pend.pop_front();
        l.got.push(item);
        Ok(())
    }
    fn poll_flush(self: Pin<&mut Self>, _cx: &mut Context<'_>) -> Poll<Result<(), Self::Error>> {
        Poll::Ready(Ok(()))
    }
    fn poll_close(self: Pin<&mut Self>, cx: &mut Context<'_>) -> Poll<Result<(), Self::Error>> {
        let this = self.get_mut();
        if this.close_pend > 0 {
            this.close_pend -= 1;
            RT.with(|r| r.pend_total.set(r.pend_total.get() + 1));
            arrange_wake(cx.waker(), this.wake);
            return Poll::Pending;
        }
        this.log.borrow_mut().finalized += 1;
        Poll::Ready(Ok(()))
    }
}
