#!/bin/bash
# Build the framework offline from files on disk (MANIFEST.setup_cmd). Idempotent.
set -e
cd "$(dirname "$0")"
export CARGO_NET_OFFLINE=true
cargo build --release --offline -p e1_pollsim
for ws in e1_pull e1_sink e1_push e2_wakesim e6_gossip; do
  (cd "$ws" && cargo build --release --offline)
done
(cd e4_hydroprod && cargo build --release --offline -p e4_hydroprod)
./e3_ticksim/warm.sh
./e5_hydrosim/warm.sh
(cd e7_seedsim && ./build_shim.sh && cargo build --release --offline)
echo "setup ok"
