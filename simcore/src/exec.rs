//! Simulated single-threaded executor (DESIGN.md §3.3).
//!
//! Tasks are boxed local futures, each with its own wake flag. The *engine* owns the loop (it
//! decides, through the `Sim`, which task to poll next, whether to poll a task that was not woken
//! — a spurious poll — and when to cancel a task); this module only provides the mechanics.

use std::future::Future;
use std::pin::Pin;
use std::sync::Arc;
use std::sync::atomic::{AtomicBool, AtomicU64, Ordering};
use std::task::{Context, Poll, Wake, Waker};

use crate::SimCell;

/// Per-task wake flag. `wakes` counts every wake call.
pub struct WakeFlag {
    pub woken: AtomicBool,
    pub wakes: AtomicU64,
}
impl WakeFlag {
    pub fn new(initially_woken: bool) -> Arc<Self> {
        Arc::new(WakeFlag { woken: AtomicBool::new(initially_woken), wakes: AtomicU64::new(0) })
    }
    pub fn is_woken(&self) -> bool {
        self.woken.load(Ordering::SeqCst)
    }
    pub fn clear(&self) {
        self.woken.store(false, Ordering::SeqCst)
    }
    pub fn waker(self: &Arc<Self>) -> Waker {
        Waker::from(self.clone())
    }
}
impl Wake for WakeFlag {
    fn wake(self: Arc<Self>) {
        self.wake_by_ref()
    }
    fn wake_by_ref(self: &Arc<Self>) {
        self.wakes.fetch_add(1, Ordering::SeqCst);
        self.woken.store(true, Ordering::SeqCst);
    }
}

pub type LocalFut<'a> = Pin<Box<dyn Future<Output = ()> + 'a>>;

struct Task<'a> {
    fut: Option<LocalFut<'a>>,
    flag: Arc<WakeFlag>,
    polls: u64,
}

pub struct SimExec<'a> {
    tasks: Vec<Task<'a>>,
    pub steps: u64,
}

impl<'a> Default for SimExec<'a> {
    fn default() -> Self {
        Self::new()
    }
}

impl<'a> SimExec<'a> {
    pub fn new() -> Self {
        SimExec { tasks: Vec::new(), steps: 0 }
    }
    /// Spawn a task; it starts woken (it has to be polled once to make progress).
    pub fn spawn(&mut self, fut: impl Future<Output = ()> + 'a) -> usize {
        self.tasks.push(Task { fut: Some(Box::pin(fut)), flag: WakeFlag::new(true), polls: 0 });
        self.tasks.len() - 1
    }
    pub fn len(&self) -> usize {
        self.tasks.len()
    }
    pub fn is_empty(&self) -> bool {
        self.tasks.is_empty()
    }
    pub fn is_done(&self, i: usize) -> bool {
        self.tasks[i].fut.is_none()
    }
    pub fn all_done(&self) -> bool {
        self.tasks.iter().all(|t| t.fut.is_none())
    }
    pub fn is_woken(&self, i: usize) -> bool {
        self.tasks[i].fut.is_some() && self.tasks[i].flag.is_woken()
    }
    pub fn polls(&self, i: usize) -> u64 {
        self.tasks[i].polls
    }
    pub fn flag(&self, i: usize) -> &Arc<WakeFlag> {
        &self.tasks[i].flag
    }
    /// Live tasks that have been woken since their last poll.
    pub fn woken(&self) -> Vec<usize> {
        (0..self.tasks.len()).filter(|&i| self.is_woken(i)).collect()
    }
    /// Live tasks that have *not* been woken (candidates for spurious polls).
    pub fn parked(&self) -> Vec<usize> {
        (0..self.tasks.len())
            .filter(|&i| self.tasks[i].fut.is_some() && !self.tasks[i].flag.is_woken())
            .collect()
    }
    /// Poll task `i` once (clears its wake flag first). Returns true if it completed.
    pub fn poll(&mut self, i: usize) -> bool {
        self.steps += 1;
        let t = &mut self.tasks[i];
        let Some(fut) = t.fut.as_mut() else { return true };
        t.flag.clear();
        t.polls += 1;
        let waker = t.flag.waker();
        let mut cx = Context::from_waker(&waker);
        match fut.as_mut().poll(&mut cx) {
            Poll::Ready(()) => {
                t.fut = None;
                true
            }
            Poll::Pending => false,
        }
    }
    /// Cancel (drop) task `i`'s future.
    pub fn cancel(&mut self, i: usize) {
        self.tasks[i].fut = None;
    }

    /// Standard seeded loop: repeatedly pick a woken task (or, with probability
    /// `spurious_num/spurious_den`, a parked one) until every task finished, quiescence
    /// (nobody woken) or `max_steps`. Returns the reason it stopped.
    pub fn run(
        &mut self,
        simc: &SimCell<'_>,
        spurious_num: u64,
        spurious_den: u64,
        max_steps: u64,
    ) -> Stop {
        loop {
            if self.all_done() {
                return Stop::AllDone;
            }
            if self.steps >= max_steps {
                return Stop::StepCap;
            }
            let woken = self.woken();
            let parked = self.parked();
            if woken.is_empty() {
                return Stop::Quiescent;
            }
            let (i, spurious) = {
                let mut sim = simc.borrow_mut();
                let spurious = !parked.is_empty()
                    && spurious_num > 0
                    && sim.flip("spurious", spurious_num, spurious_den);
                let i = if spurious {
                    sim.fault("spurious_poll");
                    *sim.pick("pick_parked", &parked)
                } else {
                    *sim.pick("pick", &woken)
                };
                (i, spurious)
            };
            let done = self.poll(i);
            simc.borrow_mut().event(0x100 + i as u64 * 2 + done as u64, || {
                format!("poll task {i}{} -> {}", if spurious { " (spurious)" } else { "" }, if done { "done" } else { "pending" })
            });
        }
    }
}

#[derive(Clone, Copy, Debug, PartialEq, Eq)]
pub enum Stop {
    AllDone,
    Quiescent,
    StepCap,
}

/// A waker that does nothing (for direct polling outside the executor).
pub fn noop_waker() -> Waker {
    struct N;
    impl Wake for N {
        fn wake(self: Arc<Self>) {}
    }
    Waker::from(Arc::new(N))
}
