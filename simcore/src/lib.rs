//! simcore — shared deterministic-simulation core (DESIGN.md §3).
//!
//! One integer (`VERIF_SEED`) decides everything: every run `r` of a scenario derives its own
//! SplitMix64 stream from `mix(root, engine, scenario, r)`; engines never touch a PRNG directly
//! but ask the [`Sim`] for *decisions*, which are recorded as `(site, lo, hi, value)` so that a
//! run can be replayed (and minimised) from the list of values alone.

pub mod exec;
pub mod runner;

use std::cell::RefCell;
use std::fmt::Write as _;

/// A `Sim` shared between the engine's loop and the simulated tasks/stubs of one run.
pub type SimCell<'a> = RefCell<&'a mut Sim>;

/// SplitMix64.
#[derive(Clone, Debug)]
pub struct SplitMix64(pub u64);
impl SplitMix64 {
    #[inline]
    pub fn next(&mut self) -> u64 {
        self.0 = self.0.wrapping_add(0x9E37_79B9_7F4A_7C15);
        let mut z = self.0;
        z = (z ^ (z >> 30)).wrapping_mul(0xBF58_476D_1CE4_E5B9);
        z = (z ^ (z >> 27)).wrapping_mul(0x94D0_49BB_1331_11EB);
        z ^ (z >> 31)
    }
}

/// Mix several integers into one seed (order sensitive).
pub fn mix(parts: &[u64]) -> u64 {
    let mut s = SplitMix64(0x243F_6A88_85A3_08D3);
    let mut acc = 0u64;
    for &p in parts {
        s.0 ^= p.wrapping_mul(0x9E37_79B9_7F4A_7C15);
        acc = acc.rotate_left(17) ^ s.next();
    }
    acc
}

pub fn fnv_str(s: &str) -> u64 {
    let mut h = 0xcbf2_9ce4_8422_2325u64;
    for b in s.as_bytes() {
        h ^= *b as u64;
        h = h.wrapping_mul(0x0000_0100_0000_01B3);
    }
    h
}

#[inline]
fn fnv_u64(mut h: u64, v: u64) -> u64 {
    for i in 0..8 {
        h ^= (v >> (i * 8)) & 0xff;
        h = h.wrapping_mul(0x0000_0100_0000_01B3);
    }
    h
}

/// One recorded decision.
#[derive(Clone, Debug, PartialEq, Eq)]
pub struct Dec {
    pub site: &'static str,
    pub lo: u64,
    pub hi: u64,
    pub val: u64,
}

enum Mode {
    Seeded(SplitMix64),
    Replay { vals: Vec<u64>, idx: usize },
}

/// A property violation found by an oracle. `class` identifies the violation class
/// (oracle id + first failing component) and is what minimisation preserves and what
/// `known_findings.json` keys on; `detail` is free text for the human reader.
#[derive(Clone, Debug)]
pub struct Violation {
    pub class: String,
    pub detail: String,
}
impl Violation {
    pub fn new(class: impl Into<String>, detail: impl Into<String>) -> Self {
        Violation { class: class.into(), detail: detail.into() }
    }
}

/// What one simulated run reports back.
#[derive(Clone, Debug, Default)]
pub struct Outcome {
    pub violation: Option<Violation>,
    /// Non-trivial by the engine's stated rule (at least one item flowed and one non-benign
    /// decision fired, unless the engine states another rule).
    pub nontrivial: bool,
    /// Simulated time covered by this run in the engine's unit (polls / ticks / events / steps).
    pub sim_time: u64,
    /// The run was discarded (e.g. generated scenario was vacuous); counted separately.
    pub discarded: bool,
}
impl Outcome {
    pub fn ok(nontrivial: bool, sim_time: u64) -> Self {
        Outcome { violation: None, nontrivial, sim_time, discarded: false }
    }
    pub fn fail(v: Violation, sim_time: u64) -> Self {
        Outcome { violation: Some(v), nontrivial: true, sim_time, discarded: false }
    }
}

/// Decision source + recorder + event log of one run.
pub struct Sim {
    mode: Mode,
    pub trace: Vec<Dec>,
    /// FNV hash over every decision and every event of the run (determinism self-test).
    pub log_hash: u64,
    /// Hash over the realised decisions only (distinctness of schedules).
    pub sched_hash: u64,
    /// Number of non-benign decisions (value != lo) at fault sites.
    pub nonbenign: u64,
    pub faults: Vec<(&'static str, u64)>,
    pub probes: Vec<(&'static str, u64)>,
    pub states: Vec<u64>,
    /// Human-readable event log, only filled when `verbose`.
    pub verbose: bool,
    pub log: Vec<String>,
    /// Global event sequence number (stamps histories).
    pub seq: u64,
}

impl Sim {
    pub fn seeded(seed: u64) -> Self {
        Self::with_mode(Mode::Seeded(SplitMix64(seed)))
    }
    pub fn replay(vals: Vec<u64>) -> Self {
        Self::with_mode(Mode::Replay { vals, idx: 0 })
    }
    fn with_mode(mode: Mode) -> Self {
        Sim {
            mode,
            trace: Vec::with_capacity(64),
            log_hash: 0xcbf2_9ce4_8422_2325,
            sched_hash: 0xcbf2_9ce4_8422_2325,
            nonbenign: 0,
            faults: Vec::new(),
            probes: Vec::new(),
            states: Vec::new(),
            verbose: false,
            log: Vec::new(),
            seq: 0,
        }
    }

    /// A decision in `lo..=hi`; `lo` is by convention the benign choice.
    pub fn choose(&mut self, site: &'static str, lo: u64, hi: u64) -> u64 {
        debug_assert!(lo <= hi);
        let val = match &mut self.mode {
            Mode::Seeded(r) => {
                if lo == hi {
                    lo
                } else {
                    lo + r.next() % (hi - lo + 1)
                }
            }
            Mode::Replay { vals, idx } => {
                let v = vals.get(*idx).copied().unwrap_or(lo);
                *idx += 1;
                if v < lo || v > hi { lo } else { v }
            }
        };
        self.record(site, lo, hi, val);
        val
    }

    pub fn choose_usize(&mut self, site: &'static str, lo: usize, hi: usize) -> usize {
        self.choose(site, lo as u64, hi as u64) as usize
    }

    /// Index into a non-empty slice.
    pub fn pick<'a, T>(&mut self, site: &'static str, xs: &'a [T]) -> &'a T {
        let i = self.choose(site, 0, xs.len() as u64 - 1) as usize;
        &xs[i]
    }

    /// A coin that is `true` with probability `num/den`. The *outcome* is what is recorded
    /// (0 = false = benign), so replay does not depend on the probability.
    pub fn flip(&mut self, site: &'static str, num: u64, den: u64) -> bool {
        let val = match &mut self.mode {
            Mode::Seeded(r) => {
                if num == 0 {
                    0
                } else if num >= den {
                    1
                } else {
                    (r.next() % den < num) as u64
                }
            }
            Mode::Replay { vals, idx } => {
                let v = vals.get(*idx).copied().unwrap_or(0);
                *idx += 1;
                if v > 1 { 0 } else { v }
            }
        };
        self.record(site, 0, 1, val);
        val == 1
    }

    /// Weighted choice; records the chosen index (0 = benign).
    pub fn weighted(&mut self, site: &'static str, weights: &[u64]) -> usize {
        let total: u64 = weights.iter().sum();
        debug_assert!(total > 0);
        let hi = weights.len() as u64 - 1;
        let val = match &mut self.mode {
            Mode::Seeded(r) => {
                let mut x = r.next() % total;
                let mut i = 0;
                for (k, w) in weights.iter().enumerate() {
                    if x < *w {
                        i = k;
                        break;
                    }
                    x -= *w;
                }
                i as u64
            }
            Mode::Replay { vals, idx } => {
                let v = vals.get(*idx).copied().unwrap_or(0);
                *idx += 1;
                // a recorded index with weight 0 is not a legal outcome: fall back to the first legal one
                if v > hi || weights[v as usize] == 0 {
                    weights.iter().position(|w| *w > 0).unwrap() as u64
                } else {
                    v
                }
            }
        };
        self.record(site, 0, hi, val);
        val as usize
    }

    #[inline]
    fn record(&mut self, site: &'static str, lo: u64, hi: u64, val: u64) {
        self.sched_hash = fnv_u64(self.sched_hash, val ^ (fnv_str_fast(site) << 1));
        self.log_hash = fnv_u64(self.log_hash, val.wrapping_add(lo << 20).wrapping_add(hi << 40));
        if self.verbose {
            self.log.push(format!("  decide {site} [{lo}..={hi}] -> {val}"));
        }
        self.trace.push(Dec { site, lo, hi, val });
    }

    /// Count a fault that actually fired.
    pub fn fault(&mut self, name: &'static str) {
        self.nonbenign += 1;
        bump(&mut self.faults, name);
    }
    /// Count a reach probe ("this rare branch was hit").
    pub fn probe(&mut self, name: &'static str) {
        bump(&mut self.probes, name);
    }
    /// Record a SUT-visible state hash (distinct-state measure).
    pub fn state(&mut self, h: u64) {
        if self.states.len() < 256 {
            self.states.push(h);
        }
    }
    /// Feed an event into the run's log hash; `f` is only evaluated for text when verbose.
    #[inline]
    pub fn event(&mut self, code: u64, f: impl FnOnce() -> String) {
        self.seq += 1;
        self.log_hash = fnv_u64(self.log_hash, code);
        if self.verbose {
            let s = f();
            let mut line = String::new();
            let _ = write!(line, "[{}] {}", self.seq, s);
            self.log.push(line);
        }
    }
    pub fn values(&self) -> Vec<u64> {
        self.trace.iter().map(|d| d.val).collect()
    }
    pub fn is_replay(&self) -> bool {
        matches!(self.mode, Mode::Replay { .. })
    }
}

#[inline]
fn fnv_str_fast(s: &'static str) -> u64 {
    // sites are short static strings; pointer identity is not stable across builds, so hash bytes.
    let b = s.as_bytes();
    let mut h = 0xcbf2_9ce4_8422_2325u64;
    for x in b.iter().take(12) {
        h ^= *x as u64;
        h = h.wrapping_mul(0x0000_0100_0000_01B3);
    }
    h
}

fn bump(v: &mut Vec<(&'static str, u64)>, name: &'static str) {
    for e in v.iter_mut() {
        if e.0 == name {
            e.1 += 1;
            return;
        }
    }
    v.push((name, 1));
}

/// Hash helper for engines that want to report distinct states.
pub fn hash_debug<T: std::fmt::Debug>(t: &T) -> u64 {
    fnv_str(&format!("{t:?}"))
}
