//! Batch runner, minimiser, replay files, known findings, evidence, CLI (DESIGN.md §3, §9).

use std::cell::RefCell;
use std::collections::{BTreeMap, HashSet};
use std::panic::{AssertUnwindSafe, catch_unwind};
use std::path::{Path, PathBuf};
use std::sync::Mutex;
use std::sync::atomic::{AtomicBool, AtomicU64, Ordering};
use std::time::Instant;

use serde_json::{Value, json};

use crate::{Dec, Outcome, Sim, Violation, fnv_str, mix};

pub type RunFn = fn(&mut Sim) -> Outcome;

pub struct Scenario {
    pub name: &'static str,
    /// Share of the runs this scenario gets.
    pub weight: u64,
    pub run: RunFn,
}

pub struct Prop {
    pub id: &'static str,
    pub scenarios: Vec<Scenario>,
    pub quick_runs: u64,
    pub thorough_runs: u64,
    /// How cases are generated and what makes one distinct / non-trivial.
    pub rule: &'static str,
    /// Unit of `sim_time` (polls, ticks, events, scheduler steps).
    pub time_unit: &'static str,
    pub real: &'static [&'static str],
    pub stubs: &'static [&'static str],
    pub assumptions: &'static [&'static str],
    /// Probes that must be hit at least once per batch; a probe stuck at zero is a harness
    /// error (exit 2): the workload no longer reaches what it claims to.
    pub required_probes: &'static [&'static str],
}

pub struct Engine {
    pub name: &'static str,
    pub props: Vec<Prop>,
}

thread_local! {
    static LAST_PANIC: RefCell<Option<(String, String)>> = const { RefCell::new(None) };
}

fn install_panic_hook() {
    std::panic::set_hook(Box::new(|info| {
        let msg = if let Some(s) = info.payload().downcast_ref::<&str>() {
            s.to_string()
        } else if let Some(s) = info.payload().downcast_ref::<String>() {
            s.clone()
        } else {
            "<non-string panic>".to_string()
        };
        let loc = info.location().map(|l| format!("{}:{}", l.file(), l.line())).unwrap_or_default();
        LAST_PANIC.with(|p| *p.borrow_mut() = Some((msg, loc)));
    }));
}

/// Execute one run under `catch_unwind`. A panic raised from code under /repo (or a dependency)
/// is a violation of class `panic/<scenario>`; a panic raised from harness code is a harness
/// error and reported as such (class prefix `HARNESS/`), never as a violation.
pub fn run_one(sc: &Scenario, sim: &mut Sim) -> Outcome {
    LAST_PANIC.with(|p| *p.borrow_mut() = None);
    let r = catch_unwind(AssertUnwindSafe(|| (sc.run)(sim)));
    match r {
        Ok(o) => o,
        Err(_) => {
            let (msg, loc) = LAST_PANIC.with(|p| p.borrow_mut().take()).unwrap_or_default();
            // code under test lives under /repo or in the cargo registry; everything else is harness
            let sut = loc.starts_with("/repo/") || loc.contains(".cargo/registry") || loc.starts_with("/rustc/");
            let harness = !sut;
            let class = if harness {
                format!("HARNESS/panic/{}", sc.name)
            } else {
                format!("panic/{}/{}", sc.name, short_loc(&loc))
            };
            Outcome::fail(Violation::new(class, format!("panic at {loc}: {msg}")), sim.seq)
        }
    }
}

fn short_loc(loc: &str) -> String {
    // file name without line (line numbers move with unrelated edits)
    let f = loc.rsplit('/').next().unwrap_or(loc);
    f.split(':').next().unwrap_or(f).to_string()
}

#[derive(Default)]
struct Agg {
    evaluations: u64,
    discarded: u64,
    nontrivial: u64,
    sim_time: u64,
    decisions: u64,
    faults: BTreeMap<&'static str, u64>,
    probes: BTreeMap<&'static str, u64>,
    per_scenario: BTreeMap<&'static str, u64>,
    distinct: HashSet<u64>,
    states: HashSet<u64>,
    violations: Vec<(u64, usize, Violation)>,
    hashes: Vec<(u64, u64)>,
}

const SET_CAP: usize = 1_000_000;

fn scenario_for(prop: &Prop, r: u64) -> usize {
    let tot: u64 = prop.scenarios.iter().map(|s| s.weight).sum();
    let mut x = r % tot;
    for (i, s) in prop.scenarios.iter().enumerate() {
        if x < s.weight {
            return i;
        }
        x -= s.weight;
    }
    0
}

pub fn run_seed(root: u64, engine: &str, scenario: &str, r: u64) -> u64 {
    mix(&[root, fnv_str(engine), fnv_str(scenario), r])
}

struct BatchCfg {
    root: u64,
    runs: u64,
    threads: usize,
    want_hashes: bool,
    max_wall_s: f64,
    /// violation classes listed as known findings: recorded, but they do not stop the batch
    known: Vec<String>,
}

fn run_batch(engine: &Engine, prop: &Prop, cfg: &BatchCfg) -> Agg {
    let next = AtomicU64::new(0);
    let stop = AtomicBool::new(false);
    let nviol = AtomicU64::new(0);
    let total = Mutex::new(Agg::default());
    let t0 = Instant::now();
    std::thread::scope(|s| {
        for _ in 0..cfg.threads {
            s.spawn(|| {
                let mut a = Agg::default();
                loop {
                    if stop.load(Ordering::Relaxed) {
                        break;
                    }
                    let base = next.fetch_add(64, Ordering::Relaxed);
                    if base >= cfg.runs {
                        break;
                    }
                    if cfg.max_wall_s > 0.0 && t0.elapsed().as_secs_f64() > cfg.max_wall_s {
                        break;
                    }
                    for r in base..(base + 64).min(cfg.runs) {
                        let si = scenario_for(prop, r);
                        let sc = &prop.scenarios[si];
                        let mut sim = Sim::seeded(run_seed(cfg.root, engine.name, sc.name, r));
                        let o = run_one(sc, &mut sim);
                        a.evaluations += 1;
                        *a.per_scenario.entry(sc.name).or_default() += 1;
                        a.sim_time += o.sim_time;
                        a.decisions += sim.trace.len() as u64;
                        if o.discarded {
                            a.discarded += 1;
                        }
                        for (k, v) in &sim.faults {
                            *a.faults.entry(k).or_default() += v;
                        }
                        for (k, v) in &sim.probes {
                            *a.probes.entry(k).or_default() += v;
                        }
                        if o.nontrivial && !o.discarded {
                            a.nontrivial += 1;
                            if a.distinct.len() < SET_CAP {
                                a.distinct.insert(sim.sched_hash ^ fnv_str(sc.name));
                            }
                        }
                        if a.states.len() < SET_CAP {
                            for h in &sim.states {
                                a.states.insert(*h);
                            }
                        }
                        if cfg.want_hashes {
                            a.hashes.push((r, sim.log_hash));
                        }
                        if let Some(v) = o.violation {
                            let is_known = cfg.known.iter().any(|k| *k == v.class);
                            if !is_known || a.violations.len() < 64 {
                                a.violations.push((r, si, v));
                            }
                            if !is_known && !cfg.want_hashes && nviol.fetch_add(1, Ordering::Relaxed) >= 32 {
                                stop.store(true, Ordering::Relaxed);
                            }
                        }
                    }
                }
                let mut t = total.lock().unwrap();
                t.evaluations += a.evaluations;
                t.discarded += a.discarded;
                t.nontrivial += a.nontrivial;
                t.sim_time += a.sim_time;
                t.decisions += a.decisions;
                for (k, v) in a.faults {
                    *t.faults.entry(k).or_default() += v;
                }
                for (k, v) in a.probes {
                    *t.probes.entry(k).or_default() += v;
                }
                for (k, v) in a.per_scenario {
                    *t.per_scenario.entry(k).or_default() += v;
                }
                t.distinct.extend(a.distinct);
                t.states.extend(a.states);
                t.violations.extend(a.violations);
                t.hashes.extend(a.hashes);
            });
        }
    });
    let mut t = total.into_inner().unwrap();
    t.violations.sort_by_key(|v| v.0);
    t.hashes.sort();
    t
}

fn combined_hash(h: &[(u64, u64)]) -> u64 {
    let mut acc = 0xcbf2_9ce4_8422_2325u64;
    for (r, x) in h {
        acc = (acc ^ r.wrapping_mul(31) ^ x).wrapping_mul(0x0000_0100_0000_01B3);
    }
    acc
}

// ---------------------------------------------------------------------------------------------
// Minimisation

/// Shrink a decision-value vector while `test` keeps returning true (same violation class).
pub fn minimise(mut vals: Vec<u64>, mut test: impl FnMut(&[u64]) -> bool, budget: usize) -> Vec<u64> {
    let mut used = 0usize;
    let mut try_ = |cand: &[u64], used: &mut usize| -> bool {
        if *used >= budget {
            return false;
        }
        *used += 1;
        test(cand)
    };
    loop {
        let before = vals.clone();
        // 1. truncate the tail
        let mut keep = vals.len();
        let mut step = keep / 2;
        while step > 0 {
            if keep >= step {
                let cand = &vals[..keep - step];
                if try_(cand, &mut used) {
                    keep -= step;
                    continue;
                }
            }
            step /= 2;
        }
        vals.truncate(keep);
        // 2. delete chunks
        let mut size = (vals.len() / 2).max(1);
        loop {
            let mut i = 0;
            while i + size <= vals.len() {
                let mut cand = vals.clone();
                cand.drain(i..i + size);
                if try_(&cand, &mut used) {
                    vals = cand;
                } else {
                    i += size;
                }
            }
            if size == 1 {
                break;
            }
            size /= 2;
        }
        // 3. zero chunks (benign decisions)
        let mut size = (vals.len() / 2).max(1);
        loop {
            let mut i = 0;
            while i + size <= vals.len() {
                if vals[i..i + size].iter().any(|v| *v != 0) {
                    let mut cand = vals.clone();
                    for v in &mut cand[i..i + size] {
                        *v = 0;
                    }
                    if try_(&cand, &mut used) {
                        vals = cand;
                    }
                }
                i += size;
            }
            if size == 1 {
                break;
            }
            size /= 2;
        }
        // 4. shrink single values
        for i in 0..vals.len() {
            while vals[i] > 0 {
                let mut cand = vals.clone();
                cand[i] = if vals[i] > 1 { vals[i] / 2 } else { 0 };
                if try_(&cand, &mut used) {
                    vals = cand;
                } else if vals[i] > 1 {
                    let mut cand = vals.clone();
                    cand[i] = vals[i] - 1;
                    if try_(&cand, &mut used) {
                        vals = cand;
                    } else {
                        break;
                    }
                } else {
                    break;
                }
            }
        }
        if vals == before || used >= budget {
            break;
        }
    }
    vals
}

// ---------------------------------------------------------------------------------------------
// Known findings

#[derive(Clone, Debug)]
pub struct Finding {
    pub property: String,
    pub status: String,
    pub scenario_key: String,
    pub what: String,
}

pub fn verif_dir() -> PathBuf {
    PathBuf::from(std::env::var("VERIF_DIR").unwrap_or_else(|_| "/verif".into()))
}

pub fn load_findings() -> Vec<Finding> {
    let p = verif_dir().join("known_findings.json");
    let Ok(s) = std::fs::read_to_string(&p) else { return vec![] };
    let Ok(v) = serde_json::from_str::<Value>(&s) else {
        eprintln!("HARNESS: cannot parse {}", p.display());
        std::process::exit(2);
    };
    let mut out = vec![];
    for f in v["findings"].as_array().cloned().unwrap_or_default() {
        out.push(Finding {
            property: f["property"].as_str().unwrap_or("").to_string(),
            status: f["status"].as_str().unwrap_or("").to_string(),
            scenario_key: f["scenario_key"].as_str().unwrap_or("").to_string(),
            what: f["what"].as_str().unwrap_or("").to_string(),
        });
    }
    out
}

pub fn known_for<'a>(fs: &'a [Finding], prop: &str, class: &str) -> Option<&'a Finding> {
    fs.iter().find(|f| f.property == prop && f.status == "known" && f.scenario_key == class)
}

// ---------------------------------------------------------------------------------------------
// Replay files

pub fn repo_head() -> String {
    std::process::Command::new("git")
        .args(["-C", "/repo", "rev-parse", "HEAD"])
        .output()
        .ok()
        .map(|o| String::from_utf8_lossy(&o.stdout).trim().to_string())
        .unwrap_or_default()
}

fn decs_json(tr: &[Dec]) -> Value {
    Value::Array(tr.iter().map(|d| json!([d.site, d.lo, d.hi, d.val])).collect())
}

#[allow(clippy::too_many_arguments)]
pub fn write_replay(
    engine: &str,
    prop: &str,
    scenario: &str,
    seed: u64,
    run: u64,
    tr: &[Dec],
    v: &Violation,
    log: &[String],
    original_len: usize,
) -> PathBuf {
    let dir = verif_dir().join("replays");
    let _ = std::fs::create_dir_all(&dir);
    let path = dir.join(format!("{prop}-{seed}-{run}.json"));
    let j = json!({
        "property": prop, "engine": engine, "scenario": scenario,
        "seed": seed, "run": run, "repo_head": repo_head(),
        "violation": v.class, "detail": v.detail,
        "steps": tr.len(), "unminimised_decisions": original_len,
        "decisions": decs_json(tr),
        "event_log": log,
    });
    std::fs::write(&path, serde_json::to_string_pretty(&j).unwrap()).expect("write replay");
    path
}

pub fn read_replay(path: &Path) -> (String, Vec<u64>, String) {
    let s = std::fs::read_to_string(path).unwrap_or_else(|e| {
        eprintln!("HARNESS: cannot read replay {}: {e}", path.display());
        std::process::exit(2)
    });
    let v: Value = serde_json::from_str(&s).unwrap_or_else(|e| {
        eprintln!("HARNESS: bad replay json: {e}");
        std::process::exit(2)
    });
    let scenario = v["scenario"].as_str().unwrap_or("").to_string();
    let vals = v["decisions"]
        .as_array()
        .map(|a| a.iter().map(|d| d[3].as_u64().unwrap_or(0)).collect())
        .unwrap_or_default();
    (scenario, vals, v["violation"].as_str().unwrap_or("").to_string())
}

// ---------------------------------------------------------------------------------------------
// CLI

pub struct Args {
    pub prop: String,
    pub tier: String,
    pub replay: Option<PathBuf>,
    pub runs: Option<u64>,
    pub threads: usize,
    pub hashes: Option<u64>,
    pub seed: u64,
    pub no_selftest: bool,
}

pub fn parse_args() -> Args {
    let mut a = Args {
        prop: String::new(),
        tier: std::env::var("VERIF_TIER").ok().filter(|s| !s.is_empty()).unwrap_or_else(|| "quick".into()),
        replay: None,
        runs: std::env::var("VERIF_RUNS").ok().and_then(|s| s.parse().ok()),
        threads: std::env::var("VERIF_THREADS").ok().and_then(|s| s.parse().ok()).unwrap_or(16),
        hashes: None,
        seed: std::env::var("VERIF_SEED").ok().and_then(|s| s.trim().parse().ok()).unwrap_or(1),
        no_selftest: false,
    };
    let mut it = std::env::args().skip(1);
    while let Some(x) = it.next() {
        match x.as_str() {
            "--tier" => a.tier = it.next().unwrap_or_default(),
            "--replay" => a.replay = it.next().map(PathBuf::from),
            "--runs" => a.runs = it.next().and_then(|s| s.parse().ok()),
            "--threads" => a.threads = it.next().and_then(|s| s.parse().ok()).unwrap_or(16),
            "--hashes" => a.hashes = it.next().and_then(|s| s.parse().ok()),
            "--seed" => a.seed = it.next().and_then(|s| s.parse().ok()).unwrap_or(1),
            "--no-selftest" => a.no_selftest = true,
            s if !s.starts_with("--") && a.prop.is_empty() => a.prop = s.to_string(),
            s => {
                eprintln!("HARNESS: unknown argument {s}");
                std::process::exit(2);
            }
        }
    }
    if a.tier != "quick" && a.tier != "thorough" {
        eprintln!("HARNESS: bad tier {}", a.tier);
        std::process::exit(2);
    }
    a
}

pub fn main(engine: Engine) -> ! {
    install_panic_hook();
    let args = parse_args();
    let Some(prop) = engine.props.iter().find(|p| p.id == args.prop) else {
        eprintln!("HARNESS: engine {} does not serve property '{}'", engine.name, args.prop);
        std::process::exit(2);
    };
    if let Some(path) = &args.replay {
        std::process::exit(do_replay(&engine, prop, path));
    }
    if let Some(n) = args.hashes {
        let agg = run_batch(
            &engine,
            prop,
            &BatchCfg { root: args.seed, runs: n, threads: args.threads, want_hashes: true, max_wall_s: 0.0, known: vec![] },
        );
        println!("HASH {:016x}", combined_hash(&agg.hashes));
        std::process::exit(0);
    }
    std::process::exit(do_check(&engine, prop, &args));
}

fn do_replay(engine: &Engine, prop: &Prop, path: &Path) -> i32 {
    let (scn, vals, expect) = read_replay(path);
    let Some(sc) = prop.scenarios.iter().find(|s| s.name == scn) else {
        eprintln!("HARNESS: unknown scenario '{scn}' for {}", prop.id);
        return 2;
    };
    let mut sim = Sim::replay(vals);
    sim.verbose = true;
    let o = run_one(sc, &mut sim);
    for l in &sim.log {
        println!("{l}");
    }
    let _ = engine;
    match o.violation {
        Some(v) if v.class.starts_with("HARNESS/") => {
            eprintln!("HARNESS: {} {}", v.class, v.detail);
            2
        }
        Some(v) => {
            println!("REPLAY-VIOLATION class={} detail={}", v.class, v.detail);
            let fs = load_findings();
            if let Some(f) = known_for(&fs, prop.id, &v.class) {
                println!("KNOWN-FINDING: property={} {}", prop.id, f.what);
                return 0;
            }
            println!("VIOLATION property={} replay={}", prop.id, path.display());
            1
        }
        None => {
            println!("REPLAY-OK expected_class={expect} (no violation on this tree)");
            0
        }
    }
}

fn selftest(engine: &Engine, prop: &Prop, args: &Args, n: u64) -> Result<u64, String> {
    let h1 = combined_hash(
        &run_batch(engine, prop, &BatchCfg { root: args.seed, runs: n, threads: 1, want_hashes: true, max_wall_s: 0.0, known: vec![] }).hashes,
    );
    let h16 = combined_hash(
        &run_batch(engine, prop, &BatchCfg { root: args.seed, runs: n, threads: 16, want_hashes: true, max_wall_s: 0.0, known: vec![] }).hashes,
    );
    if h1 != h16 {
        return Err(format!("in-process determinism mismatch: 1 thread {h1:016x} vs 16 threads {h16:016x}"));
    }
    let exe = std::env::current_exe().map_err(|e| e.to_string())?;
    let out = std::process::Command::new(exe)
        .args([prop.id, "--hashes", &n.to_string(), "--threads", "4", "--seed", &args.seed.to_string()])
        .output()
        .map_err(|e| e.to_string())?;
    let so = String::from_utf8_lossy(&out.stdout);
    let want = format!("HASH {h1:016x}");
    if !so.contains(&want) {
        return Err(format!("cross-process determinism mismatch: want {want}, child said {}", so.trim()));
    }
    Ok(n)
}

fn do_check(engine: &Engine, prop: &Prop, args: &Args) -> i32 {
    let t0 = Instant::now();
    let runs = args.runs.unwrap_or(if args.tier == "thorough" { prop.thorough_runs } else { prop.quick_runs });
    println!(
        "check property={} engine={} tier={} VERIF_SEED={} runs={} threads={}",
        prop.id, engine.name, args.tier, args.seed, runs, args.threads
    );
    // determinism self-test first (DESIGN §3.6)
    let mut nondeterministic: Option<String> = None;
    let mut unreproducible = 0u64;
    let st_n = if args.no_selftest { 0 } else if args.tier == "thorough" { 20_000.min(runs) } else { 2_000.min(runs) };
    if st_n > 0 {
        match selftest(engine, prop, args, st_n) {
            Ok(_) => println!("selftest: {st_n} runs x (1,16 threads in-process; 4 threads fresh process): identical event-log hashes"),
            Err(e) => {
                // Do not stop here: if the code under test itself behaves nondeterministically
                // (e.g. a result that depends on hash-map iteration order) the batch below may
                // still find a violation that reproduces from its replay file — that is reported
                // as a violation. Only when nothing reproducible is found is this a harness error.
                eprintln!("HARNESS-WARNING: determinism self-test failed: {e}; continuing, the run is only accepted if a violation reproduces from its replay file");
                nondeterministic = Some(e);
            }
        }
    }
    let max_wall = std::env::var("VERIF_MAX_S").ok().and_then(|s| s.parse().ok()).unwrap_or(0.0);
    let findings = load_findings();
    let known: Vec<String> =
        findings.iter().filter(|f| f.property == prop.id && f.status == "known").map(|f| f.scenario_key.clone()).collect();
    let tb = Instant::now();
    let agg = run_batch(
        engine,
        prop,
        &BatchCfg { root: args.seed, runs, threads: args.threads, want_hashes: false, max_wall_s: max_wall, known },
    );
    let batch_wall = tb.elapsed().as_secs_f64();

    // violations: group by class, minimise, confirm in a fresh process
    let mut by_class: BTreeMap<String, (u64, usize, Violation)> = BTreeMap::new();
    for (r, si, v) in &agg.violations {
        by_class.entry(v.class.clone()).or_insert((*r, *si, v.clone()));
    }
    let mut exit = 0;
    let mut reported = 0u64;
    let mut known_printed: HashSet<String> = HashSet::new();
    let mut viol_json = vec![];
    // unknown classes first (at most 6 are minimised and reported), then known-finding classes
    let mut ordered: Vec<(&String, &(u64, usize, Violation))> = by_class.iter().collect();
    ordered.sort_by_key(|(c, _)| known_for(&findings, prop.id, c).is_some());
    let mut unknown_taken = 0;
    for (class, (r, si, v)) in ordered {
        let is_known_class = known_for(&findings, prop.id, class).is_some();
        if !is_known_class {
            if unknown_taken >= 6 {
                continue;
            }
            unknown_taken += 1;
        }
        if class.starts_with("HARNESS/") {
            eprintln!("HARNESS: {} {} (run {r})", class, v.detail);
            return 2;
        }
        let sc = &prop.scenarios[*si];
        let seed = run_seed(args.seed, engine.name, sc.name, *r);
        // reproduce in-process from the seed, recording
        let mut sim = Sim::seeded(seed);
        let o = run_one(sc, &mut sim);
        let same = o.violation.as_ref().map(|x| &x.class) == Some(class);
        if !same {
            eprintln!("HARNESS-WARNING: violation {class} of run {r} did not reproduce in-process from its seed");
            unreproducible += 1;
            continue;
        }
        let orig = sim.values();
        let min = minimise(
            orig.clone(),
            |cand| {
                let mut s = Sim::replay(cand.to_vec());
                let o = run_one(sc, &mut s);
                o.violation.as_ref().map(|x| &x.class) == Some(class)
            },
            3000,
        );
        let mut s = Sim::replay(min);
        s.verbose = true;
        let o = run_one(sc, &mut s);
        let vv = o.violation.clone().unwrap_or_else(|| v.clone());
        let path = write_replay(engine.name, prop.id, sc.name, args.seed, *r, &s.trace, &vv, &s.log, orig.len());
        // fresh-process confirmation
        let exe = std::env::current_exe().unwrap();
        // (when the self-test already showed nondeterminism in the code under test, a few attempts
        // are allowed: a violation that reproduces from its replay file in a fresh process is real)
        let attempts = if nondeterministic.is_some() { 8 } else { 1 };
        let mut confirmed = false;
        for _ in 0..attempts {
            let out = std::process::Command::new(&exe).args([prop.id, "--replay", path.to_str().unwrap()]).output();
            confirmed = match &out {
                Ok(o) => String::from_utf8_lossy(&o.stdout).contains(&format!("REPLAY-VIOLATION class={class}")),
                Err(_) => false,
            };
            if confirmed {
                break;
            }
        }
        if !confirmed {
            eprintln!("HARNESS-WARNING: violation {class} did not reproduce from {} in a fresh process", path.display());
            unreproducible += 1;
            continue;
        }
        if let Some(f) = known_for(&findings, prop.id, class) {
            if known_printed.insert(class.clone()) {
                println!("KNOWN-FINDING: property={} {}", prop.id, f.what);
            }
            viol_json.push(json!({"class": class, "known_finding": true, "replay": path, "detail": vv.detail}));
            continue;
        }
        println!("violation class={class} run={r} scenario={} decisions {} -> {} : {}", sc.name, orig.len(), s.trace.len(), vv.detail);
        println!("VIOLATION property={} replay={}", prop.id, path.display());
        viol_json.push(json!({"class": class, "known_finding": false, "replay": path, "detail": vv.detail}));
        reported += 1;
        exit = 1;
    }

    // samples: runs 0..3 re-run verbosely (deterministic choice of samples)
    let mut samples = vec![];
    // up to 4 sample runs from distinct scenarios (first run index of each), deterministic
    let mut sample_runs: Vec<u64> = vec![];
    {
        let tot: u64 = prop.scenarios.iter().map(|s| s.weight).sum();
        let mut seen: Vec<usize> = vec![];
        let mut r = 0u64;
        while r < runs.min(tot.max(1)) && sample_runs.len() < 4 {
            let si = scenario_for(prop, r);
            if !seen.contains(&si) {
                seen.push(si);
                sample_runs.push(r);
            }
            r += 1;
        }
        let mut extra = 1u64;
        while sample_runs.len() < 3u64.min(runs) as usize {
            if !sample_runs.contains(&extra) {
                sample_runs.push(extra);
            }
            extra += 1;
        }
    }
    for r in sample_runs {
        let si = scenario_for(prop, r);
        let sc = &prop.scenarios[si];
        let mut sim = Sim::seeded(run_seed(args.seed, engine.name, sc.name, r));
        sim.verbose = true;
        let o = run_one(sc, &mut sim);
        samples.push(json!({
            "run": r, "scenario": sc.name,
            "decisions": sim.trace.iter().take(120).map(|d| json!([d.site, d.val])).collect::<Vec<_>>(),
            "n_decisions": sim.trace.len(),
            "history": sim.log.iter().filter(|l| !l.starts_with("  decide")).take(80).collect::<Vec<_>>(),
            "nontrivial": o.nontrivial, "violation": o.violation.map(|v| v.class),
        }));
    }

    // required probes
    let mut missing = vec![];
    for p in prop.required_probes {
        if agg.probes.get(p).copied().unwrap_or(0) == 0 && agg.faults.get(p).copied().unwrap_or(0) == 0 {
            missing.push(*p);
        }
    }

    let wall = t0.elapsed().as_secs_f64();
    let per_hour = if batch_wall > 0.0 { agg.evaluations as f64 / batch_wall * 3600.0 } else { 0.0 };
    let ev = json!({
        "property_id": prop.id,
        "tier": args.tier,
        "seed": args.seed,
        "level": "exploration",
        "coverage": {
            "evaluations": agg.evaluations,
            "distinct_nontrivial": agg.distinct.len(),
            "distinct_is_lower_bound": agg.distinct.len() >= SET_CAP,
            "nontrivial_runs": agg.nontrivial,
            "discarded_runs": agg.discarded,
            "rule": prop.rule,
            "samples": samples,
            "exhaustive": false,
            "runs_per_hour": per_hour as u64,
            "seeds_per_hour": per_hour as u64,
            "simulated_time": {"unit": prop.time_unit, "total": agg.sim_time},
            "decisions_total": agg.decisions,
            "faults_fired": agg.faults,
            "reach_probes": agg.probes,
            "distinct_states": agg.states.len(),
            "distinct_states_measure": "hash of the SUT-visible state tuple recorded by the engine at its observation points (0 = engine does not expose states)",
            "runs_per_scenario": agg.per_scenario,
            "real_components": prop.real,
            "stub_components": prop.stubs,
            "determinism_selftest_runs": st_n,
            "violation_details": viol_json,
            "engine": engine.name,
            "repo_head": repo_head(),
        },
        "assumptions": prop.assumptions,
        "wall_s": wall,
        "violations": reported,
    });
    let evdir = verif_dir().join("evidence");
    let _ = std::fs::create_dir_all(&evdir);
    let evp = evdir.join(format!("{}.json", prop.id));
    if let Err(e) = std::fs::write(&evp, serde_json::to_string_pretty(&ev).unwrap()) {
        eprintln!("HARNESS: cannot write evidence: {e}");
        return 2;
    }
    println!(
        "done property={} runs={} nontrivial_distinct={} sim_time={} {} faults={:?} probes={:?} wall={:.1}s violations={}",
        prop.id, agg.evaluations, agg.distinct.len(), agg.sim_time, prop.time_unit, agg.faults, agg.probes, wall, reported
    );
    if exit == 0 {
        if let Some(e) = &nondeterministic {
            eprintln!("HARNESS: determinism self-test failed and no reproducible violation was found: {e}");
            return 2;
        }
        if unreproducible > 0 {
            eprintln!("HARNESS: {unreproducible} violation(s) did not reproduce from their seed / replay file and nothing else was found");
            return 2;
        }
    }
    if exit == 0 && !missing.is_empty() {
        eprintln!("HARNESS: reach probes stuck at zero: {missing:?} — workload no longer reaches what it claims");
        return 2;
    }
    exit
}
