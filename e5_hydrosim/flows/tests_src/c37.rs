//! C37 end-to-end leg: `CompiledSim::exhaustive` reaches every distinct schedule of a small
//! program. For each program the repository's exhaustive mode is run once and the set S of
//! outcomes (the sequence of per-tick records, which identifies the schedule) is collected; then,
//! seeded, legal outcomes are drawn from an independent reference description of the decision
//! space and tested for membership in S. The sampled reference schedules are what is searched.

use std::collections::BTreeSet;
use std::sync::Mutex;

use crate::harness::*;
use hydro_lang::live_collections::stream::{ExactlyOnce, NoOrder, TotalOrder};
use hydro_lang::prelude::*;
use hydro_lang::sim::{SimReceiver, SimSender};

#[cfg(stageleft_runtime)]
pub const META: PropMeta = PropMeta {
    id: "C37",
    quick_runs: 100_000,
    thorough_runs: 40_000_000,
    rule: "end to end: seven small programs whose outcome (sequence of per-tick records) identifies the schedule — batch of a total stream, of an unordered stream, of a keyed stream; batch+snapshot in one tick; two dependent ticks ready at once (slice B snapshots a count of slice A's output); a top-level assume_ordering observation feeding a tick; the same with the tick's output cycled back into the observation's pool (the only place where tick-versus-observation order is observable). CompiledSim::exhaustive is run once per program and its outcome set S collected; each run then draws one legal outcome from an independent reference model of the decision space (any prefix / any subset / any snapshot version >= the last / any order of ready ticks and observations; every tick releases something new) and tests membership in S. Distinct = distinct (program, sampled outcome); non-trivial = the sampled outcome has more than one tick/observation.",
    time_unit: "reference ticks/observations sampled",
    real: &[
        "hydro_lang::sim::compiled::CompiledSim::exhaustive (bolero exhaustive engine + scheduler + hooks in the compiled dylib)",
    ],
    stubs: &["independent reference model of each program's decision space", "outcome = sequence of per-tick records emitted by the program"],
    assumptions: &[
        "membership is sampled: a clean batch says every sampled legal schedule was reached by the exhaustive mode, not that S is complete",
        "unordered batches are compared as sets (the programs sort them), as the simulator's pruning argument requires",
        "all inputs are sent before the first tick, so every snapshot version exists from the start (the async dataflow runs to completion before any tick is scheduled)",
    ],
    required_probes: &["e2e_exhaustive_ran", "reference_multi_tick_outcome"],
};

#[cfg(stageleft_runtime)]
type Tx<T, O> = SimSender<T, O, ExactlyOnce>;
#[cfg(stageleft_runtime)]
type Rx<T> = SimReceiver<T, TotalOrder, ExactlyOnce>;

#[cfg(stageleft_runtime)]
#[derive(Clone, Copy, Debug, PartialEq, Eq)]
enum Prog {
    Total,
    NoOrd,
    Keyed,
    BatchSnap,
    TwoTicks,
    ObsTick,
    ObsTickCycle,
}
#[cfg(stageleft_runtime)]
impl Prog {
    const ALL: [Prog; 7] = [Prog::Total, Prog::NoOrd, Prog::Keyed, Prog::BatchSnap, Prog::TwoTicks, Prog::ObsTick, Prog::ObsTickCycle];
    fn name(self) -> &'static str {
        match self {
            Prog::Total => "x_total",
            Prog::NoOrd => "x_noorder",
            Prog::Keyed => "x_keyed_total",
            Prog::BatchSnap => "x_batch_snapshot",
            Prog::TwoTicks => "x_two_ticks_ready",
            Prog::ObsTick => "x_observation_then_tick",
            Prog::ObsTickCycle => "x_observation_tick_cycle",
        }
    }
}

#[cfg(stageleft_runtime)]
/// Canonical outcome: a list of records, each a list of integers (program specific encoding).
type Outcome = Vec<Vec<i64>>;

#[cfg(stageleft_runtime)]
struct Enumerated {
    set: BTreeSet<Outcome>,
    executions: usize,
}

#[cfg(stageleft_runtime)]
fn enumerate(p: Prog) -> Enumerated {
    let set = Mutex::new(BTreeSet::<Outcome>::new());
    let sref = &set;
    let mut flow = FlowBuilder::new();
    let node = flow.process::<()>();
    let executions = match p {
        Prog::Total => {
            let (tx, input): (Tx<i32, TotalOrder>, _) = node.sim_input();
            let rx: Rx<Vec<i32>> = sliced! {
                let b = use::batch(input, nondet!(/** c37 */));
                b.fold(q!(|| Vec::new()), q!(|acc: &mut Vec<i32>, v| acc.push(v))).into_stream()
            }
            .sim_output();
            flow.sim().exhaustive(async || {
                tx.send_many([1, 2, 3, 4]);
                let recs: Vec<Vec<i32>> = rx.collect().await;
                sref.lock().unwrap().insert(recs.into_iter().map(|r| r.into_iter().map(|x| x as i64).collect()).collect());
            })
        }
        Prog::NoOrd => {
            let (tx, input): (Tx<i32, NoOrder>, _) = node.sim_input();
            let rx: Rx<Vec<i32>> = sliced! {
                let b = use::batch(input, nondet!(/** c37 */));
                b.fold(q!(|| Vec::new()), q!(|acc: &mut Vec<i32>, v| { acc.push(v); acc.sort(); }, commutative = manual_proof!(/** sorted */))).into_stream()
            }
            .sim_output();
            flow.sim().exhaustive(async || {
                tx.send_many_unordered([1, 2, 3, 4]);
                let recs: Vec<Vec<i32>> = rx.collect().await;
                sref.lock().unwrap().insert(recs.into_iter().map(|r| r.into_iter().map(|x| x as i64).collect()).collect());
            })
        }
        Prog::Keyed => {
            let (tx, input): (Tx<(u8, i32), TotalOrder>, _) = node.sim_input();
            let rx: Rx<Vec<(u8, Vec<i32>)>> = sliced! {
                let b = use::batch(input.into_keyed(), nondet!(/** c37 */));
                b.fold(q!(|| Vec::new()), q!(|acc: &mut Vec<i32>, v| acc.push(v)))
                    .entries()
                    .fold(q!(|| Vec::new()), q!(|acc: &mut Vec<(u8, Vec<i32>)>, kv| { acc.push(kv); acc.sort(); }, commutative = manual_proof!(/** sorted */)))
                    .into_stream()
            }
            .sim_output();
            flow.sim().exhaustive(async || {
                // key 0: 1, 3   key 1: 2, 4
                tx.send_many([(0u8, 1), (1u8, 2), (0u8, 3), (1u8, 4)]);
                let recs: Vec<Vec<(u8, Vec<i32>)>> = rx.collect().await;
                // record encoding: items in key order (keys are implied by the item numbers)
                sref.lock().unwrap().insert(recs.into_iter().map(|r| r.into_iter().flat_map(|(_, v)| v.into_iter().map(|x| x as i64)).collect()).collect());
            })
        }
        Prog::BatchSnap => {
            let (tx0, in0): (Tx<i32, TotalOrder>, _) = node.sim_input();
            let (tx1, in1): (Tx<i32, TotalOrder>, _) = node.sim_input();
            let counted = in1.count();
            let rx: Rx<(Vec<i32>, usize)> = sliced! {
                let b = use::batch(in0, nondet!(/** c37 */));
                let c = use::snapshot(counted, nondet!(/** c37 */));
                b.fold(q!(|| Vec::new()), q!(|acc: &mut Vec<i32>, v| acc.push(v))).zip(c).into_stream()
            }
            .sim_output();
            flow.sim().exhaustive(async || {
                tx0.send_many([1, 2]);
                tx1.send_many([7, 8]);
                let recs: Vec<(Vec<i32>, usize)> = rx.collect().await;
                // record encoding: [100 + snapshot, batch items...]
                sref.lock().unwrap().insert(recs.into_iter().map(|(b, c)| std::iter::once(100 + c as i64).chain(b.into_iter().map(|x| x as i64)).collect()).collect());
            })
        }
        Prog::TwoTicks => {
            let (tx0, in0): (Tx<i32, TotalOrder>, _) = node.sim_input();
            let (tx1, in1): (Tx<i32, TotalOrder>, _) = node.sim_input();
            let a_out = sliced! {
                let b = use::batch(in0, nondet!(/** c37: slice A */));
                b
            };
            let a_count = a_out.clone().count();
            let rx_a: Rx<i32> = a_out.sim_output();
            let rx_b: Rx<(Vec<i32>, usize)> = sliced! {
                let b = use::batch(in1, nondet!(/** c37: slice B */));
                let c = use::snapshot(a_count, nondet!(/** c37: slice B */));
                b.fold(q!(|| Vec::new()), q!(|acc: &mut Vec<i32>, v| acc.push(v))).zip(c).into_stream()
            }
            .sim_output();
            flow.sim().exhaustive(async || {
                tx0.send_many([1, 2]);
                tx1.send_many([7]);
                let recs: Vec<(Vec<i32>, usize)> = rx_b.collect().await;
                let _a: Vec<i32> = rx_a.collect().await;
                // outcome: slice B's records [100 + observed count of A's output, batch items...]
                sref.lock().unwrap().insert(recs.into_iter().map(|(b, c)| std::iter::once(100 + c as i64).chain(b.into_iter().map(|x| x as i64)).collect()).collect());
            })
        }
        Prog::ObsTick => {
            let (tx, input): (Tx<i32, NoOrder>, _) = node.sim_input();
            let ordered = input.assume_ordering::<TotalOrder>(nondet!(/** c37: observation */));
            let rx: Rx<Vec<i32>> = sliced! {
                let b = use::batch(ordered, nondet!(/** c37: tick */));
                b.fold(q!(|| Vec::new()), q!(|acc: &mut Vec<i32>, v| acc.push(v))).into_stream()
            }
            .sim_output();
            flow.sim().exhaustive(async || {
                tx.send_many_unordered([1, 2, 3]);
                let recs: Vec<Vec<i32>> = rx.collect().await;
                sref.lock().unwrap().insert(recs.into_iter().map(|r| r.into_iter().map(|x| x as i64).collect()).collect());
            })
        }
        Prog::ObsTickCycle => {
            // the pattern of `sim_top_level_assume_ordering_cycle_back_tick`: what a tick emits is
            // cycled back (over two network hops) into the unordered pool the observation orders,
            // so whether a tick ran *while the observation was still ready* shows in the output
            let node2 = flow.process::<()>();
            let (tx, input): (Tx<i32, NoOrder>, _) = node.sim_input();
            let (complete_cycle_back, cycle_back) = node.forward_ref::<Stream<_, _, _, NoOrder>>();
            let ordered = input.merge_unordered(cycle_back).assume_ordering::<TotalOrder>(nondet!(/** c37: observation */));
            complete_cycle_back.complete(
                ordered
                    .clone()
                    .batch(&node.tick(), nondet!(/** c37: tick */))
                    .all_ticks()
                    .map(q!(|v| v + 1))
                    .filter(q!(|v| v % 2 == 1))
                    .send(&node2, TCP.fail_stop().bincode())
                    .send(&node, TCP.fail_stop().bincode()),
            );
            let rx: Rx<i32> = ordered.sim_output();
            flow.sim().exhaustive(async || {
                tx.send_many_unordered([0, 2]);
                let out: Vec<i32> = rx.collect().await;
                sref.lock().unwrap().insert(vec![out.into_iter().map(|x| x as i64).collect()]);
            })
        }
    };
    Enumerated { set: set.into_inner().unwrap(), executions }
}

// ---------------------------------------------------------------------------------------------
// Reference models (independent of the simulator)

#[cfg(stageleft_runtime)]
fn composition(r: &mut SplitMix64, items: &[i64]) -> Vec<Vec<i64>> {
    // any split of the sequence into non-empty consecutive batches
    let mut out = vec![];
    let mut cur = vec![];
    for (i, x) in items.iter().enumerate() {
        cur.push(*x);
        if i + 1 == items.len() || below(r, 2) == 0 {
            out.push(std::mem::take(&mut cur));
        }
    }
    out
}

#[cfg(stageleft_runtime)]
fn shuffle(r: &mut SplitMix64, v: &mut [i64]) {
    for i in (1..v.len()).rev() {
        let j = below(r, i as u64 + 1) as usize;
        v.swap(i, j);
    }
}

#[cfg(stageleft_runtime)]
fn reference(p: Prog, run_seed: u64) -> Outcome {
    let mut r = knob_rng(run_seed);
    match p {
        Prog::Total => composition(&mut r, &[1, 2, 3, 4]),
        Prog::NoOrd => {
            // any ordered partition into non-empty sets
            let mut v = vec![1, 2, 3, 4];
            shuffle(&mut r, &mut v);
            composition(&mut r, &v).into_iter().map(|mut b| { b.sort(); b }).collect()
        }
        Prog::Keyed => {
            // per tick: any prefix per key, at least one item overall
            let mut q: [Vec<i64>; 2] = [vec![1, 3], vec![2, 4]];
            let mut out = vec![];
            while q.iter().any(|x| !x.is_empty()) {
                let mut rec = vec![];
                for k in 0..2 {
                    let n = below(&mut r, q[k].len() as u64 + 1) as usize;
                    rec.extend(q[k].drain(..n));
                }
                if !rec.is_empty() {
                    out.push(rec);
                }
            }
            out
        }
        Prog::BatchSnap => {
            // batch items [1,2]; snapshot versions 0,1,2; every tick: prefix (maybe empty) + a
            // version >= the last one, and something new
            let mut rest: Vec<i64> = vec![1, 2];
            let mut last: Option<i64> = None;
            let mut out = vec![];
            while !rest.is_empty() || last != Some(2) {
                let n = below(&mut r, rest.len() as u64 + 1) as usize;
                let lo = last.unwrap_or(0);
                let v = lo + below(&mut r, (2 - lo) as u64 + 1) as i64;
                let new_snap = last != Some(v);
                if n == 0 && !new_snap {
                    continue;
                }
                let mut rec = vec![100 + v];
                rec.extend(rest.drain(..n));
                last = Some(v);
                out.push(rec);
            }
            out
        }
        Prog::TwoTicks => {
            // slice A batches [1,2] (each A tick emits a non-empty prefix; the async dataflow then
            // counts what A emitted: one new count version per element). Slice B: batch [7] +
            // snapshot of that count. Any order of ready ticks.
            let mut a_rest = 2i64; // items A has not released yet
            let mut versions: Vec<i64> = vec![0]; // count versions that exist, not yet consumed by B's hook (ascending)
            let mut count = 0i64;
            let mut b_rest: Vec<i64> = vec![7];
            let mut last: Option<i64> = None;
            let mut out = vec![];
            loop {
                let a_ready = a_rest > 0;
                let b_new_snap = versions.iter().any(|v| last.is_none_or(|l| *v > l));
                let b_ready = !b_rest.is_empty() || b_new_snap;
                if !a_ready && !b_ready {
                    break;
                }
                let pick_a = a_ready && (!b_ready || below(&mut r, 2) == 0);
                if pick_a {
                    let n = 1 + below(&mut r, a_rest as u64) as i64;
                    a_rest -= n;
                    for _ in 0..n {
                        count += 1;
                        versions.push(count);
                    }
                } else {
                    let n = below(&mut r, b_rest.len() as u64 + 1) as usize;
                    // the last released version again, or any newer version that exists by now
                    let mut cands: Vec<i64> = last.into_iter().collect();
                    cands.extend(versions.iter().copied().filter(|v| last.is_none_or(|l| *v > l)));
                    let v = cands[below(&mut r, cands.len() as u64) as usize];
                    if n == 0 && last == Some(v) {
                        continue;
                    }
                    let mut rec = vec![100 + v];
                    rec.extend(b_rest.drain(..n));
                    last = Some(v);
                    versions.retain(|x| *x > v);
                    out.push(rec);
                }
            }
            out
        }
        Prog::ObsTickCycle => {
            // pool {0, 2}; releasing an even x makes x + 1 available (after a tick and two hops):
            // every linear extension of {0 < 1, 2 < 3} is a legal output order
            let mut avail: Vec<i64> = vec![0, 2];
            let mut out = vec![];
            while !avail.is_empty() {
                let x = avail.remove(below(&mut r, avail.len() as u64) as usize);
                out.push(x);
                if x % 2 == 0 {
                    avail.push(x + 1);
                }
            }
            vec![out]
        }
        Prog::ObsTick => {
            // the observation releases the unordered items one at a time in any order; ticks take
            // any non-empty prefix of what was released so far; any interleaving
            let mut pool: Vec<i64> = vec![1, 2, 3];
            let mut released: Vec<i64> = vec![];
            let mut out = vec![];
            while !pool.is_empty() || !released.is_empty() {
                let obs_ready = !pool.is_empty();
                let tick_ready = !released.is_empty();
                if obs_ready && (!tick_ready || below(&mut r, 2) == 0) {
                    let i = below(&mut r, pool.len() as u64) as usize;
                    released.push(pool.remove(i));
                } else {
                    let n = 1 + below(&mut r, released.len() as u64) as usize;
                    out.push(released.drain(..n).collect());
                }
            }
            out
        }
    }
}

#[cfg(stageleft_runtime)]
#[test]
fn e2e_c37() {
    let Some(cfg) = cfg_for("C37") else { return };
    let sets: Vec<Lazy<Enumerated>> = Prog::ALL.iter().map(|p| { let p = *p; Lazy::new(move || enumerate(p)) }).collect();
    let scenarios: Vec<Scenario<'_>> = Prog::ALL
        .iter()
        .zip(&sets)
        .map(|(p, s)| {
            let p = *p;
            Scenario {
                name: p.name(),
                weight: 1,
                run: Box::new(move |inp: &RunIn<'_>| {
                    let e = s.get();
                    let mut out = RunOut::default();
                    out.probe("e2e_exhaustive_ran");
                    let o = reference(p, inp.run_seed);
                    let member = e.set.contains(&o);
                    if !member {
                        out.fail(
                            format!("exhaustive_missed/{}", p.name()),
                            format!("legal outcome {o:?} is not among the {} outcomes that CompiledSim::exhaustive reached in {} executions", e.set.len(), e.executions),
                        );
                    }
                    if o.len() > 1 || o.iter().any(|r| r.len() > 2) {
                        out.probe("reference_multi_tick_outcome");
                    }
                    out.nontrivial = o.len() > 1 || o.iter().any(|r| r.len() > 2);
                    out.sim_time = o.len() as u64;
                    out.sched_hash = hash_str(FNV0, &format!("{o:?}"));
                    out.log_hash = out.sched_hash ^ member as u64 ^ (e.set.len() as u64) << 8 ^ (e.executions as u64) << 24;
                    if inp.verbose {
                        out.text = vec![
                            format!("program {}: CompiledSim::exhaustive ran {} executions, {} distinct outcomes", p.name(), e.executions, e.set.len()),
                            format!("sampled reference outcome {o:?} member={member}"),
                            format!("first outcomes of S: {:?}", e.set.iter().take(6).collect::<Vec<_>>()),
                        ];
                    }
                    out
                }),
            }
        })
        .collect();
    drive(&cfg, &META, scenarios, None);
}
