//! C34: once an acknowledgement released through an atomic region's end has been observed, every
//! later atomic snapshot of the state updated in that region reflects the acknowledged update.
//!
//! Corpus: the counter pattern of the documentation (`atomic()` write path, ack through
//! `end_atomic()`, read path `sliced!` with `use::atomic`), a two-writer variant, a variant whose
//! write and read paths cross a simulated network hop, the keyed counter of the tutorial — and the
//! documented *non-atomic* variant as a negative control, which must show a stale read under some
//! schedule (reach probe: the schedule space really contains the race).

use std::collections::BTreeMap;
use std::sync::Mutex;

use crate::harness::*;

use crate::tags::{Client, Server};
use hydro_lang::live_collections::stream::{ExactlyOnce, NoOrder, TotalOrder};
use hydro_lang::prelude::*;
use hydro_lang::sim::compiled::CompiledSim;
use hydro_lang::sim::{SimReceiver, SimSender};

#[cfg(stageleft_runtime)]
pub const META: PropMeta = PropMeta {
    id: "C34",
    quick_runs: 40_000,
    thorough_runs: 40_000_000,
    rule: "each run picks a program (atomic counter; two writers; network hop; keyed tutorial counter; non-atomic negative control), draws a client script from the run seed (<=6 increments, <=5 reads; increments are sent in bursts, after each burst a seeded number of acknowledgements is awaited; reads are sent in between) and 4096 decision bytes for CompiledSim::fuzz_repro. History: every read remembers how many acknowledgements the client had observed when the read was sent. Distinct = distinct hash of (program, script, decision log); non-trivial = at least one read was sent after an observed acknowledgement AND the schedule ran more than two ticks.",
    time_unit: "scheduled ticks",
    real: &[
        "hydro_lang Atomic locations: Stream::atomic / end_atomic / count inside the atomic region, sliced! with use::atomic and use::batch, SimBuilder begin_atomic/end_atomic handling, simulated fail-stop network channel (network-hop program)",
        "hydro_test::tutorials::keyed_counter::keyed_counter_service (keyed program)",
        "hydro_lang simulator scheduler + hooks; CompiledSim::fuzz_repro",
    ],
    stubs: &["decision bytes expanded from the run seed", "seeded client script", "read-after-write oracle over the client-side history"],
    assumptions: &[
        "only reads sent after an acknowledgement was observed are constrained (count >= number of acknowledgements observed at send time); concurrent reads are only required not to exceed the number of increments sent",
        "the non-atomic variant of the documentation is a negative control: a stale read there is a reach probe, not a violation",
    ],
    required_probes: &["read_after_observed_ack", "stale_read_in_non_atomic_control", "read_concurrent_with_increment"],
};

#[cfg(stageleft_runtime)]
type Tx<T, O> = SimSender<T, O, ExactlyOnce>;
#[cfg(stageleft_runtime)]
type RxT<T> = SimReceiver<T, TotalOrder, ExactlyOnce>;
#[cfg(stageleft_runtime)]
type RxN<T> = SimReceiver<T, NoOrder, ExactlyOnce>;

#[cfg(stageleft_runtime)]
#[derive(Clone, Copy, Debug, PartialEq, Eq)]
enum Prog {
    Atomic,
    NonAtomic,
    TwoWriters,
    NetHop,
    Keyed,
}
#[cfg(stageleft_runtime)]
impl Prog {
    const ALL: [Prog; 5] = [Prog::Atomic, Prog::NonAtomic, Prog::TwoWriters, Prog::NetHop, Prog::Keyed];
    fn name(self) -> &'static str {
        match self {
            Prog::Atomic => "atomic_counter",
            Prog::NonAtomic => "non_atomic_control",
            Prog::TwoWriters => "atomic_two_writers",
            Prog::NetHop => "atomic_network_hop",
            Prog::Keyed => "atomic_keyed_counter",
        }
    }
}


#[cfg(stageleft_runtime)]
enum Ports {
    /// inc, get, ack (ordered), response (ordered)
    Ordered(Tx<u32, TotalOrder>, Tx<u32, TotalOrder>, RxT<u32>, RxT<(u32, usize)>),
    /// two writers: inc a, inc b, get, ack (unordered), response (ordered)
    Two(Tx<u32, TotalOrder>, Tx<u32, TotalOrder>, Tx<u32, TotalOrder>, RxN<u32>, RxT<(u32, usize)>),
    /// keyed tutorial service: inc (client, key), get (client, key), acks, responses (both unordered)
    Keyed(Tx<(u32, String), TotalOrder>, Tx<(u32, String), TotalOrder>, RxN<(u32, String)>, RxN<(u32, (String, usize))>),
}

#[cfg(stageleft_runtime)]
struct Flow {
    prog: Prog,
    compiled: CompiledSim,
    ports: Ports,
}

#[cfg(stageleft_runtime)]
fn build(prog: Prog) -> Flow {
    let mut flow = FlowBuilder::new();
    let ports = match prog {
        Prog::Atomic => {
            let p = flow.process::<Server>();
            let (inc_tx, inc) = p.sim_input::<u32, TotalOrder, ExactlyOnce>();
            let (get_tx, gets) = p.sim_input::<u32, TotalOrder, ExactlyOnce>();
            let processing = inc.atomic();
            let count = processing.clone().count();
            let ack = processing.end_atomic();
            let resp = sliced! {
                let b = use::batch(gets, nondet!(/** batch boundaries of reads */));
                let c = use::atomic(count, nondet!(/** atomicity guarantees consistency wrt increments */));
                b.cross_singleton(c)
            };
            Ports::Ordered(inc_tx, get_tx, ack.sim_output(), resp.sim_output())
        }
        Prog::NonAtomic => {
            let p = flow.process::<Server>();
            let (inc_tx, inc) = p.sim_input::<u32, TotalOrder, ExactlyOnce>();
            let (get_tx, gets) = p.sim_input::<u32, TotalOrder, ExactlyOnce>();
            let count = inc.clone().count();
            let ack = inc.map(q!(|x| x));
            let resp = sliced! {
                let b = use::batch(gets, nondet!(/** batch boundaries of reads */));
                let c = use::snapshot(count, nondet!(/** the documented bug: not synchronised with the acks */));
                b.cross_singleton(c)
            };
            Ports::Ordered(inc_tx, get_tx, ack.sim_output(), resp.sim_output())
        }
        Prog::TwoWriters => {
            let p = flow.process::<Server>();
            let (inc_a, a) = p.sim_input::<u32, TotalOrder, ExactlyOnce>();
            let (inc_b, b) = p.sim_input::<u32, TotalOrder, ExactlyOnce>();
            let (get_tx, gets) = p.sim_input::<u32, TotalOrder, ExactlyOnce>();
            let processing = a.merge_unordered(b).atomic();
            let count = processing.clone().count();
            let ack = processing.end_atomic();
            let resp = sliced! {
                let bt = use::batch(gets, nondet!(/** batch boundaries of reads */));
                let c = use::atomic(count, nondet!(/** atomicity */));
                bt.cross_singleton(c)
            };
            Ports::Two(inc_a, inc_b, get_tx, ack.sim_output(), resp.sim_output())
        }
        Prog::NetHop => {
            let client = flow.process::<Client>();
            let server = flow.process::<Server>();
            let (inc_tx, inc) = client.sim_input::<u32, TotalOrder, ExactlyOnce>();
            let (get_tx, gets) = client.sim_input::<u32, TotalOrder, ExactlyOnce>();
            let inc_at_server = inc.send(&server, TCP.fail_stop().bincode());
            let gets_at_server = gets.send(&server, TCP.fail_stop().bincode());
            let processing = inc_at_server.atomic();
            let count = processing.clone().count();
            let ack = processing.end_atomic();
            let resp = sliced! {
                let b = use::batch(gets_at_server, nondet!(/** batch boundaries of reads */));
                let c = use::atomic(count, nondet!(/** atomicity */));
                b.cross_singleton(c)
            };
            let ack_at_client = ack.send(&client, TCP.fail_stop().bincode());
            let resp_at_client = resp.send(&client, TCP.fail_stop().bincode());
            Ports::Ordered(inc_tx, get_tx, ack_at_client.sim_output(), resp_at_client.sim_output())
        }
        Prog::Keyed => {
            let p = flow.process::<hydro_test::tutorials::keyed_counter::CounterServer>();
            let (inc_tx, inc) = p.sim_input::<(u32, String), TotalOrder, ExactlyOnce>();
            let (get_tx, gets) = p.sim_input::<(u32, String), TotalOrder, ExactlyOnce>();
            let (acks, resps) = hydro_test::tutorials::keyed_counter::keyed_counter_service(inc.into_keyed(), gets.into_keyed());
            Ports::Keyed(inc_tx, get_tx, acks.entries().sim_output(), resps.entries().sim_output())
        }
    };
    let compiled = flow.sim().skip_consistency_assertions().compiled();
    Flow { prog, compiled, ports }
}

#[cfg(stageleft_runtime)]
#[derive(Clone, Debug)]
enum Op {
    /// send these increments (id, writer/key index)
    Inc(Vec<(u32, u8)>),
    /// wait until this many more acknowledgements have been observed (ordered acks), or until
    /// all outstanding ones have (unordered acks)
    AwaitAcks(usize),
    /// send a read (id, key index)
    Read(u32, u8),
}

#[cfg(stageleft_runtime)]
fn script(prog: Prog, run_seed: u64) -> Vec<Op> {
    let mut r = knob_rng(run_seed);
    let n_inc = 1 + below(&mut r, 6) as usize;
    let n_read = 1 + below(&mut r, 5) as usize;
    let nkeys = if prog == Prog::Keyed { 1 + below(&mut r, 2) as u8 } else if prog == Prog::TwoWriters { 2 } else { 1 };
    let mut ops = vec![];
    let (mut incs, mut reads, mut outstanding) = (0usize, 0usize, 0usize);
    let mut id = 0u32;
    while incs < n_inc || reads < n_read {
        let c = below(&mut r, 10);
        if c < 4 && incs < n_inc {
            let k = 1 + below(&mut r, (n_inc - incs).min(3) as u64) as usize;
            let burst: Vec<(u32, u8)> = (0..k)
                .map(|_| {
                    id += 1;
                    (id, below(&mut r, nkeys as u64) as u8)
                })
                .collect();
            incs += k;
            outstanding += k;
            ops.push(Op::Inc(burst));
        } else if c < 7 && outstanding > 0 {
            let k = 1 + below(&mut r, outstanding as u64) as usize;
            outstanding -= k;
            ops.push(Op::AwaitAcks(k));
        } else if reads < n_read {
            id += 1;
            reads += 1;
            ops.push(Op::Read(id, below(&mut r, nkeys as u64) as u8));
        }
    }
    ops
}

#[cfg(stageleft_runtime)]
#[derive(Default, Clone, Debug)]
struct History {
    /// per key: acknowledgements observed so far
    acked: BTreeMap<u8, usize>,
    /// per key: increments sent so far
    sent: BTreeMap<u8, usize>,
    /// read id -> (key, acks observed for that key when the read was sent)
    floor: BTreeMap<u32, (u8, usize)>,
    /// read id -> (observed count, increments of that key sent when the response was collected)
    resp: BTreeMap<u32, (usize, usize)>,
    lines: Vec<String>,
}

#[cfg(stageleft_runtime)]
fn key_name(k: u8) -> String {
    format!("key{k}")
}

#[cfg(stageleft_runtime)]
impl Flow {
    fn run(&self, bytes: &[u8], ops: &[Op]) -> (Verdict, String, History) {
        let h = Mutex::new(History::default());
        let hr = &h;
        let unordered_acks = !matches!(self.ports, Ports::Ordered(..));
        let (v, log) = match &self.ports {
            Ports::Ordered(inc_tx, get_tx, ack_rx, resp_rx) => run_instance(&self.compiled, bytes, async || {
                for op in ops {
                    match op {
                        Op::Inc(b) => {
                            let mut g = hr.lock().unwrap();
                            *g.sent.entry(0).or_default() += b.len();
                            g.lines.push(format!("send increments {:?}", b.iter().map(|x| x.0).collect::<Vec<_>>()));
                            drop(g);
                            inc_tx.send_many(b.iter().map(|x| x.0));
                        }
                        Op::AwaitAcks(k) => {
                            for _ in 0..*k {
                                let a = ack_rx.next().await;
                                let mut g = hr.lock().unwrap();
                                *g.acked.entry(0).or_default() += 1;
                                g.lines.push(format!("observed ack {a}"));
                            }
                        }
                        Op::Read(id, _) => {
                            let mut g = hr.lock().unwrap();
                            let f = g.acked.get(&0).copied().unwrap_or(0);
                            g.floor.insert(*id, (0, f));
                            g.lines.push(format!("send read {id} (acks observed so far: {f})"));
                            drop(g);
                            get_tx.send(*id);
                        }
                    }
                }
                let rest: Vec<(u32, usize)> = resp_rx.collect().await;
                let mut g = hr.lock().unwrap();
                let s = g.sent.get(&0).copied().unwrap_or(0);
                for (id, c) in rest {
                    g.lines.push(format!("read {id} returned {c}"));
                    g.resp.insert(id, (c, s));
                }
            }),
            Ports::Two(inc_a, inc_b, get_tx, ack_rx, resp_rx) => run_instance(&self.compiled, bytes, async || {
                let mut outstanding: Vec<u32> = vec![];
                for op in ops {
                    match op {
                        Op::Inc(b) => {
                            let mut g = hr.lock().unwrap();
                            *g.sent.entry(0).or_default() += b.len();
                            g.lines.push(format!("send increments {b:?} (id, writer)"));
                            drop(g);
                            for (id, w) in b {
                                outstanding.push(*id);
                                if *w == 0 { inc_a.send(*id) } else { inc_b.send(*id) }
                            }
                        }
                        Op::AwaitAcks(_) => {
                            // unordered acknowledgements: wait for all outstanding ones
                            let n = outstanding.len();
                            ack_rx.assert_yields_unordered(std::mem::take(&mut outstanding)).await;
                            let mut g = hr.lock().unwrap();
                            *g.acked.entry(0).or_default() += n;
                            g.lines.push(format!("observed {n} acks"));
                        }
                        Op::Read(id, _) => {
                            let mut g = hr.lock().unwrap();
                            let f = g.acked.get(&0).copied().unwrap_or(0);
                            g.floor.insert(*id, (0, f));
                            g.lines.push(format!("send read {id} (acks observed so far: {f})"));
                            drop(g);
                            get_tx.send(*id);
                        }
                    }
                }
                let rest: Vec<(u32, usize)> = resp_rx.collect().await;
                let mut g = hr.lock().unwrap();
                let s = g.sent.get(&0).copied().unwrap_or(0);
                for (id, c) in rest {
                    g.lines.push(format!("read {id} returned {c}"));
                    g.resp.insert(id, (c, s));
                }
            }),
            Ports::Keyed(inc_tx, get_tx, ack_rx, resp_rx) => run_instance(&self.compiled, bytes, async || {
                let mut outstanding: Vec<(u32, u8)> = vec![];
                for op in ops {
                    match op {
                        Op::Inc(b) => {
                            let mut g = hr.lock().unwrap();
                            for (_, k) in b {
                                *g.sent.entry(*k).or_default() += 1;
                            }
                            g.lines.push(format!("send increments {b:?} (client, key)"));
                            drop(g);
                            for (id, k) in b {
                                outstanding.push((*id, *k));
                                inc_tx.send((*id, key_name(*k)));
                            }
                        }
                        Op::AwaitAcks(_) => {
                            let exp: Vec<(u32, String)> = outstanding.iter().map(|(id, k)| (*id, key_name(*k))).collect();
                            ack_rx.assert_yields_unordered(exp).await;
                            let mut g = hr.lock().unwrap();
                            for (_, k) in outstanding.drain(..) {
                                *g.acked.entry(k).or_default() += 1;
                            }
                            g.lines.push("observed all outstanding acks".into());
                        }
                        Op::Read(id, k) => {
                            let mut g = hr.lock().unwrap();
                            let f = g.acked.get(k).copied().unwrap_or(0);
                            g.floor.insert(*id, (*k, f));
                            g.lines.push(format!("send read {id} of {} (acks observed so far: {f})", key_name(*k)));
                            drop(g);
                            get_tx.send((*id, key_name(*k)));
                        }
                    }
                }
                let rest: Vec<(u32, (String, usize))> = resp_rx.collect_sorted().await;
                let mut g = hr.lock().unwrap();
                for (id, (kname, c)) in rest {
                    let k: u8 = kname.trim_start_matches("key").parse().unwrap_or(0);
                    let s = g.sent.get(&k).copied().unwrap_or(0);
                    g.lines.push(format!("read {id} of {kname} returned {c}"));
                    g.resp.insert(id, (c, s));
                }
            }),
        };
        let _ = unordered_acks;
        (v, log, h.into_inner().unwrap_or_else(|e| e.into_inner()))
    }
}

#[cfg(stageleft_runtime)]
fn run_one(f: &Flow, inp: &RunIn<'_>) -> RunOut {
    let prog = f.prog;
    let name = prog.name();
    let ops = script(prog, inp.run_seed);
    let (v, log, h) = f.run(inp.bytes, &ops);
    let mut out = RunOut::default();
    let pl = parse_log(&log);
    out.sim_time = pl.ticks.len() as u64;
    out.sched_hash = hash_str(hash_str(FNV0, &log), &format!("{ops:?}"));
    out.log_hash = hash_str(out.sched_hash, &format!("{:?}{:?}{v:?}", h.floor, h.resp));
    if inp.verbose {
        out.text.push(format!("{name}: script {ops:?}"));
        out.text.push(format!("verdict: {}", v.text()));
        out.text.extend(h.lines.iter().cloned());
        out.text.extend(log.lines().filter(|l| !l.trim().is_empty()).map(|l| format!("  {l}")));
    }
    match &v {
        Verdict::Ok => {}
        Verdict::Discarded => {
            out.harness_error = Some("instance discarded".into());
            return out;
        }
        Verdict::Panic(msg, loc) => {
            if msg.starts_with(STEP_CAP_MSG) {
                out.fail(format!("livelock/{name}"), msg.clone());
            } else if msg.starts_with("Stream ended") {
                out.fail(format!("ack_never_released/{name}"), format!("an acknowledgement of a sent increment never arrived: {msg}"));
            } else if panic_in_sut(loc) {
                let file = loc.rsplit('/').next().unwrap_or(loc).split(':').next().unwrap_or("").to_string();
                out.fail(format!("panic/{name}/{file}"), format!("panic at {loc}: {msg}"));
            } else {
                out.harness_error = Some(format!("harness-side panic at {loc}: {msg}"));
            }
            return out;
        }
    }
    let mut constrained = 0;
    for (id, (k, floor)) in &h.floor {
        let Some((count, sent)) = h.resp.get(id) else {
            // the keyed service only answers reads of keys that exist (join with the count map)
            if prog == Prog::Keyed && h.sent.get(k).copied().unwrap_or(0) == 0 {
                continue;
            }
            if prog == Prog::Keyed && *floor == 0 {
                // a read that raced ahead of the first increment of its key finds no entry
                out.probe("read_concurrent_with_increment");
                continue;
            }
            out.fail(format!("read_lost/{name}"), format!("read {id} never got a response"));
            return out;
        };
        if *floor > 0 {
            constrained += 1;
            out.probe("read_after_observed_ack");
        } else {
            out.probe("read_concurrent_with_increment");
        }
        if count < floor {
            if prog == Prog::NonAtomic {
                out.probe("stale_read_in_non_atomic_control");
            } else {
                out.fail(format!("stale_read_after_ack/{name}"), format!("read {id} was sent after {floor} acknowledgements had been observed but returned {count}"));
                return out;
            }
        }
        if count > sent {
            out.fail(format!("read_from_the_future/{name}"), format!("read {id} returned {count} but only {sent} increments were ever sent"));
            return out;
        }
    }
    out.nontrivial = constrained > 0 && pl.ticks.len() > 2;
    out
}

#[cfg(stageleft_runtime)]
#[test]
fn e2e_c34() {
    let Some(cfg) = cfg_for("C34") else { return };
    let flows: Vec<Lazy<Flow>> = Prog::ALL.iter().map(|p| { let p = *p; Lazy::new(move || build(p)) }).collect();
    let scenarios: Vec<Scenario<'_>> = Prog::ALL
        .iter()
        .zip(&flows)
        .map(|(p, f)| Scenario { name: p.name(), weight: 1, run: Box::new(move |inp: &RunIn<'_>| run_one(f.get(), inp)) })
        .collect();
    drive(&cfg, &META, scenarios, None);
}
