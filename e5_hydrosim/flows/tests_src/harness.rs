//! harness — what the end-to-end (compiled dylib) legs of E5 share: seed expansion into the
//! decision bytes `CompiledSim::fuzz_repro` consumes, one-instance execution with verdict and
//! scheduler-log capture, the batch loop (shards, violation grouping, in-process reproduction,
//! byte minimisation, replay files, per-leg result JSON), and log parsing helpers.
//!
//! Everything in the `cfg(test)` modules of this crate except `use` lines is marked
//! `#[cfg(stageleft_runtime)]`: the repository's simulator compiles a *staged copy* of this crate
//! (stageleft drops every `impl` block and `#[test]` fn from it and would otherwise try to compile
//! the harness there as well); items with that attribute are left out of the copy, so editing the
//! harness never invalidates the compiled simulator dylibs.
//!
//! The contract with the wrapper (`e5_hydrosim` binary, `e2e.rs`) is a set of environment
//! variables in and one JSON file out:
//!   VERIF_E5_PROP   property id the test must serve (a test for another id returns at once)
//!   VERIF_TIER      quick | thorough            VERIF_SEED  root seed
//!   VERIF_E5_SHARD  "i/k": this process executes the runs whose scenario index si has si % k == i
//!   VERIF_E5_OUT    path of the leg-result JSON this process writes
//!   VERIF_E5_RUNS   optional override of the number of runs
//!   VERIF_E5_START  first run index (used when a shard is restarted after a crash)
//!   VERIF_REPLAY    replay file: re-execute exactly that run, print its log and
//!                   `REPLAY-VIOLATION class=<c>` or `REPLAY-OK`
//!   VERIF_E5_HASHES n: execute the first n runs and print `HASH <hex>` (determinism self-test)

use std::collections::{BTreeMap, BTreeSet};
use std::panic::{AssertUnwindSafe, catch_unwind};
use std::path::PathBuf;
use std::sync::Mutex;
use std::time::Instant;

use hydro_lang::sim::compiled::CompiledSim;
use serde_json::{Value, json};

// (copies of the three simcore primitives used here: this crate is also compiled inside the
// simulator's trybuild project, whose dependency set must not change behind its back)

#[cfg(stageleft_runtime)]
/// SplitMix64.
#[derive(Clone, Debug)]
pub struct SplitMix64(pub u64);
#[cfg(stageleft_runtime)]
impl SplitMix64 {
    #[inline]
    pub fn next(&mut self) -> u64 {
        self.0 = self.0.wrapping_add(0x9E37_79B9_7F4A_7C15);
        let mut z = self.0;
        z = (z ^ (z >> 30)).wrapping_mul(0xBF58_476D_1CE4_E5B9);
        z = (z ^ (z >> 27)).wrapping_mul(0x94D0_49BB_1331_11EB);
        z ^ (z >> 31)
    }
}

#[cfg(stageleft_runtime)]
/// Mix several integers into one seed (order sensitive); identical to `simcore::mix`.
pub fn mix(parts: &[u64]) -> u64 {
    let mut s = SplitMix64(0x243F_6A88_85A3_08D3);
    let mut acc = 0u64;
    for &p in parts {
        s.0 ^= p.wrapping_mul(0x9E37_79B9_7F4A_7C15);
        acc = acc.rotate_left(17) ^ s.next();
    }
    acc
}

#[cfg(stageleft_runtime)]
pub fn fnv_str(s: &str) -> u64 {
    let mut h = 0xcbf2_9ce4_8422_2325u64;
    for b in s.as_bytes() {
        h ^= *b as u64;
        h = h.wrapping_mul(0x0000_0100_0000_01B3);
    }
    h
}

#[cfg(stageleft_runtime)]
pub const ENGINE: &str = "e5_hydrosim";
#[cfg(stageleft_runtime)]
/// `fuzz_repro` builds its byte driver with default options, i.e. `max_len = 4096`: only the
/// first 4096 bytes of the input are ever consumed (afterwards the driver answers zeros).
pub const EFFECTIVE_BYTES: usize = 4096;

#[cfg(stageleft_runtime)]
pub fn verif_dir() -> PathBuf {
    PathBuf::from(std::env::var("VERIF_DIR").unwrap_or_else(|_| "/verif".into()))
}

#[cfg(stageleft_runtime)]
#[derive(Clone, Debug)]
pub struct Cfg {
    pub prop: String,
    pub tier: String,
    pub seed: u64,
    pub shard: (u64, u64),
    pub out: Option<PathBuf>,
    pub runs: Option<u64>,
    pub replay: Option<PathBuf>,
    pub hashes: Option<u64>,
    pub max_s: f64,
}

#[cfg(stageleft_runtime)]
/// `None` when this test process was not asked to serve `prop` (plain `cargo test` runs, or a
/// wrapper invocation for another property): the test then returns immediately.
pub fn cfg_for(prop: &str) -> Option<Cfg> {
    let want = std::env::var("VERIF_E5_PROP").ok()?;
    if want != prop {
        return None;
    }
    let shard = std::env::var("VERIF_E5_SHARD")
        .ok()
        .and_then(|s| {
            let (a, b) = s.split_once('/')?;
            Some((a.parse().ok()?, b.parse().ok()?))
        })
        .unwrap_or((0, 1));
    Some(Cfg {
        prop: prop.to_string(),
        tier: std::env::var("VERIF_TIER").ok().filter(|s| !s.is_empty()).unwrap_or_else(|| "quick".into()),
        seed: std::env::var("VERIF_SEED").ok().and_then(|s| s.trim().parse().ok()).unwrap_or(1),
        shard,
        out: std::env::var("VERIF_E5_OUT").ok().map(PathBuf::from),
        runs: std::env::var("VERIF_E5_RUNS").ok().and_then(|s| s.parse().ok()),
        replay: std::env::var("VERIF_REPLAY").ok().filter(|s| !s.is_empty()).map(PathBuf::from),
        hashes: std::env::var("VERIF_E5_HASHES").ok().and_then(|s| s.parse().ok()),
        max_s: std::env::var("VERIF_MAX_S").ok().and_then(|s| s.parse().ok()).unwrap_or(0.0),
    })
}

#[cfg(stageleft_runtime)]
/// The decision bytes of one run: a pure function of the run seed.
pub fn bytes_for(run_seed: u64, len: usize) -> Vec<u8> {
    let mut r = SplitMix64(run_seed ^ 0x5EED_B17E_5EED_B17E);
    let mut out = Vec::with_capacity(len + 8);
    while out.len() < len {
        out.extend_from_slice(&r.next().to_le_bytes());
    }
    out.truncate(len);
    out
}

#[cfg(stageleft_runtime)]
/// Small per-run PRNG for workload knobs (separate stream from the decision bytes).
pub fn knob_rng(run_seed: u64) -> SplitMix64 {
    SplitMix64(run_seed ^ 0x4B4E_4F42_4B4E_4F42)
}
#[cfg(stageleft_runtime)]
pub fn below(r: &mut SplitMix64, n: u64) -> u64 {
    if n == 0 { 0 } else { r.next() % n }
}

#[cfg(stageleft_runtime)]
pub fn hex(b: &[u8]) -> String {
    let mut s = String::with_capacity(b.len() * 2);
    for x in b {
        s.push_str(&format!("{x:02x}"));
    }
    s
}
#[cfg(stageleft_runtime)]
pub fn unhex(s: &str) -> Vec<u8> {
    (0..s.len() / 2).filter_map(|i| u8::from_str_radix(&s[2 * i..2 * i + 2], 16).ok()).collect()
}

// ---------------------------------------------------------------------------------------------
// One instance

#[cfg(stageleft_runtime)]
#[derive(Clone, Debug, PartialEq, Eq)]
pub enum Verdict {
    /// the test body ran to completion
    Ok,
    /// a `continue_if!`/`assume` rejected the instance (bolero's invalid-input marker)
    Discarded,
    /// a panic: (message, file:line of the panic site)
    Panic(String, String),
}
#[cfg(stageleft_runtime)]
impl Verdict {
    pub fn text(&self) -> String {
        match self {
            Verdict::Ok => "ok".into(),
            Verdict::Discarded => "discarded".into(),
            Verdict::Panic(m, l) => format!("panic at {l}: {m}"),
        }
    }
}

#[cfg(stageleft_runtime)]
thread_local! {
    static LAST_PANIC: std::cell::RefCell<Option<(String, String)>> = const { std::cell::RefCell::new(None) };
}
#[cfg(stageleft_runtime)]
static HOOK: std::sync::Once = std::sync::Once::new();

#[cfg(stageleft_runtime)]
pub fn install_quiet_panic_hook() {
    HOOK.call_once(|| {
        let prev = std::panic::take_hook();
        std::panic::set_hook(Box::new(move |info| {
            let msg = if let Some(s) = info.payload().downcast_ref::<&str>() {
                s.to_string()
            } else if let Some(s) = info.payload().downcast_ref::<String>() {
                s.clone()
            } else {
                "<non-string panic>".to_string()
            };
            let loc = info.location().map(|l| format!("{}:{}", l.file(), l.line())).unwrap_or_default();
            let quiet = IN_INSTANCE.with(|q| q.get());
            LAST_PANIC.with(|p| *p.borrow_mut() = Some((msg, loc)));
            if !quiet {
                prev(info);
            }
        }));
    });
}
#[cfg(stageleft_runtime)]
thread_local! {
    static IN_INSTANCE: std::cell::Cell<bool> = const { std::cell::Cell::new(false) };
}

#[cfg(stageleft_runtime)]
/// Run one simulation instance of `compiled` under the decision bytes `bytes`; `body` is the test
/// side (sends inputs, awaits outputs, records observations). Returns the verdict and the
/// scheduler's decision log (uncoloured).
pub fn run_instance(compiled: &CompiledSim, bytes: &[u8], body: impl AsyncFnOnce() + std::panic::RefUnwindSafe) -> (Verdict, String) {
    install_quiet_panic_hook();
    colored::control::set_override(false);
    let log = Mutex::new(Vec::<u8>::new());
    LAST_PANIC.with(|p| *p.borrow_mut() = None);
    IN_INSTANCE.with(|q| q.set(true));
    let logref = &log;
    let r = catch_unwind(AssertUnwindSafe(|| {
        compiled.fuzz_repro(bytes.to_vec(), async |inst| {
            let mut w = LogSink(logref);
            // the scheduler re-polls the test body between every two of its steps, so counting
            // polls of the body bounds the number of scheduler steps: a simulation that keeps
            // scheduling work without ever finishing is cut off deterministically
            let capped = StepCap { fut: Box::pin(body()), polls: 0 };
            inst.run_with_scheduler_and_logger(&mut w, capped).await;
        });
    }));
    IN_INSTANCE.with(|q| q.set(false));
    let log = String::from_utf8_lossy(&log.lock().unwrap_or_else(|e| e.into_inner())).into_owned();
    let verdict = match r {
        Ok(()) => Verdict::Ok,
        Err(_) => {
            let (msg, loc) = LAST_PANIC.with(|p| p.borrow_mut().take()).unwrap_or_default();
            if msg.starts_with("simulation assumption failed while replaying") {
                Verdict::Discarded
            } else {
                Verdict::Panic(msg, loc)
            }
        }
    };
    (verdict, log)
}

/// Scheduler steps after which an instance is declared live-locked.
#[cfg(stageleft_runtime)]
pub const STEP_CAP: u64 = 400_000;
#[cfg(stageleft_runtime)]
pub const STEP_CAP_MSG: &str = "E5 step cap exceeded";

#[cfg(stageleft_runtime)]
struct StepCap<'a> {
    fut: std::pin::Pin<Box<dyn Future<Output = ()> + 'a>>,
    polls: u64,
}
#[cfg(stageleft_runtime)]
impl Future for StepCap<'_> {
    type Output = ();
    fn poll(mut self: std::pin::Pin<&mut Self>, cx: &mut std::task::Context<'_>) -> std::task::Poll<()> {
        self.polls += 1;
        if self.polls > STEP_CAP {
            panic!("{STEP_CAP_MSG}: the simulation scheduled {STEP_CAP} steps without finishing the test body");
        }
        self.fut.as_mut().poll(cx)
    }
}

#[cfg(stageleft_runtime)]
struct LogSink<'a>(&'a Mutex<Vec<u8>>);
#[cfg(stageleft_runtime)]
impl std::io::Write for LogSink<'_> {
    fn write(&mut self, buf: &[u8]) -> std::io::Result<usize> {
        self.0.lock().unwrap_or_else(|e| e.into_inner()).extend_from_slice(buf);
        Ok(buf.len())
    }
    fn flush(&mut self) -> std::io::Result<()> {
        Ok(())
    }
}

#[cfg(stageleft_runtime)]
pub fn take_last_panic() -> (String, String) {
    LAST_PANIC.with(|p| p.borrow_mut().take()).unwrap_or_default()
}

#[cfg(stageleft_runtime)]
/// Is this panic site inside code under test (the repository or a dependency) rather than in
/// harness/test-body code of the flows crate?
pub fn panic_in_sut(loc: &str) -> bool {
    let l = loc.replace('\\', "/");
    !(l.contains("e5_hydrosim/") || l.starts_with("flows/") || l.starts_with("src/") || l.starts_with("harness/"))
}

// ---------------------------------------------------------------------------------------------
// Scheduler-log parsing

#[cfg(stageleft_runtime)]
/// One hook release line of the scheduler log.
#[derive(Clone, Debug, PartialEq, Eq)]
pub struct Release {
    /// `file:line:col` of the `batch`/`snapshot`/`assume_ordering` call the hook belongs to
    pub location: String,
    /// the note after `^ `, e.g. `releasing items: [1, 2]`
    pub note: String,
    /// inside a `Running Tick` block (otherwise a top-level observation)
    pub in_tick: bool,
}
#[cfg(stageleft_runtime)]
#[derive(Clone, Debug, Default)]
pub struct ParsedLog {
    /// per scheduled tick: the releases of its batch/snapshot hooks, in log order
    pub ticks: Vec<Vec<Release>>,
    /// per scheduled tick: the in-tick ordering decisions (`observed ...` notes of inline hooks)
    pub inline: Vec<Vec<Release>>,
    /// releases of top-level observations, in log order
    pub observations: Vec<Release>,
}

#[cfg(stageleft_runtime)]
/// Parse the (uncoloured) scheduler log written by `run_with_scheduler_and_logger`.
pub fn parse_log(log: &str) -> ParsedLog {
    let mut out = ParsedLog::default();
    let mut in_tick = false;
    let mut cur_loc: Option<String> = None;
    for raw in log.lines() {
        let line = raw.trim_start();
        if line.starts_with("Running Tick") {
            out.ticks.push(vec![]);
            out.inline.push(vec![]);
            in_tick = true;
            continue;
        }
        let (is_tick_line, body) = match line.strip_prefix("* ") {
            Some(b) => (true, b.trim_start()),
            None => (line.starts_with('*') && line.len() == 1, line),
        };
        if let Some(loc) = body.strip_prefix("--> ") {
            cur_loc = Some(loc.trim().to_string());
            if !is_tick_line {
                in_tick = false;
            }
            continue;
        }
        if let Some(pos) = body.find("^ ") {
            if body.trim_start().starts_with('|') {
                let note = body[pos + 2..].trim().to_string();
                let rel = Release { location: cur_loc.clone().unwrap_or_default(), note, in_tick: in_tick && is_tick_line };
                if rel.in_tick {
                    let dst = if rel.note.starts_with("releasing") { out.ticks.last_mut() } else { out.inline.last_mut() };
                    if let Some(t) = dst {
                        t.push(rel);
                    }
                } else {
                    out.observations.push(rel);
                }
            }
        }
    }
    out
}

#[cfg(stageleft_runtime)]
impl Release {
    /// Did this release hand something *new* to the tick (C36: every scheduled tick must)?
    pub fn is_new(&self) -> bool {
        let n = &self.note;
        if n.starts_with("releasing no items") || n.starts_with("releasing unchanged snapshot") {
            return false;
        }
        if n.starts_with("releasing items: {") {
            // keyed snapshot: new iff some entry is not marked `(unchanged)`
            let inner = n.trim_start_matches("releasing items: {").trim_end_matches('}');
            return inner.split(", ").any(|e| !e.trim().is_empty() && !e.contains("(unchanged)"));
        }
        true
    }
    /// The integers of a `releasing [unordered] items: [a, b, c]` note.
    pub fn int_items(&self) -> Option<Vec<i64>> {
        let l = self.note.find('[')?;
        let r = self.note.rfind(']')?;
        if r < l {
            return None;
        }
        let inner = &self.note[l + 1..r];
        if inner.trim().is_empty() {
            return Some(vec![]);
        }
        if inner.contains("..") {
            return None; // truncated list (more than 8 items)
        }
        inner.split(',').map(|x| x.trim().parse::<i64>().ok()).collect()
    }
}

// ---------------------------------------------------------------------------------------------
// Batch loop

#[cfg(stageleft_runtime)]
#[derive(Clone, Debug, Default)]
pub struct RunOut {
    pub violation: Option<(String, String)>,
    pub nontrivial: bool,
    pub discarded: bool,
    /// harness-level problem (never an alarm): exit 2
    pub harness_error: Option<String>,
    /// simulated time: scheduled ticks + observations
    pub sim_time: u64,
    /// hash of everything observable of the run (log, outputs, verdict): determinism self-test
    pub log_hash: u64,
    /// hash of the realised schedule (the decision log)
    pub sched_hash: u64,
    pub probes: Vec<&'static str>,
    /// human readable trace (only produced when asked for samples / replay)
    pub text: Vec<String>,
}
#[cfg(stageleft_runtime)]
impl RunOut {
    pub fn fail(&mut self, class: impl Into<String>, detail: impl Into<String>) {
        if self.violation.is_none() {
            self.violation = Some((class.into(), detail.into()));
        }
    }
    pub fn probe(&mut self, p: &'static str) {
        self.probes.push(p);
    }
}

#[cfg(stageleft_runtime)]
pub struct RunIn<'a> {
    /// run index within the batch (u64::MAX in replay mode)
    pub run: u64,
    pub run_seed: u64,
    pub bytes: &'a [u8],
    pub verbose: bool,
    /// also perform the checks that are too expensive for every run of a batch (set whenever a
    /// violation candidate is being reproduced, and in replay mode)
    pub deep: bool,
}

#[cfg(stageleft_runtime)]
/// What a post-batch pass (e.g. C38's cross-process comparison of sampled runs) reports.
#[derive(Default)]
pub struct PostOut {
    /// (class, run index, detail): handled like violations found during the batch
    pub viols: Vec<(String, u64, String)>,
    pub probes: Vec<(&'static str, u64)>,
    pub harness_error: Option<String>,
}

#[cfg(stageleft_runtime)]
pub struct Scenario<'a> {
    pub name: &'static str,
    pub weight: u64,
    pub run: Box<dyn Fn(&RunIn<'_>) -> RunOut + 'a>,
}

#[cfg(stageleft_runtime)]
pub struct PropMeta {
    pub id: &'static str,
    pub quick_runs: u64,
    pub thorough_runs: u64,
    pub rule: &'static str,
    pub time_unit: &'static str,
    pub real: &'static [&'static str],
    pub stubs: &'static [&'static str],
    pub assumptions: &'static [&'static str],
    pub required_probes: &'static [&'static str],
}

#[cfg(stageleft_runtime)]
fn scenario_for(scs: &[Scenario<'_>], r: u64) -> usize {
    let tot: u64 = scs.iter().map(|s| s.weight).sum();
    let mut x = r % tot;
    for (i, s) in scs.iter().enumerate() {
        if x < s.weight {
            return i;
        }
        x -= s.weight;
    }
    0
}

#[cfg(stageleft_runtime)]
pub fn run_seed(root: u64, scenario: &str, r: u64) -> u64 {
    mix(&[root, fnv_str(ENGINE), fnv_str(scenario), r])
}

#[cfg(stageleft_runtime)]
fn run_guarded(sc: &Scenario<'_>, inp: &RunIn<'_>) -> RunOut {
    match catch_unwind(AssertUnwindSafe(|| (sc.run)(inp))) {
        Ok(o) => o,
        Err(_) => {
            let (msg, loc) = LAST_PANIC.with(|p| p.borrow_mut().take()).unwrap_or_default();
            RunOut { harness_error: Some(format!("scenario {} panicked outside an instance at {loc}: {msg}", sc.name)), ..Default::default() }
        }
    }
}

#[cfg(stageleft_runtime)]
/// Shrink the decision bytes while the same violation class persists: cut the tail, then zero
/// chunks (a zero byte is the byte driver's own "out of input" answer).
fn minimise(sc: &Scenario<'_>, seed: u64, bytes: Vec<u8>, class: &str, budget: usize) -> Vec<u8> {
    let mut used = 0;
    let test = |cand: &[u8], used: &mut usize| -> bool {
        if *used >= budget {
            return false;
        }
        *used += 1;
        let o = run_guarded(sc, &RunIn { run: u64::MAX, run_seed: seed, bytes: cand, verbose: false, deep: true });
        o.violation.as_ref().map(|v| v.0.as_str()) == Some(class)
    };
    let mut b = bytes;
    let mut step = b.len() / 2;
    while step > 0 {
        if b.len() >= step && test(&b[..b.len() - step], &mut used) {
            let n = b.len() - step;
            b.truncate(n);
        } else {
            step /= 2;
        }
    }
    let mut size = (b.len() / 2).max(1);
    loop {
        let mut i = 0;
        while i + size <= b.len() {
            if b[i..i + size].iter().any(|x| *x != 0) {
                let mut cand = b.clone();
                cand[i..i + size].fill(0);
                if test(&cand, &mut used) {
                    b = cand;
                }
            }
            i += size;
        }
        if size == 1 || used >= budget {
            break;
        }
        size /= 2;
    }
    while b.last() == Some(&0) {
        b.pop();
    }
    b
}

#[cfg(stageleft_runtime)]
pub fn repo_head() -> String {
    std::process::Command::new("git")
        .args(["-C", "/repo", "rev-parse", "HEAD"])
        .output()
        .ok()
        .map(|o| String::from_utf8_lossy(&o.stdout).trim().to_string())
        .unwrap_or_default()
}

#[cfg(stageleft_runtime)]
/// Entry point of an end-to-end property test. Never panics for a *violation* (that is data in
/// the result JSON); panics (=> the Rust test fails => the wrapper exits 2) only on harness errors.
pub fn drive(cfg: &Cfg, meta: &PropMeta, scenarios: Vec<Scenario<'_>>, post: Option<&dyn Fn() -> PostOut>) {
    install_quiet_panic_hook();
    assert_eq!(cfg.prop, meta.id);
    // (libtest prints `test <name> ... ` without a newline when output is not captured)
    println!();
    if let Some(path) = &cfg.replay {
        replay(meta, &scenarios, path);
        return;
    }
    let runs = cfg.runs.unwrap_or(if cfg.tier == "thorough" { meta.thorough_runs } else { meta.quick_runs });
    if let Some(n) = cfg.hashes {
        // determinism self-test, second process: hash of the first n runs of this shard
        let (shard_i, shard_k) = cfg.shard;
        let mut acc = 0xcbf2_9ce4_8422_2325u64;
        let mut done = 0;
        let mut r = 0;
        while r < runs && done < n {
            let si = scenario_for(&scenarios, r);
            if si as u64 % shard_k == shard_i {
                let sc = &scenarios[si];
                let seed = run_seed(cfg.seed, sc.name, r);
                let bytes = bytes_for(seed, EFFECTIVE_BYTES);
                let o = run_guarded(sc, &RunIn { run: r, run_seed: seed, bytes: &bytes, verbose: false, deep: false });
                if let Some(e) = o.harness_error {
                    panic!("HARNESS: {e}");
                }
                acc = (acc ^ r.wrapping_mul(31) ^ o.log_hash).wrapping_mul(0x0000_0100_0000_01B3);
                done += 1;
            }
            r += 1;
        }
        println!("HASH {acc:016x} {done}");
        return;
    }
    let t0 = Instant::now();
    let (shard_i, shard_k) = cfg.shard;
    let mut evaluations = 0u64;
    let mut discarded = 0u64;
    let mut nontrivial = 0u64;
    let mut sim_time = 0u64;
    let mut probes: BTreeMap<&'static str, u64> = BTreeMap::new();
    let mut per_scenario: BTreeMap<&'static str, u64> = BTreeMap::new();
    let mut distinct: BTreeSet<u64> = BTreeSet::new();
    let mut viols: BTreeMap<String, (u64, usize, String)> = BTreeMap::new();
    let mut selftest_runs = 0u64;
    let selftest_n = if cfg.tier == "thorough" { 400 } else { 100 };
    // hash over the first runs of this shard, compared by the wrapper with a second process
    let hash_n: u64 = std::env::var("VERIF_E5_HASHN").ok().and_then(|s| s.parse().ok()).unwrap_or(0);
    let (mut hash_acc, mut hash_done) = (0xcbf2_9ce4_8422_2325u64, 0u64);
    // runs are assigned to shard processes by *scenario* (si % k), so that a shard only has to
    // build (compile/load) the flows of its own scenarios
    let mut r = std::env::var("VERIF_E5_START").ok().and_then(|s| s.parse().ok()).unwrap_or(0u64);
    // A panic raised inside the simulator dylib cannot be caught here (the dylib links its own
    // copy of std: "Rust cannot catch foreign exceptions") and aborts this process. The wrapper
    // learns which run that was from this marker file.
    let marker = std::env::var("VERIF_E5_MARKER").ok().map(PathBuf::from).or_else(|| cfg.out.as_ref().map(|o| PathBuf::from(format!("{}.cur", o.display()))));
    // (one open handle, fixed-width record rewritten in place: no per-run metadata operations)
    let marker_file = marker.as_ref().and_then(|m| std::fs::OpenOptions::new().create(true).write(true).truncate(true).open(m).ok());
    while r < runs {
        if cfg.max_s > 0.0 && t0.elapsed().as_secs_f64() > cfg.max_s {
            break;
        }
        let si = scenario_for(&scenarios, r);
        if si as u64 % shard_k != shard_i {
            r += 1;
            continue;
        }
        let sc = &scenarios[si];
        let seed = run_seed(cfg.seed, sc.name, r);
        if let Some(f) = &marker_file {
            use std::os::unix::fs::FileExt;
            let _ = f.write_all_at(format!("{:<95}\n", format!("{r} {seed} {}", sc.name)).as_bytes(), 0);
        }
        let bytes = bytes_for(seed, EFFECTIVE_BYTES);
        let o = run_guarded(sc, &RunIn { run: r, run_seed: seed, bytes: &bytes, verbose: false, deep: false });
        if let Some(e) = &o.harness_error {
            panic!("HARNESS: run {r} scenario {}: {e}", sc.name);
        }
        // in-process determinism self-test on the first runs of every shard
        // (not for C38: there a differing re-execution is the property's violation, which the
        // scenario itself reports from its own repeated executions)
        if selftest_runs < selftest_n && meta.id != "C38" {
            selftest_runs += 1;
            let o2 = run_guarded(sc, &RunIn { run: u64::MAX, run_seed: seed, bytes: &bytes, verbose: false, deep: false });
            if o2.log_hash != o.log_hash {
                panic!("HARNESS: determinism self-test failed: run {r} scenario {} gave two different event logs from the same bytes", sc.name);
            }
        }
        if hash_done < hash_n {
            hash_acc = (hash_acc ^ r.wrapping_mul(31) ^ o.log_hash).wrapping_mul(0x0000_0100_0000_01B3);
            hash_done += 1;
        }
        evaluations += 1;
        *per_scenario.entry(sc.name).or_default() += 1;
        sim_time += o.sim_time;
        for p in &o.probes {
            *probes.entry(p).or_default() += 1;
        }
        if o.discarded {
            discarded += 1;
        } else if o.nontrivial {
            nontrivial += 1;
            if distinct.len() < 1_000_000 {
                distinct.insert(o.sched_hash ^ fnv_str(sc.name));
            }
        }
        if let Some((class, detail)) = o.violation {
            viols.entry(class).or_insert((r, si, detail));
            if viols.len() >= 6 {
                break;
            }
        }
        r += 1;
    }
    if let Some(post) = post {
        let po = post();
        if let Some(e) = po.harness_error {
            panic!("HARNESS: post-batch pass: {e}");
        }
        for (p, n) in po.probes {
            *probes.entry(p).or_default() += n;
        }
        for (class, r, detail) in po.viols {
            let si = scenario_for(&scenarios, r);
            viols.entry(class).or_insert((r, si, detail));
        }
    }
    let batch_wall = t0.elapsed().as_secs_f64();

    // violations: reproduce in-process from the bytes, minimise, write the replay file
    let mut viol_json = vec![];
    for (class, (r, si, detail)) in &viols {
        let sc = &scenarios[*si];
        let seed = run_seed(cfg.seed, sc.name, *r);
        let bytes = bytes_for(seed, EFFECTIVE_BYTES);
        let again = run_guarded(sc, &RunIn { run: *r, run_seed: seed, bytes: &bytes, verbose: false, deep: true });
        if again.violation.as_ref().map(|v| &v.0) != Some(class) {
            panic!("HARNESS: violation {class} of run {r} did not reproduce in-process from its bytes");
        }
        // classes whose check needs a child process are too expensive to minimise
        // (C38: a nondeterministic simulator makes minimisation meaningless and needs child processes)
        let budget = if meta.id == "C38" { 0 } else { 400 };
        let min = minimise(sc, seed, bytes.clone(), class, budget);
        let fin = run_guarded(sc, &RunIn { run: *r, run_seed: seed, bytes: &min, verbose: true, deep: true });
        let (fclass, fdetail) = fin.violation.clone().unwrap_or((class.clone(), detail.clone()));
        let dir = verif_dir().join("replays");
        let _ = std::fs::create_dir_all(&dir);
        let path = dir.join(format!("{}-{}-{}.json", meta.id, cfg.seed, r));
        let j = json!({
            "property": meta.id, "engine": ENGINE, "leg": "e2e", "scenario": sc.name,
            "seed": cfg.seed, "run": r, "run_seed": seed, "repo_head": repo_head(),
            "violation": fclass, "detail": fdetail,
            "bytes_len": min.len(), "unminimised_bytes_len": bytes.len(),
            "bytes_hex": hex(&min),
            "event_log": fin.text,
        });
        std::fs::write(&path, serde_json::to_string_pretty(&j).unwrap()).expect("write replay");
        viol_json.push(json!({"class": class, "run": r, "scenario": sc.name, "detail": fdetail, "replay": path}));
    }

    // samples
    let mut samples = vec![];
    if shard_i == 0 {
        for r in 0..3u64.min(runs) {
            let si = scenario_for(&scenarios, r);
            let sc = &scenarios[si];
            let seed = run_seed(cfg.seed, sc.name, r);
            let bytes = bytes_for(seed, EFFECTIVE_BYTES);
            let o = run_guarded(sc, &RunIn { run: r, run_seed: seed, bytes: &bytes, verbose: true, deep: false });
            samples.push(json!({
                "run": r, "scenario": sc.name, "run_seed": seed,
                "decision_bytes_prefix_hex": hex(&bytes[..32]),
                "history": o.text.iter().take(60).collect::<Vec<_>>(),
                "nontrivial": o.nontrivial, "discarded": o.discarded,
                "violation": o.violation.map(|v| v.0),
            }));
        }
    }
    let res = json!({
        "property_id": meta.id, "tier": cfg.tier, "seed": cfg.seed, "shard": [shard_i, shard_k],
        "evaluations": evaluations, "discarded_runs": discarded, "nontrivial_runs": nontrivial,
        "distinct": distinct.iter().collect::<Vec<_>>(),
        "sim_time": sim_time, "probes": probes, "runs_per_scenario": per_scenario,
        "violations": viol_json, "samples": samples,
        "batch_wall_s": batch_wall, "wall_s": t0.elapsed().as_secs_f64(),
        "selftest_runs": selftest_runs,
        "selftest_hash": format!("{hash_acc:016x} {hash_done}"),
        "rule": meta.rule, "time_unit": meta.time_unit, "real": meta.real, "stubs": meta.stubs,
        "assumptions": meta.assumptions, "required_probes": meta.required_probes,
        "repo_head": repo_head(),
    });
    if let Some(out) = &cfg.out {
        if let Some(d) = out.parent() {
            let _ = std::fs::create_dir_all(d);
        }
        std::fs::write(out, serde_json::to_string(&res).unwrap()).expect("write leg result");
    }
    if let Some(m) = &marker {
        let _ = std::fs::remove_file(m);
    }
    println!(
        "e2e-leg property={} shard={}/{} runs={} nontrivial_distinct={} discarded={} violations={} wall={:.1}s",
        meta.id, shard_i, shard_k, evaluations, distinct.len(), discarded, viols.len(), t0.elapsed().as_secs_f64()
    );
}

#[cfg(stageleft_runtime)]
fn replay(meta: &PropMeta, scenarios: &[Scenario<'_>], path: &PathBuf) {
    let s = std::fs::read_to_string(path).unwrap_or_else(|e| panic!("HARNESS: cannot read replay {}: {e}", path.display()));
    let v: Value = serde_json::from_str(&s).unwrap_or_else(|e| panic!("HARNESS: bad replay json: {e}"));
    let scn = v["scenario"].as_str().unwrap_or("");
    let Some(sc) = scenarios.iter().find(|s| s.name == scn) else {
        panic!("HARNESS: unknown scenario '{scn}' for {}", meta.id);
    };
    let seed = v["run_seed"].as_u64().unwrap_or(0);
    let bytes = if v["bytes_from_seed"].as_bool() == Some(true) { bytes_for(seed, EFFECTIVE_BYTES) } else { unhex(v["bytes_hex"].as_str().unwrap_or("")) };
    let o = run_guarded(sc, &RunIn { run: u64::MAX, run_seed: seed, bytes: &bytes, verbose: true, deep: true });
    if let Some(e) = o.harness_error {
        panic!("HARNESS: {e}");
    }
    for l in &o.text {
        println!("{l}");
    }
    match o.violation {
        Some((class, detail)) => println!("REPLAY-VIOLATION class={class} detail={detail}"),
        None => println!("REPLAY-OK expected_class={} (no violation on this tree)", v["violation"].as_str().unwrap_or("")),
    }
}

#[cfg(stageleft_runtime)]
pub fn hash_str(h: u64, s: &str) -> u64 {
    let mut h = h;
    for b in s.as_bytes() {
        h ^= *b as u64;
        h = h.wrapping_mul(0x0000_0100_0000_01B3);
    }
    h
}
#[cfg(stageleft_runtime)]
pub const FNV0: u64 = 0xcbf2_9ce4_8422_2325;

#[cfg(stageleft_runtime)]
/// A value built on first use (a compiled flow: a shard process only pays for the flows of the
/// scenarios it actually runs).
pub struct Lazy<T> {
    cell: std::cell::OnceCell<T>,
    init: Box<dyn Fn() -> T>,
}
#[cfg(stageleft_runtime)]
impl<T> Lazy<T> {
    pub fn new(init: impl Fn() -> T + 'static) -> Self {
        Lazy { cell: std::cell::OnceCell::new(), init: Box::new(init) }
    }
    pub fn get(&self) -> &T {
        self.cell.get_or_init(|| (self.init)())
    }
}
